"""C06: the read matrix fed to inference is exactly the filtered pileup.

spec  : spec/ReadExtract/{ReadExtract,DrivenReadExtract,TraceReadExtract,RefSources}.tla
bind  : spec -> code  every TLC state (stream of <= 3 abstract alignments; 32/64 configurations each) and
                      every state of harness-chosen full-alphabet streams is concretised by vlib/bamgen into real
                      BAM/FASTA/VCF files; extract_read_variants(read_dicts=True), single-sample requests,
                      encode_sample_reads (units and pools) must equal the model output; assemble / call-exact
                      command lines on a subset (FORMAT DP/RCOUNT/RCALLS/SNVDP, error exit on reference mismatch)
        code -> spec  the repository's BAMs and seeded random BAMs are abstracted by the independent SAM-text
                      walker (vlib/samwalk) and replayed through TraceReadExtract.tla together with what the
                      implementation returned
"""
import json
import os
import random
import shutil
import sys

sys.path.insert(0, os.path.dirname(os.path.abspath(__file__)))
from vlib import env, tlc, pool
from vlib.report import Check

SPEC = os.path.join(env.SPEC, "ReadExtract")
REPO_BAMS = ["simple.sample1.bam", "simple.sample2.bam", "simple.sample3.bam",
             "simple.sample1.deep.bam", "simple.sample2.deep.bam", "simple.sample3.deep.bam"]


def random_streams(rnd, n):
    """Full-alphabet streams for DrivenReadExtract (seeded)."""
    out = []
    for _ in range(n):
        k = rnd.choice([1, 2, 2, 3, 3, 4, 5])
        names = ["q1", "q2", "q3"][: rnd.choice([1, 2, 2, 3])]
        st = []
        for _ in range(k):
            flags = [f for f, p in (("dup", 0.2), ("qcfail", 0.2), ("supp", 0.2), ("secondary", 0.12)) if rnd.random() < p]
            cells = [rnd.choice(["none", "none", "A", "A", "C", "C", "G", "T", "N"]) for _ in range(2)]
            if rnd.random() < 0.04:
                flags.append("unmapped")
                cells = ["none", "none"]
            st.append({
                "qname": rnd.choice(names), "rg": rnd.choice(["a1", "a2", "b1"]), "flags": flags,
                "mapq": rnd.choice([0, 19, 20, 29, 30, 60, 60, 255]), "cells": cells,
                "refok": [rnd.random() > 0.05 for _ in range(2)],
                "overlap": True if any(c != "none" for c in cells) else rnd.random() < 0.6,
            })
        out.append(st)
    return out


def violation_key(m):
    cfg = m["cfg"]
    feats = sorted({f for a in m["hist"] for f in a["flags"]})
    return {"site": "extract_read_variants" if not m["kind"].startswith("stat-") else "encode_sample_reads",
            "what": m["kind"], "field": cfg["field"], "flags_in_stream": "+".join(feats) or "none"}


def copy_repo_data(dst):
    """Copy the repository's alignment test data into the work directory (pysam may create index
    files next to a file it opens; nothing may be written into the tree under test)."""
    src = os.path.join(env.REPO, "mchap", "tests", "test_io", "data")
    shutil.rmtree(dst, ignore_errors=True)
    os.makedirs(dst)
    for f in os.listdir(src):
        if f.startswith("simple.") and (".bam" in f or f.startswith("simple.fasta") or f.startswith("simple.vcf.gz") or f.startswith("simple.bed")):
            shutil.copy2(os.path.join(src, f), os.path.join(dst, f))
    return dst


def main():
    ck = Check("C06")
    tier = ck.tier
    quick = tier == "quick"
    rnd = random.Random(ck.seed)
    for fn in os.listdir(ck.wd):  # nothing stale: replay / trace files of earlier runs
        if fn.startswith(("violation-", "trace-")) and fn.endswith(".json"):
            os.remove(os.path.join(ck.wd, fn))
    data_wd = os.path.join(ck.wd, "data")
    shutil.rmtree(data_wd, ignore_errors=True)
    os.makedirs(data_wd)
    repo_data = copy_repo_data(os.path.join(ck.wd, "repo-data"))
    ck.rule = (
        "TLC explores every bag of <= 2 (wide alphabet) and <= 3 (narrow alphabet) abstract alignments and, per state, "
        "all configurations (MAPQ thresholds x keep-duplicate x keep-qcfail x keep-supplementary x read-group field x "
        "file layout); harness-chosen full-alphabet streams are run through the same state machine. Every state is "
        "concretised into real BAM files (two independent realisations: one-file and split layout) and compared with "
        "extract_read_variants / encode_sample_reads for every configuration. Non-trivial = state with >= 2 alignments "
        "and at least one matrix row; trace line = one alignment record or one implementation result."
    )
    # ---- 1+2. model checking, and spec -> code replay of every state, one instance at a time ----
    shapes = {}
    n_states = [0]
    keep_multi, keep_err = [], []   # reservoirs of states for the command-line subset
    sample_state = []

    def replay(states):
        chunk = 60
        tasks = [{"op": "replay", "states": states[i:i + chunk], "seed": ck.seed, "chunk": "%d-%d" % (n_states[0], i // chunk), "wd": data_wd}
                 for i in range(0, len(states), chunk)]
        res = pool.map_tasks("impl.c06", tasks, mode="jit")
        for t, rr in zip(tasks, res):
            if not rr["ok"]:
                ck.machinery_failure("replay worker failed: %s\n%s" % (rr["error"], rr.get("tb", "")))
            o = rr["result"]
            ck.evaluations += o["evals"]
            ck.nontrivial += o["nontrivial"]
            ck.traces += o["states"]
            for k, v in o["shapes"].items():
                shapes[k] = shapes.get(k, 0) + v
            for m in o["mismatch"]:
                ck.violation(m["kind"], m, key=violation_key(m))
        n_states[0] += len(states)
        for s in states:
            if len(s["hist"]) >= 2:
                if len(keep_multi) < 400 or rnd.random() < 0.01:
                    keep_multi.append(s)
                if any(c["o"]["e"] for c in s["outs"]) and (len(keep_err) < 200 or rnd.random() < 0.01):
                    keep_err.append(s)
        if states and not sample_state:
            sample_state.append(states[len(states) // 3])

    if quick:
        insts = [("MC_quick.cfg", "ReadExtract-wide"), ("MC_quick_deep.cfg", "ReadExtract-deep")]
    else:
        insts = [("MC_thorough.cfg", "ReadExtract-wideA"), ("MC_thorough_b.cfg", "ReadExtract-wideB"), ("MC_thorough_deep.cfg", "ReadExtract-deep")]
    try:
        for cfg, label in insts:
            r = tlc.run(SPEC, "ReadExtract", cfg, timeout=3000, keep_stdout=False)
            ck.add_tlc(r, label)
            if r.violated:
                ck.violation("model", {"cfg": cfg, "invariant": r.violated, "text": r.error_text[:1500]}, key={"model": "ReadExtract"})
            states = [s for s in r.printed if s["hist"]]
            del r
            replay(states)
            del states
        killed = 0
        for inv in ("MutRowsPerAlignment", "MutLastCallWins", "MutMapqExclusive"):
            m = tlc.run(SPEC, "ReadExtract", "Mutant_%s.cfg" % inv)
            if m.violated != inv:
                ck.machinery_failure("mutant spec %s not killed (%s)" % (inv, m.violated))
            killed += 1
        m = tlc.run(SPEC, "RefSources", "Mutant_RefSilent.cfg")
        if m.violated != "MutSilent":
            ck.machinery_failure("mutant spec RefSilent not killed")
        killed += 1
        ck.note("mutant_specs_killed", killed)
        rs = tlc.run(SPEC, "RefSources", "RefSources.cfg")
        ck.add_tlc(rs, "RefSources")
        if rs.violated:
            ck.violation("model", {"invariant": rs.violated, "text": rs.error_text[:1500]}, key={"model": "RefSources"})
        ref_cases = rs.printed
        # harness-chosen streams over the full alphabet, through the same state machine
        streams = random_streams(rnd, 400 if quick else 4000)
        sf = os.path.join(ck.wd, "streams.json")
        with open(sf, "w") as fh:
            json.dump(streams, fh)
        rd = tlc.run(SPEC, "DrivenReadExtract", "Driven.cfg", extra_env={"STREAMS_FILE": sf}, timeout=3000, keep_stdout=False)
        ck.add_tlc(rd, "DrivenReadExtract")
        if rd.violated:
            ck.violation("model", {"cfg": "Driven.cfg", "invariant": rd.violated, "text": rd.error_text[:1500]}, key={"model": "DrivenReadExtract"})
        driven = [s for s in rd.printed if s["hist"]]
        del rd
        ck.note("driven_streams", len(streams))
        replay(driven)
        del driven
    except tlc.TLCError as e:
        ck.machinery_failure(str(e))
    ck.note("replayed_states", n_states[0])
    ck.note("realised_cigar_shapes", shapes)
    ck.sample({"kind": "state", "hist": sample_state[0]["hist"], "n_config_classes": len(sample_state[0]["outs"])})

    # ---- 3. command line level (subset) --------------------------------------
    multi, with_err = keep_multi, keep_err
    pick = rnd.sample(multi, min(len(multi), 12 if quick else 90)) + rnd.sample(with_err, min(len(with_err), 4 if quick else 30))
    ctasks = []
    for i in range(0, len(pick), 4):
        ctasks.append({"op": "cli", "program": "assemble" if (i // 4) % 2 == 0 else "call-exact", "states": pick[i:i + 4],
                       "seed": ck.seed, "chunk": i // 4, "wd": data_wd})
    for c in ref_cases:
        ctasks.append({"op": "cli_exit", "program": "assemble", "case": c, "seed": ck.seed, "wd": data_wd})
    cres = pool.map_tasks("impl.c06", ctasks, mode="jit")
    n_cli = 0
    n_cli_err = 0
    for t, rr in zip(ctasks, cres):
        if not rr["ok"]:
            ck.machinery_failure("cli worker failed: %s\n%s" % (rr["error"], rr.get("tb", "")))
        if t["op"] == "cli":
            for rec in rr["result"]:
                n_cli += 1
                ck.evaluations += 1
                n_cli_err += 1 if rec["expect_error"] else 0
                for kind, a, b in rec["mismatch"]:
                    ck.violation("cli-" + kind, {"program": rec["program"], "argv": rec["argv"], "cfg": rec["cfg"], "hist": rec["hist"], "impl": a, "model": b},
                                 key={"site": "mchap " + rec["program"], "what": kind, "field": rec["cfg"]["field"]})
        else:
            o = rr["result"]
            c = o["case"]
            n_cli += 1
            ck.evaluations += 1
            failed = o["rc"] != 0
            if failed != c["fails"] or (not failed and o["records"] != 1):
                ck.violation("reference-mismatch-exit", {"case": c, "impl_rc": o["rc"], "records": o["records"], "stderr": o["stderr_tail"], "sam": o["sam"]},
                             key={"site": "mchap assemble", "what": "reference-mismatch-exit", "model_err": c["err"]})
    ck.note("cli_runs", n_cli)
    ck.note("cli_runs_expecting_error", n_cli_err + sum(1 for c in ref_cases if c["fails"]))

    # ---- 4. code -> spec: walker-abstracted real BAMs through TraceReadExtract ----
    rtasks = [{"op": "record_repo", "data": repo_data, "seed": ck.seed + i, "tid0": 1000 * i, "bams": [b],
               "cfgs_per_locus": 3 if quick else 10} for i, b in enumerate(REPO_BAMS)]
    nrand = 6 if quick else 40
    for i in range(nrand):
        rtasks.append({"op": "record_random", "wd": data_wd, "chunk": i, "seed": ck.seed, "tid0": 100000 + 1000 * i,
                       "n": 8, "alns": 30, "cfgs": 3, "wrong_md": 0.02})
    # loci with more SNVs than fit a signed byte (the model's sites sit among 130-170 listed SNVs), long reads
    for i in range(2 if quick else 8):
        rtasks.append({"op": "record_random", "wd": data_wd, "chunk": 500 + i, "seed": ck.seed, "tid0": 500000 + 1000 * i,
                       "n": 2, "alns": 40, "cfgs": 2, "wrong_md": 0.0, "n_sites": [130, 170], "spacing": [1, 3], "length": [40, 160]})
    # a deep sample: several hundred distinct read names over one locus (depths and counts beyond a byte)
    for i in range(1 if quick else 4):
        rtasks.append({"op": "record_random", "wd": data_wd, "chunk": 700 + i, "seed": ck.seed, "tid0": 700000 + 1000 * i,
                       "n": 1, "alns": 900, "cfgs": 2, "wrong_md": 0.0, "names": [300, 400]})
    rres = pool.map_tasks("impl.c06", rtasks, mode="jit")
    traces = []
    for t, rr in zip(rtasks, rres):
        if not rr["ok"]:
            ck.machinery_failure("record worker failed: %s\n%s" % (rr["error"], rr.get("tb", "")))
        traces.extend(rr["result"])
    # batches of ~6000 lines per JVM
    batches, cur = [], []
    for tr in traces:
        if cur and len(cur) + len(tr) > 6000:
            batches.append(cur)
            cur = []
        cur.extend(tr)
    if cur:
        batches.append(cur)
    n_lines = n_rej = n_err_ev = 0
    ops = {}
    jobs = []
    for bi, ev in enumerate(batches):
        tf = os.path.join(ck.wd, "trace-%d.json" % bi)
        with open(tf, "w") as fh:
            json.dump(ev, fh)
        jobs.append((tf, ev))

    import concurrent.futures as cf

    def run_trace(job):
        tf, ev = job
        return tlc.run(SPEC, "TraceReadExtract", "Trace.cfg", workers=1, extra_env={"TRACE_FILE": tf}, name="TraceReadExtract-" + os.path.basename(tf), timeout=1800)

    try:
        with cf.ThreadPoolExecutor(max_workers=max(1, env.NCPU // 2)) as ex:
            results = list(ex.map(run_trace, jobs))
    except tlc.TLCError as e:
        ck.machinery_failure(str(e))
    for (tf, ev), t in zip(jobs, results):
        ck.add_tlc(t, None)
        consumed = [p for p in t.printed if "consumed" in p]
        if not consumed or consumed[0]["consumed"] != len(ev):
            ck.machinery_failure("trace %s not fully consumed: %s" % (tf, consumed))
        for p in t.printed:
            if "reject" in p:
                e = ev[p["reject"] - 1]
                n_rej += 1
                begin = next(x for x in reversed(ev[: p["reject"]]) if x["op"] == "begin")
                ck.violation("trace-reject", {"line": p["reject"], "clause": p["clause"], "event": e, "cfg": begin["cfg"], "trace_file": tf},
                             key={"site": "extract_read_variants" if e["op"] in ("rows", "keys", "error") else "encode_sample_reads",
                                  "clause": p["clause"], "op": e["op"]})
        n_lines += len(ev)
        for e in ev:
            ops[e["op"]] = ops.get(e["op"], 0) + 1
    ck.traces += len(traces)
    ck.evaluations += n_lines
    ck.nontrivial += sum(1 for tr in traces if any(e["op"] == "rows" and len(e["rows"]) >= 2 for e in tr))
    ck.note("trace_lines", n_lines)
    ck.note("trace_events", ops)
    ck.note("recorded_executions", len(traces))
    ck.parts["TraceReadExtract"] = {"batches": len(batches), "lines": n_lines}
    st = next(e for tr in traces for e in tr if e["op"] == "stats")
    ck.sample({"kind": "recorded-result", "event": st})

    # binding demonstration: corrupted recorded traces must be rejected
    tr = next(tr for tr in traces if any(e["op"] == "rows" and e["rows"] for e in tr) and any(e["op"] == "stats" for e in tr))
    bad = json.loads(json.dumps(tr))
    want = 0
    for e in bad:
        if e["op"] == "rows" and e["rows"] and want == 0:
            c = e["rows"][0][1]
            c[0] = "A" if c[0] != "A" else "C"
            want += 1
        elif e["op"] == "stats" and want == 1:
            e["stat"][0] += 1
            want += 1
    tfb = os.path.join(ck.wd, "trace-corrupt.json")
    with open(tfb, "w") as fh:
        json.dump(bad, fh)
    try:
        t = tlc.run(SPEC, "TraceReadExtract", "Trace.cfg", workers=1, extra_env={"TRACE_FILE": tfb})
    except tlc.TLCError as e:
        ck.machinery_failure(str(e))
    nrej = sum(1 for p in t.printed if "reject" in p)
    if nrej < want or want < 2:
        if not ck.violations:
            ck.machinery_failure("corrupted trace was not rejected (%d of %d)" % (nrej, want))
        ck.note("corrupted_trace_demo", "not evaluated: the recorded trace itself is rejected")
    ck.note("corrupted_traces_rejected", nrej)

    shutil.rmtree(data_wd, ignore_errors=True)
    ck.exhaustive = True
    ck.assumptions = [
        "TLC and the CommunityModules Json/IOUtils operators are correct",
        "pysam/htslib file decoding is trusted up to agreement with the independent SAM-text walker (vlib/samwalk.py)",
        "exhaustive within the listed alphabets and stream lengths; longer streams / the full alphabet are seeded samples",
        "loci without SNVs (DP/SNVDP undefined) and CRAM input are not modelled",
    ]
    ck.finish()


if __name__ == "__main__":
    main()
