"""X03 (extra): pedigree error statistic PEDERR, multiset algebra (mchap/mset.py), k-mer statistics.

spec  : spec/PedErrAndBags/{PedErr,TracePedErr,MultisetAlgebra,TraceBags,KmerStats,TraceKmer}.tla
bind  : (1) PedErr: every TLC state (pedigree x layout x trace) -> PedigreeAllelesMultiTrace.burn().incongruence() and
            _trace_incongruence (compiled); interpreted runs with recorders on the internal trio_valid / duo_valid calls and
            real `mchap call-pedigree` runs (repository test data; generated pedigree / ploidy / gamete files) ->
            TracePedErr.tla (PEDERR text recomputed from the captured trace)
        (2) MultisetAlgebra: every TLC state (pair / triple of arrays = row sequences, i.e. every row order) -> the
            functions of mchap/mset.py in three element renderings; recorded calls on random arrays -> TraceBags.tla
        (3) KmerStats: every TLC state (reads, haplotypes, k) -> kmer.py / stats.py functions; recorded calls on the
            read matrices of the repository BAMs and random matrices -> TraceKmer.tla
Only PART=ped|bags|kmer (env X03_PARTS, comma separated) restricts the parts that are run (development aid).
"""
import json
import os
import random
import sys
from fractions import Fraction

sys.path.insert(0, os.path.dirname(os.path.abspath(__file__)))
from vlib import env, tlc, pool, repodata
from vlib.report import Check
from vlib.compare import close_prob, close_text3

SPEC = os.path.join(env.SPEC, "PedErrAndBags")


def group(grouped, kind, key, detail):
    k = (kind, json.dumps(key, sort_keys=True))
    g = grouped.setdefault(k, {"kind": kind, "key": key, "n": 0, "examples": []})
    g["n"] += 1
    if len(g["examples"]) < 3:
        g["examples"].append(detail)


def flush(ck, grouped):
    for (kind, _), g in sorted(grouped.items()):
        ck.violation(kind, {"count": g["n"], "examples": g["examples"]}, key=g["key"])
    grouped.clear()


def run_tlc(ck, module, cfg, label, **kw):
    try:
        r = tlc.run(SPEC, module, cfg, **kw)
    except tlc.TLCError as e:
        ck.machinery_failure("%s/%s: %s" % (module, cfg, str(e)[-1500:]))
    if label:
        ck.add_tlc(r, label)
    return r


def kill_mutants(ck, module, mutants):
    n = 0
    for cfg, inv in mutants:
        m = run_tlc(ck, module, cfg, None, timeout=900)
        if m.violated != inv:
            ck.machinery_failure("mutant spec %s not killed (expected %s, got %s)" % (cfg, inv, m.violated))
        n += 1
    ck.bump("mutant_specs_killed", n)
    return n


def validate_trace(ck, module, cfg, events, fname, label, grouped, site_of, timeout=2400):
    """code -> spec: one JVM per file; every event gets a verdict"""
    if not events:
        return set()
    tf = os.path.join(ck.wd, fname)
    with open(tf, "w") as fh:
        json.dump(events, fh)
    t = run_tlc(ck, module, cfg, label, workers=1, extra_env={"TRACE_FILE": tf}, timeout=timeout)
    consumed = [p for p in t.printed if "consumed" in p]
    if not consumed or consumed[0]["consumed"] != len(events):
        ck.machinery_failure("%s: trace not fully consumed: %s / %d\n%s" % (module, consumed, len(events), t.error_text[:1500]))
    nrej = set()
    for p in t.printed:
        if "reject" in p:
            nrej.add(p["reject"] - 1)
            e = events[p["reject"] - 1]
            if grouped is not None:
                group(grouped, "trace-reject", dict(site_of(e, p["clause"]), clause=p["clause"]),
                      {"line": p["reject"], "clause": p["clause"], "event": json.dumps(e)[:1500]})
    return nrej


def expect_all_rejected(ck, module, cfg, bad_events, fname, what, grouped=None):
    if not bad_events:
        if grouped:      # the recorded events are missing because the implementation failed: that is already a verdict
            ck.note("corrupted_%s_demo_skipped" % what, "no recorded events (implementation errors reported)")
            return
        ck.machinery_failure("no corrupted %s events could be built" % what)
    nrej = len(validate_trace(ck, module, cfg, bad_events, fname, None, None, None))
    if nrej != len(bad_events):
        ck.machinery_failure("corrupted %s events rejected: %d of %d" % (what, nrej, len(bad_events)))
    ck.bump("corrupted_traces_rejected", nrej)


def accepted(events, rejected):
    """the binding demonstrations corrupt events that the model accepted"""
    return [e for i, e in enumerate(events) if i not in rejected]


# =====================================================================================================
# (1) PEDERR
# =====================================================================================================
PED_MUTANTS = [("Mutant_burn.cfg", "CountIsDefinition"), ("Mutant_duoside.cfg", "DuoIsTrioWithFreeGamete"),
               ("Mutant_nodr.cfg", "ValidIsGenerable")]


def ped_feature(ped):
    pl = ped["pl"]
    return {
        "mixed_ploidy": len(set(pl)) > 1,
        "duo": any((p == 0) != (q == 0) for p, q in ped["par"]),
        "unbalanced_tau": any(a != b for (a, b), (p, q) in zip(ped["tau"], ped["par"]) if p or q),
        "lambda": any(a[0] or b[0] for a, b in ped["lam"]),
    }


def write_rows(path, rows):
    with open(path, "w") as fh:
        for r in rows:
            fh.write("\t".join(str(x) for x in r) + "\n")
    return path


def ped_run_configs(ck, data):
    """real program runs: pedigree structure x ploidy x gamete ploidy x excess IBD x error x chain layout"""
    rnd = random.Random(ck.seed + 11)
    pd = os.path.join(ck.wd, "ped")
    os.makedirs(pd, exist_ok=True)
    S1, S2, S3 = "SAMPLE1", "SAMPLE2", "SAMPLE3"
    U = "."

    def bams(deep):
        return [os.path.join(data, "simple.sample%d%s.bam" % (i, ".deep" if d else "")) for i, d in zip((1, 2, 3), deep)]

    structures = {
        # name: (rows of the --sample-parents file, ploidy map or constant, gamete ploidy rows or None, ibd rows or constant)
        "repo132": ("repo", 4, None, "0.0"),
        "repo132-tau": ("repo", 4, "repo", "0.0"),
        "repo132-ibd": ("repo", 4, None, "0.1"),
        "trio": ([[S1, U, U], [S2, U, U], [S3, S1, S2]], 4, None, "0.0"),
        "child-first": ([[S1, S2, S3], [S2, U, U], [S3, U, U]], 4, None, "0.0"),
        "duos": ([[S1, U, U], [S2, U, S1], [S3, S2, U]], 4, [[S1, 2, 2], [S2, 1, 3], [S3, 3, 1]], "0.0"),
        "ghosts": ([[S1, "G1", "G2"], [S2, "G1", U], [S3, S1, S2], ["G1", U, U], ["G2", U, U]], 4, None, "0.0"),
        "selfing-ibd": ([[S1, U, U], [S2, S1, S1], [S3, S2, S1]], 4, None, [[S1, 0, 0], [S2, 0.25, 0.1], [S3, 0, 0.2]]),
        "mixed-ploidy": ([[S1, U, U], [S2, U, U], [S3, S1, S2]], {S1: 4, S2: 2, S3: 3}, [[S1, 2, 2], [S2, 1, 1], [S3, 2, 1]], "0.0"),
        "mixed-ploidy-2": ([[S1, S3, S2], [S2, U, U], [S3, U, U]], {S1: 3, S2: 4, S3: 2}, [[S1, 1, 2], [S2, 2, 2], [S3, 1, 1]],
                           [[S1, 0, 0.2], [S2, 0, 0], [S3, 0, 0]]),
        "clone": ([[S1, U, U], [S2, S1, S3], [S3, U, U]], 4, [[S1, 2, 2], [S2, 4, 0], [S3, 2, 2]], "0.0"),
        "diploid": ([[S1, U, U], [S2, S1, U], [S3, S1, S2]], 2, None, "0.0"),
    }
    names = list(structures)
    if ck.tier == "quick":
        plan = [(n, 1) for n in names]
    else:
        plan = [(n, 4) for n in names]
    runs = []
    for name, reps in plan:
        rows, ploidy, tau_rows, ibd = structures[name]
        for rep in range(reps):
            tag = "%s-%d" % (name, rep)
            if rows == "repo":
                pfile = os.path.join(data, "simple.pedigree.132.txt")
                prow = [[S1, U, U], [S2, S1, S3], [S3, S1, U]]
            else:
                pfile = write_rows(os.path.join(pd, tag + ".parents.txt"), rows)
                prow = rows
            members = [r[0] for r in prow]
            if isinstance(ploidy, dict):
                plmap = dict(ploidy)
                plarg = write_rows(os.path.join(pd, tag + ".ploidy.txt"), [[m, plmap[m]] for m in members])
            else:
                plmap = {m: ploidy for m in members}
                plarg = str(ploidy)
            if tau_rows == "repo":
                tfile = os.path.join(data, "simple.tau.132.txt")
                taumap = {S1: (2, 2), S2: (3, 1), S3: (2, 2)}
            elif tau_rows is None:
                tfile = None
                taumap = {m: (plmap[m] // 2, plmap[m] // 2) for m in members}
            else:
                tfile = write_rows(os.path.join(pd, tag + ".tau.txt"), tau_rows)
                taumap = {r[0]: (r[1], r[2]) for r in tau_rows}
            if isinstance(ibd, str):
                ibdarg = ibd
                lam = {m: (float(ibd), float(ibd)) for m in members}
            else:
                ibdarg = write_rows(os.path.join(pd, tag + ".ibd.txt"), ibd)
                lam = {r[0]: (float(r[1]), float(r[2])) for r in ibd}
            steps, burn = rnd.choice([(40, 10), (30, 6), (24, 8), (50, 20), (16, 4), (36, 9)])
            chains = rnd.choice([1, 2, 2, 3])
            err = rnd.choice(["0.01", "0.1", "0.3", "0.5", "0.5", "0.9"])
            hv = rnd.choice(["simple.output.mixed_depth.assemble.vcf", "mock.input.frequencies.vcf"])
            deep = rnd.choice([(False, True, False), (False, False, False), (True, False, True)])
            argv = ["--bam"] + bams(deep) + ["--haplotypes", os.path.join(data, hv), "--ploidy", plarg,
                                               "--sample-parents", pfile, "--gamete-error", err, "--gamete-ibd", ibdarg,
                                               "--mcmc-steps", str(steps), "--mcmc-burn", str(burn),
                                               "--mcmc-chains", str(chains), "--mcmc-seed", str(rnd.randrange(1, 10 ** 6))]
            if tfile:
                argv += ["--gamete-ploidy", tfile]
            if rnd.random() < 0.3:
                argv += ["--report", "AFP", "GP"]
            runs.append({"name": tag, "argv": argv, "burn": burn, "steps": steps, "chains": chains,
                         "parents": {r[0]: (r[1], r[2]) for r in prow}, "ploidy": plmap, "tau": taumap, "lam": lam})
    return runs


def ped_event_from_run(cfg, ev):
    """attach the pedigree as written in the input files (by sample name) to a captured (run, locus) event"""
    names = ev["samples"]
    idx = {s: i + 1 for i, s in enumerate(names)}
    par, pl, tau, lamc = [], [], [], []
    for s in names:
        p, q = cfg["parents"][s]
        par.append([0 if p == "." else idx[p], 0 if q == "." else idx[q]])
        pl.append(int(cfg["ploidy"][s]))
        tau.append([int(cfg["tau"][s][0]), int(cfg["tau"][s][1])])
        lamc.append([0 if cfg["lam"][s][0] == 0 else 1, 0 if cfg["lam"][s][1] == 0 else 1])
    return {"op": "run", "name": ev["name"], "locus": ev["locus"], "K": ev["K"], "pl": pl, "par": par, "tau": tau,
            "lamc": lamc, "s": ev["s"], "c": ev["c"], "b": cfg["burn"], "tr": ev["tr"], "printed": ev["printed"]}


def part_pederr(ck, grouped):
    tier = ck.tier
    r = run_tlc(ck, "PedErr", "MC_%s.cfg" % tier, "PedErr", timeout=3400)
    if r.violated:
        ck.violation("model", {"invariant": r.violated, "text": r.error_text[:1500]}, key={"model": "PedErr"})
        return
    kill_mutants(ck, "PedErr", PED_MUTANTS)
    peds = [p["peds"] for p in r.printed if "peds" in p]
    states = [p for p in r.printed if "steps" in p]
    if not peds or not states:
        ck.machinery_failure("PedErr: TLC printed no pedigrees / states")
    peds = peds[0]
    ck.note("pederr_pedigrees", len(peds))
    ck.note("pederr_model_states", len(states))

    # ---- spec -> code: every state, compiled ---------------------------------------------------------
    CH = 400
    chunks = [states[i:i + CH] for i in range(0, len(states), CH)]
    res = pool.map_tasks("impl.x03ped", [{"op": "replay", "peds": peds, "states": c, "seed": ck.seed + i}
                                         for i, c in enumerate(chunks)], mode="jit")
    feats = {}
    for c, rr in zip(chunks, res):
        if not rr["ok"]:
            group(grouped, "impl-error", {"site": "PedigreeAllelesMultiTrace.incongruence", "kind": "exception"},
                  {"error": rr["error"], "tb": rr.get("tb", "")[-600:], "first": c[0]})
            continue
        for st, o in zip(c, rr["result"]):
            ped = peds[st["pi"] - 1]
            N = len(ped["pl"])
            n = len(st["steps"])
            ck.traces += 1
            f = ped_feature(ped)
            for k, v in f.items():
                if v:
                    feats[k] = feats.get(k, 0) + 1
            key = {"site": "PedigreeAllelesMultiTrace.incongruence"}

            def relation(i):
                p_, q_ = ped["par"][i]
                return "founder" if (p_ == 0 and q_ == 0) else ("trio" if (p_ and q_) else "duo")

            if "rect" in o:
                if o["shape"] != [N]:
                    group(grouped, "pederr-shape", key, {"state": st, "shape": o["shape"]})
                for i in range(N):
                    ck.evaluations += 1
                    q = Fraction(st["bad"][i], st["kept"])
                    if 0 < q < 1:
                        ck.nontrivial += 1
                    if not close_prob(o["rect"][i], q):
                        group(grouped, "pederr-value", dict(key, relation=relation(i)),
                              {"pedigree": ped, "state": st, "individual": i, "impl": o["rect"][i], "model": str(q)})
            for i in range(N):
                ck.evaluations += 1
                q = Fraction(sum(1 for s in range(n) if st["flags"][s][i]), n)
                if not close_prob(o["flat"][i], q):
                    group(grouped, "pederr-value", {"site": "_trace_incongruence", "relation": relation(i)},
                          {"pedigree": ped, "state": st, "individual": i, "impl": o["flat"][i], "model": str(q)})
    ck.note("pederr_state_features", feats)
    mid = states[len(states) // 2]
    ck.sample({"kind": "PedErr state", "pedigree": peds[mid["pi"] - 1], "state": mid})

    # ---- code -> spec (a): interpreted runs with recorders on the internal validity calls ------------------
    rnd = random.Random(ck.seed + 5)
    want = 500 if tier == "quick" else 3000
    interesting = [s for s in states if any(any(f) for f in s["flags"])]
    rnd.shuffle(interesting)
    plain = [s for s in states if not any(any(f) for f in s["flags"])]
    rnd.shuffle(plain)
    sel = interesting[: want * 3 // 4] + plain[: want // 4]
    chunks = [sel[i:i + 60] for i in range(0, len(sel), 60)]
    res = pool.map_tasks("impl.x03ped", [{"op": "record", "peds": peds, "states": c, "seed": ck.seed + i}
                                         for i, c in enumerate(chunks)], mode="py")
    call_events = []
    for c, rr in zip(chunks, res):
        if not rr["ok"]:
            group(grouped, "impl-error", {"site": "incongruence (interpreted)", "kind": "exception"},
                  {"error": rr["error"], "tb": rr.get("tb", "")[-600:]})
            continue
        call_events.extend(rr["result"])
    rej_calls = validate_trace(ck, "TracePedErr", "Trace.cfg", call_events, "trace-pederr-calls.json", "TracePedErr-calls", grouped,
                   lambda e, cl: {"site": "_trace_incongruence internal calls"})
    ck.traces += len(call_events)
    ck.evaluations += sum(len(e["calls"]) for e in call_events)
    ck.note("pederr_recorded_incongruence_calls", len(call_events))
    ck.note("pederr_recorded_validity_calls", sum(len(e["calls"]) for e in call_events))

    # ---- code -> spec (b): real call-pedigree runs on the repository's test data ---------------------------
    data = repodata.copy_test_data(ck.wd, repodata.ASSEMBLE_FILES + repodata.CALL_FILES + ["simple.tau.132.txt"])
    cfgs = ped_run_configs(ck, data)
    res = pool.map_tasks("impl.x03ped", [{"op": "runs", "runs": [c]} for c in cfgs], mode="jit")
    run_events = []
    nontriv = 0
    for cfg, rr in zip(cfgs, res):
        if not rr["ok"]:
            group(grouped, "impl-error", {"site": "call-pedigree run", "structure": cfg["name"].rsplit("-", 1)[0]},
                  {"argv": cfg["argv"], "error": rr["error"], "tb": rr.get("tb", "")[-800:]})
            continue
        out = rr["result"][0]
        if len(out["header_pederr"]) != 1 or "Number=1,Type=Float" not in out["header_pederr"][0]:
            group(grouped, "pederr-header", {"site": "call-pedigree header"}, {"header": out["header_pederr"], "run": cfg["name"]})
        for ev in out["events"]:
            if not ev["has_pederr"]:
                group(grouped, "pederr-missing-format", {"site": "call-pedigree FORMAT"}, {"run": cfg["name"], "line": ev["line"][:400]})
                continue
            if not ev["mcmc"]:
                # no MCMC (no alleles): PEDERR must be missing
                if any(t != "." for t in ev["text"]):
                    group(grouped, "pederr-no-mcmc", {"site": "call-pedigree invalid scenario"}, {"run": cfg["name"], "text": ev["text"]})
                continue
            e = ped_event_from_run(cfg, ev)
            run_events.append(e)
            nontriv += sum(1 for m in e["printed"] if 0 < m < 1000)
    rej_runs = validate_trace(ck, "TracePedErr", "Trace.cfg", run_events, "trace-pederr-runs.json", "TracePedErr-runs", grouped,
                   lambda e, cl: {"site": "call-pedigree PEDERR", "structure": e["name"].rsplit("-", 1)[0]})
    ck.traces += len(run_events)
    ck.evaluations += sum(len(e["printed"]) for e in run_events)
    ck.nontrivial += nontriv
    ck.note("pederr_program_runs", len(cfgs))
    ck.note("pederr_run_events", len(run_events))
    ck.note("pederr_printed_strictly_between_0_and_1", nontriv)
    if run_events:
        e = max(run_events, key=lambda e: sum(1 for m in e["printed"] if 0 < m < 1000))
        ck.sample({"kind": "call-pedigree run", "run": e["name"], "locus": e["locus"], "par": e["par"], "tau": e["tau"],
                   "chains_x_steps": [e["c"], e["s"]], "burn": e["b"], "PEDERR_milli": e["printed"]})

    # one run of the real command line: same argv, same seed -> the same PEDERR column
    if cfgs and res and res[0]["ok"]:
        cli = pool.map_tasks("impl.x03ped", [{"op": "cli", "run": cfgs[0]}], mode="jit")[0]
        if not cli["ok"] or cli["result"]["rc"] != 0:
            group(grouped, "impl-error", {"site": "call-pedigree command line"}, {"result": cli})
        else:
            inproc = {e["locus"]: e["text"] for e in res[0]["result"][0]["events"]}
            for rec in cli["result"]["records"]:
                ck.evaluations += 1
                got = [s.get("PEDERR") for s in rec["samples"]]
                if got != inproc.get(rec["id"]):
                    group(grouped, "pederr-cli", {"site": "call-pedigree command line"},
                          {"locus": rec["id"], "cli": got, "in_process": inproc.get(rec["id"])})
            ck.note("pederr_cli_records", len(cli["result"]["records"]))

    # ---- binding demonstration: corrupted events must be rejected -------------------------------------------
    bad = []
    for e in accepted(run_events, rej_runs):
        hit = [i for i, m in enumerate(e["printed"]) if 0 < m < 1000]
        if hit and len(bad) == 0:
            b = json.loads(json.dumps(e))
            b["printed"][hit[0]] += 2
            bad.append(b)
        elif hit and len(bad) == 1:
            b = json.loads(json.dumps(e))
            b["par"][hit[0]] = [0, 0]          # the individual declared a founder: its PEDERR must then be 0
            bad.append(b)
        elif hit and len(bad) == 2:
            b = json.loads(json.dumps(e))
            b["tr"][-1][0][0] = -1              # padding inside the declared ploidy
            bad.append(b)
    for e in accepted(call_events, rej_calls):
        if e["calls"] and len(bad) in (3, 0, 1, 2):
            b = json.loads(json.dumps(e))
            b["calls"][0]["res"] = not b["calls"][0]["res"]
            bad.append(b)
            b = json.loads(json.dumps(e))
            b["calls"][-1]["tp"] += 1
            bad.append(b)
            b = json.loads(json.dumps(e))
            b["out"] = [x + 5 for x in b["out"]]
            bad.append(b)
            break
    expect_all_rejected(ck, "TracePedErr", "Trace.cfg", bad, "trace-pederr-corrupt.json", "PedErr", grouped)



# =====================================================================================================
# (2) multiset algebra
# =====================================================================================================
BAG_MUTANTS = [("Mutant_bags_union.cfg", "IdempotentAbsorbing"), ("Mutant_bags_subtract.cfg", "TypeOK"),
               ("Mutant_bags_intercept.cfg", "Commutative")]


def bag_key(bd):
    k = {"site": bd["fn"]}
    if bd.get("feature"):
        k["feature"] = bd["feature"]
    return k


def part_bags(ck, grouped):
    tier = ck.tier
    r = run_tlc(ck, "MultisetAlgebra", "MC_bags_%s.cfg" % tier, "MultisetAlgebra", timeout=3400)
    if r.violated:
        ck.violation("model", {"invariant": r.violated, "text": r.error_text[:1500]}, key={"model": "MultisetAlgebra"})
        return
    kill_mutants(ck, "MultisetAlgebra", BAG_MUTANTS)
    pairs = [p for p in r.printed if "add" in p]
    triples = [p for p in r.printed if "add3" in p]
    if not pairs or not triples:
        ck.machinery_failure("MultisetAlgebra: TLC printed no states")
    ck.note("bags_pair_states", len(pairs))
    ck.note("bags_triple_states", len(triples))
    tasks = []
    for i in range(0, len(pairs), 500):
        tasks.append({"op": "pairs", "U": 3, "states": pairs[i:i + 500]})
    for i in range(0, len(triples), 4000):
        tasks.append({"op": "triples", "U": 3, "states": triples[i:i + 4000]})
    res = pool.map_tasks("impl.x03bags", tasks, mode="jit")
    info = {}
    for t, rr in zip(tasks, res):
        if not rr["ok"]:
            group(grouped, "impl-error", {"site": "mset (worker)", "kind": "exception"}, {"error": rr["error"], "tb": rr.get("tb", "")[-600:]})
            continue
        o = rr["result"]
        ck.traces += o["n"]
        ck.evaluations += o["checks"]
        ck.nontrivial += o["nontrivial"]
        for k, v in o["info"].items():
            info[k] = info.get(k, 0) + v
        for e in o["errors"]:
            group(grouped, "impl-exception", {"site": e["fn"], "error": e["error"].split(":")[0]}, e)
        for bd in o["bad"]:
            group(grouped, "mset-mismatch", bag_key(bd), bd)
    ck.note("bags_informational", info)
    ck.sample({"kind": "MultisetAlgebra state", "state": pairs[len(pairs) * 2 // 3]})

    # ---- code -> spec: recorded calls (random arrays; the real programs on the repository data) ----------------
    nrand = 1500 if tier == "quick" else 8000
    data = os.path.join(ck.wd, "data")
    if not os.path.isdir(data):
        data = repodata.copy_test_data(ck.wd, repodata.ASSEMBLE_FILES + repodata.CALL_FILES + ["simple.tau.132.txt"])
    bams = [os.path.join(data, "simple.sample%d.bam" % i) for i in (1, 2, 3)]
    mc = ["--mcmc-steps", "60", "--mcmc-burn", "20", "--mcmc-seed", str(ck.seed + 7)]
    progs = [
        {"op": "program", "prog": "assemble", "cap": 500, "argv": ["--bam"] + bams + [
            "--ploidy", "4", "--targets", os.path.join(data, "simple.bed.gz"), "--variants", os.path.join(data, "simple.vcf.gz"),
            "--reference", os.path.join(data, "simple.fasta")] + mc},
        {"op": "program", "prog": "call", "cap": 300, "argv": ["--bam"] + bams + [
            "--ploidy", "4", "--haplotypes", os.path.join(data, "simple.output.mixed_depth.assemble.vcf")] + mc},
    ]
    if tier == "thorough":
        progs.append({"op": "program", "prog": "assemble", "cap": 800, "argv": ["--bam"] + bams + [
            "--ploidy", "2", "--targets", os.path.join(data, "simple.bed.gz"), "--variants", os.path.join(data, "simple.vcf.gz"),
            "--reference", os.path.join(data, "simple.fasta"), "--sample-pool", os.path.join(data, "..", "pool.txt")] + mc})
        with open(os.path.join(ck.wd, "pool.txt"), "w") as fh:
            fh.write("SAMPLE1\tPOOL\nSAMPLE2\tPOOL\nSAMPLE3\tSAMPLE3\n")
    tasks = [{"op": "random", "n": nrand, "seed": ck.seed}] + progs
    res = pool.map_tasks("impl.x03bags", tasks, mode="jit", warm_first=False)
    events = []
    src = {}
    for t, rr in zip(tasks, res):
        if not rr["ok"]:
            group(grouped, "impl-error", {"site": "mset recorded calls", "source": t.get("prog", "random")},
                  {"error": rr["error"], "tb": rr.get("tb", "")[-600:]})
            continue
        evs = rr["result"] if t["op"] == "random" else rr["result"]["events"]
        name = t.get("prog", "random")
        for e in evs:
            e["src"] = name
        src[name] = src.get(name, 0) + len(evs)
        events.extend(evs)
    ck.note("bags_recorded_calls", src)
    ops = {}
    for e in events:
        ops[e["op"]] = ops.get(e["op"], 0) + 1
    ck.note("bags_recorded_ops", ops)
    rej = validate_trace(ck, "TraceBags", "TraceBags.cfg", events, "trace-bags.json", "TraceBags", grouped,
                   lambda e, cl: dict({"site": "mset." + (e.get("fn") or e["op"]), "source": e["src"]},
                                      **({"feature": "duplicate-categories:last-occurrence"} if "last-occurrence-returned" in cl else {})))
    ck.traces += len(events)
    ck.evaluations += len(events)
    # binding demonstration
    bad = []
    seen = set()
    for e in accepted(events, rej):
        if e["op"] in seen:
            continue
        b = json.loads(json.dumps(e))
        if e["op"] in ("add", "union") and e["res"]:
            b["res"] = b["res"][:-1]
        elif e["op"] in ("equal", "contains", "within"):
            b["resb"] = not b["resb"]
        elif e["op"] in ("count",) and e["resi"]:
            b["resi"][0] += 1
        elif e["op"] == "unique_idx" and len(e["resi"]) > 1:
            b["resi"][-1] = 1 - b["resi"][-1]
        elif e["op"] == "unique_counts" and e["resi"]:
            b["resi"][0] += 1
        else:
            continue
        seen.add(e["op"])
        bad.append(b)
    expect_all_rejected(ck, "TraceBags", "TraceBags.cfg", bad, "trace-bags-corrupt.json", "mset", grouped)



# =====================================================================================================
# (3) k-mer statistics
# =====================================================================================================
KMER_MUTANTS = [("Mutant_kmer_windows.cfg", "CountsSum"), ("Mutant_kmer_gapfree.cfg", "KmersWellFormed"),
                ("Mutant_kmer_position.cfg", "RepresentationLinksCoverage")]


def part_kmer(ck, grouped):
    tier = ck.tier
    cfgs = ["MC_kmer_quick.cfg"] if tier == "quick" else ["MC_kmer_thorough.cfg", "MC_kmer_thorough2.cfg"]
    states = []
    for cfg in cfgs:
        r = run_tlc(ck, "KmerStats", cfg, "KmerStats-" + cfg[8:-4], timeout=3400)
        if r.violated:
            ck.violation("model", {"invariant": r.violated, "text": r.error_text[:1500]}, key={"model": "KmerStats"})
            return
        states.extend(p for p in r.printed if "stats" in p)
    kill_mutants(ck, "KmerStats", KMER_MUTANTS)
    if not states:
        ck.machinery_failure("KmerStats: TLC printed no states")
    ck.note("kmer_model_states", len(states))
    CH = 300
    tasks = [{"op": "states", "states": states[i:i + CH], "seed": ck.seed + i} for i in range(0, len(states), CH)]
    res = pool.map_tasks("impl.x03kmer", tasks, mode="jit")
    info, feats = {}, {}
    for t, rr in zip(tasks, res):
        if not rr["ok"]:
            group(grouped, "impl-error", {"site": "kmer (worker)", "kind": "exception"}, {"error": rr["error"], "tb": rr.get("tb", "")[-600:]})
            continue
        o = rr["result"]
        ck.traces += o["n"]
        ck.evaluations += o["checks"]
        ck.nontrivial += o["nontrivial"]
        for k, v in o["info"].items():
            info[k] = info.get(k, 0) + v
        for k, v in o["features"].items():
            feats[k] = feats.get(k, 0) + v
        for e in o["errors"]:
            key = {"site": e["fn"], "error": e["error"].split(":")[0]}
            if e.get("feature"):
                key["feature"] = e["feature"]
            group(grouped, "impl-exception", key, e)
        for kk, v in o.get("error_counts", []):
            info["exceptions %s" % "/".join(str(x) for x in kk)] = info.get("exceptions %s" % "/".join(str(x) for x in kk), 0) + v
        for bd in o["bad"]:
            key = {"site": bd["fn"]}
            if bd.get("feature"):
                key["feature"] = bd["feature"]
            group(grouped, "kmer-mismatch", key, bd)
    ck.note("kmer_informational", info)
    ck.note("kmer_state_features", feats)
    st = states[len(states) * 3 // 4]
    ck.sample({"kind": "KmerStats state", "reads": st["reads"], "haps": st["haps"], "k=2": st["stats"][1]})

    # ---- code -> spec -----------------------------------------------------------------------------------------
    data = os.path.join(ck.wd, "data")
    if not os.path.isdir(data):
        data = repodata.copy_test_data(ck.wd, repodata.ASSEMBLE_FILES + repodata.CALL_FILES + ["simple.tau.132.txt"])
    mc = ["--mcmc-steps", "60", "--mcmc-burn", "20", "--mcmc-seed", str(ck.seed + 3)]
    progs = []
    for deep in (["", "", ""], [".deep", ".deep", ".deep"]) if tier == "thorough" else ([".deep", "", ""],):
        bams = [os.path.join(data, "simple.sample%d%s.bam" % (i, d)) for i, d in zip((1, 2, 3), deep)]
        progs.append({"op": "program", "prog": "assemble", "seed": ck.seed, "argv": ["--bam"] + bams + [
            "--ploidy", "4", "--targets", os.path.join(data, "simple.bed.gz"), "--variants", os.path.join(data, "simple.vcf.gz"),
            "--reference", os.path.join(data, "simple.fasta")] + mc})
        progs.append({"op": "program", "prog": "call", "seed": ck.seed + 1, "argv": ["--bam"] + bams + [
            "--ploidy", "4", "--haplotypes", os.path.join(data, "simple.output.mixed_depth.assemble.vcf")] + mc})
        progs.append({"op": "program", "prog": "call-exact", "seed": ck.seed + 2, "argv": ["--bam"] + bams + [
            "--ploidy", "2", "--haplotypes", os.path.join(data, "mock.input.frequencies.vcf")]})
    nrand = 400 if tier == "quick" else 2500
    tasks = [{"op": "random", "n": nrand, "seed": ck.seed}] + progs
    res = pool.map_tasks("impl.x03kmer", tasks, mode="jit", warm_first=False)
    events, src = [], {}
    for t, rr in zip(tasks, res):
        if not rr["ok"]:
            group(grouped, "impl-error", {"site": "kmer recorded calls", "source": t.get("prog", "random")},
                  {"error": rr["error"], "tb": rr.get("tb", "")[-600:]})
            continue
        evs = rr["result"] if t["op"] == "random" else rr["result"]["events"]
        name = t.get("prog", "random")
        src[name] = src.get(name, 0) + len(evs)
        events.extend(evs)
    ck.note("kmer_recorded_events", src)
    rej = validate_trace(ck, "TraceKmer", "TraceKmer.cfg", events, "trace-kmer.json", "TraceKmer", grouped,
                   lambda e, cl: ({"site": "kmer_frequency", "error": e["freq_error"].split(":")[0]}
                                  if cl == "KmerFrequencyRaised" else {"site": "kmer/stats", "source": e["src"]}))
    ck.traces += len(events)
    ck.evaluations += len(events)
    bad = []
    for e in accepted(events, rej):
        if e["op"] == "kmer" and e["counts"] and len(bad) == 0:
            b = json.loads(json.dumps(e))
            b["counts"][0][1] += 1
            bad.append(b)
        elif e["op"] == "kmer" and e["mincov"] > 0 and len(bad) == 1:
            b = json.loads(json.dumps(e))
            b["mincov"] -= 7
            bad.append(b)
        elif e["op"] == "kmer" and e["rep"] and any(0 < x < 1000000 for x in e["rep"]) and len(bad) == 2:
            b = json.loads(json.dumps(e))
            j = [i for i, x in enumerate(e["rep"]) if 0 < x < 1000000][0]
            b["rep"][j] += 9
            bad.append(b)
        elif e["op"] == "mec" and len(bad) == 3:
            b = json.loads(json.dumps(e))
            b["mec"][0] += 1
            bad.append(b)
        elif e["op"] == "kmer" and e["cov"] and len(bad) == 4:
            b = json.loads(json.dumps(e))
            b["cov"][0][1] += 1
            bad.append(b)
    expect_all_rejected(ck, "TraceKmer", "TraceKmer.cfg", bad, "trace-kmer-corrupt.json", "kmer", grouped)


# =====================================================================================================
def main():
    ck = Check("X03")
    parts = [p for p in os.environ.get("X03_PARTS", "ped,bags,kmer").split(",") if p]
    ck.note("parts", parts)
    ck.rule = (
        "(1) TLC visits every state of PedErr.tla (pedigree x chain layout x trace: all joint genotype states as one-step "
        "traces, traces up to chains x steps over representatives of every error-flag pattern) and checks the invariants; "
        "every state is replayed into the compiled PedigreeAllelesMultiTrace / _trace_incongruence; PEDERR printed by real "
        "call-pedigree runs is recomputed from the captured trace by TracePedErr.tla. "
        "(2) every pair / triple of row sequences of MultisetAlgebra.tla into mchap/mset.py. "
        "(3) every (reads, haplotypes, k) state of KmerStats.tla into kmer.py / stats.py. "
        "Non-trivial = PEDERR strictly between 0 and 1; bag pairs with a non-empty, non-equal overlap; read sets with "
        "both covered and uncovered k-mers."
    )
    grouped = {}
    if "ped" in parts:
        part_pederr(ck, grouped)
        flush(ck, grouped)
    if "bags" in parts:
        part_bags(ck, grouped)
        flush(ck, grouped)
    if "kmer" in parts:
        part_kmer(ck, grouped)
        flush(ck, grouped)
    ck.exhaustive = True
    ck.assumptions = [
        "TLC and CommunityModules Json are correct",
        "exhaustive within the pedigrees / layouts / array lengths / alphabets of spec/PedErrAndBags/MC_*_%s.cfg" % ck.tier,
        "Mendelian validity is claimed for excess-IBD rates in [0, 1) as in C17 (a rate of exactly 1 is not generated)",
    ]
    ck.finish()


if __name__ == "__main__":
    main()
