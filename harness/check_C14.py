"""C14: posterior summaries are exact functionals of the retained trace.

spec  : spec/TraceSummary/{TraceSummary,TraceTraceSummary,TraceWideSummary}.tla
bind  : spec -> code: every "done" state of TraceSummary (complete stored trace x burn-in x relabelling,
        with the model's summary) -> GenotypeMultiTrace / GenotypeAllelesMultiTrace /
        PedigreeAllelesMultiTrace objects, every summary method and mset.unique_counts/count/categorize,
        compiled and interpreted;
        code -> spec: real assemble / call / call-pedigree runs (in-process, repo test data) with the
        trace returned by fit() captured; the fields printed in the VCF record (GT GPM SPM AFP ACP AOP GP MCI)
        are validated against the captured trace by TraceTraceSummary.tla.
        Three and four chains (some qualifying, some not; nested and foreign supports): MC_chains*.cfg
        (TraceSummary!BelowThresholdChainsIgnored), replayed like every other state.
        Loci with 40-600 haplotypes, traces in the dtypes the programs hold (int8 / int16 / int32), retained
        genotypes whose VCF indices exceed / collide modulo the dtype's range: impl/c14_wide.py records the
        summaries of the real classes, TraceWideSummary.tla recomputes every one of them from the trace.
"""
import json
import os
import sys
import time

sys.path.insert(0, os.path.dirname(os.path.abspath(__file__)))
from vlib import env, tlc, pool, repodata
from vlib.report import Check

SPEC = os.path.join(env.SPEC, "TraceSummary")


def state_key(s):
    return json.dumps([s["kind"], s["ps"], s["k"], s["c"], s["s"], s["b"], s["lab"], s["tr"]])


def violation_key(bd):
    k = {"site": bd["site"]}
    if bd.get("feature"):
        k["feature"] = bd["feature"]
    return k


def group(grouped, kind, key, detail):
    k = (kind, json.dumps(key, sort_keys=True))
    g = grouped.setdefault(k, {"key": key, "n": 0, "examples": []})
    g["n"] += 1
    if len(g["examples"]) < 3:
        g["examples"].append(detail)


def replay(ck, states, grouped, feats, behaviours, tier, py_every=None, wide_every=7, more=()):
    """spec -> code: every done state into the real classes, compiled; interpreted (NUMBA_DISABLE_JIT) as well for
    every second state (quick) / every third state (thorough).  `more`: further (states, py_every, wide_every) groups
    replayed by the same worker pools (one pool start per mode)"""
    chunk = 250
    groups = [(states, py_every or (2 if tier == "quick" else 3), wide_every)] + list(more)
    for mode in ("jit", "py"):
        chunks, tasks = [], []
        for sts, pe, we in groups:
            sel = sts if mode == "jit" else sts[::pe]
            for i in range(0, len(sel), chunk):
                chunks.append(sel[i: i + chunk])
                tasks.append({"op": "states", "states": chunks[-1], "mode": mode, "wide_every": we if mode == "jit" else 0})
        res = pool.map_tasks("impl.c14", tasks, mode=mode)
        for c, rr in zip(chunks, res):
            if not rr["ok"]:
                ck.violation("impl-error", {"mode": mode, "error": rr["error"], "tb": rr.get("tb", "")[-800:]},
                             key={"site": "worker", "mode": mode})
                continue
            o = rr["result"]
            ck.evaluations += o["n"]
            ck.bump("method_comparisons", o["checks"])
            if mode == "jit":
                ck.nontrivial += o["nontrivial"]
                for f, n in o["features"].items():
                    feats[f] = feats.get(f, 0) + n
            for e in o["errors"]:
                group(grouped, "impl-exception", {"site": "exception", "error": e["error"][:60]}, {"mode": mode, **e})
            for bd in o["bad"]:
                group(grouped, "summary-mismatch", violation_key(bd), {"mode": mode, **bd})
            if o.get("bad_overflow"):
                ck.bump("mismatches_not_listed", o["bad_overflow"])
    for sts, _, _ in groups:
        for s in sts:
            behaviours.add((s["kind"], tuple(s["ps"]), s["k"], s["c"], s["s"]))


def replay_file(ck, path):
    """./check C14 --replay work/C14/violation-N.json : re-run exactly the recorded cases"""
    env.EVIDENCE = ck.wd          # a replay must not overwrite the evidence of the last full run
    with open(path) as fh:
        rec = json.load(fh)
    ex = rec["detail"].get("examples", [])
    states = [e["state"] for e in ex if isinstance(e.get("state"), dict) and "sm" in e["state"]]
    events = [e["event"] for e in ex if "event" in e]
    if "event" in rec["detail"]:
        events.append(rec["detail"]["event"])
    wide = [e for e in events if str(e.get("program", "")).startswith("wide:")]
    events = [e for e in events if e not in wide]
    grouped = {}
    if states:
        replay(ck, states, grouped, {}, set(), "quick")
    for (kind, _), g in sorted(grouped.items()):
        ck.violation(kind, {"n_cases": g["n"], "examples": g["examples"]}, key=g["key"])
    if events:
        validate_events(ck, events, "replay-trace.json")
    if wide:
        # the recorded wide traces are run through the real classes again (same dtype / class), then validated
        res = pool.map_tasks("impl.c14_wide", [{"op": "rerun", "events": wide}], mode="jit")
        if not res[0]["ok"]:
            ck.violation("impl-error", {"error": res[0]["error"], "tb": res[0].get("tb", "")[-1500:]}, key={"site": "wide-trace"})
        else:
            validate_wide(ck, res[0]["result"], "replay-trace-wide.json")
    ck.note("replayed_cases", len(states) + len(events) + len(wide))
    ck.sample({"kind": "replayed", "file": path})
    ck.finish()


def main():
    ck = Check("C14")
    tier = ck.tier
    ck.rule = (
        "TLC enumerates every stored trace of each (kind, ploidies, alleles, chains, steps) instance "
        "(haplotype traces: every within-genotype storage order), every burn-in 0..S-1 and every increasing "
        "relabelling, computes the summary from the empirical distribution over bags and checks the invariants; "
        "every such state is replayed into the real classes. Three / four chains: steps drawn from menus of genotypes with "
        "nested and foreign supports. Wide loci (40-600 haplotypes, int8/int16/int32 traces): recorded summaries "
        "recomputed by TLC from the recorded trace. Non-trivial = the retained trace holds more than one "
        "distinct genotype (other features are counted separately in `state_features`)."
    )
    if os.environ.get("VERIF_REPLAY"):
        return replay_file(ck, os.environ["VERIF_REPLAY"])
    for fn in os.listdir(ck.wd):        # violation files of earlier runs would be misleading
        if fn.startswith("violation-") and fn.endswith(".json"):
            os.remove(os.path.join(ck.wd, fn))
    phase = {}
    t0 = time.time()
    # the chain grid is model-checked in the background while the mutants and the main grid run (quick tier)
    chains_box = {}
    if tier == "quick":
        import threading

        def chains_tlc():
            t1 = time.time()
            try:
                chains_box["r"] = tlc.run(SPEC, "TraceSummary", "MC_chains.cfg", timeout=2400, workers=max(2, env.NCPU // 2))
            except Exception as e:
                chains_box["exc"] = e
            chains_box["wall"] = round(time.time() - t1, 1)

        chains_box["thread"] = threading.Thread(target=chains_tlc)
        chains_box["thread"].start()
    # ---- 1. mutant specifications (binding demonstration) --------------------------------
    try:
        killed = 0
        for cfg, want in (("Mutant_burn.cfg", "BurnExact"), ("Mutant_canon.cfg", "ShuffleKeepsSummary"),
                          ("Mutant_support.cfg", "SupportGrouping"), ("Mutant_occ.cfg", "OccBounds"),
                          ("Mutant_inc.cfg", "SameSupportNoIncongruence"),
                          ("Mutant_theta.cfg", "BelowThresholdChainsIgnored")):
            m = tlc.run(SPEC, "TraceSummary", cfg)
            if not m.violated or want not in m.violated:
                ck.machinery_failure("mutant spec %s not killed (violated=%s)" % (cfg, m.violated))
            killed += 1
        ck.note("mutant_specs_killed", killed)
    except tlc.TLCError as e:
        ck.machinery_failure(str(e))

    phase["mutant_specs"] = round(time.time() - t0, 1)
    # ---- 2. model checking + spec -> code, one part of the grid after the other -----------
    # MC_chains*: three and four chains over menus of genotypes with nested and foreign supports
    parts = ["MC_quick.cfg"] if tier == "quick" else [
        "MC_thorough.cfg", "MC_thorough_b.cfg", "MC_thorough_c.cfg", "MC_thorough_d.cfg", "MC_chains_thorough.cfg"]
    grouped, feats, behaviours = {}, {}, set()
    n_states = 0

    def states_of(r, cfg):
        ck.add_tlc(r, "TraceSummary:" + cfg)
        if r.violated:
            ck.violation("model", {"cfg": cfg, "invariant": r.violated, "text": r.error_text[:1500]},
                         key={"model": "TraceSummary"})
        seen = set()
        states = []
        for s in r.printed:
            k = state_key(s)
            if k not in seen:
                seen.add(k)
                states.append(s)
        if not states:
            ck.machinery_failure("TLC printed no states for %s" % cfg)
        return states

    for cfg in parts:
        t1 = time.time()
        try:
            r = tlc.run(SPEC, "TraceSummary", cfg, timeout=2400)
        except tlc.TLCError as e:
            ck.machinery_failure(str(e))
        phase["tlc:" + cfg] = round(time.time() - t1, 1)
        t1 = time.time()
        states = states_of(r, cfg)
        del r
        n_states += len(states)
        if cfg.startswith("MC_chains"):
            replay(ck, states, grouped, feats, behaviours, tier, py_every=5, wide_every=31)
        elif tier == "quick":
            chains_box["thread"].join()
            if "exc" in chains_box:
                ck.machinery_failure(str(chains_box["exc"]))
            phase["tlc:MC_chains.cfg(background)"] = chains_box["wall"]
            cstates = states_of(chains_box.pop("r"), "MC_chains.cfg")
            n_states += len(cstates)
            t1 = time.time()
            replay(ck, states, grouped, feats, behaviours, tier, more=[(cstates, 5, 31)])
            ck.sample({"kind": "model-state", "state": cstates[len(cstates) // 3]})
            del cstates
        else:
            replay(ck, states, grouped, feats, behaviours, tier)
        phase["replay:" + cfg] = round(time.time() - t1, 1)
        ck.sample({"kind": "model-state", "state": states[len(states) // 3]})
        del states
    ck.note("done_states_replayed", n_states)
    # one violation per distinct key (call site + feature), with the number of cases and three examples
    for (kind, _), g in sorted(grouped.items()):
        ck.violation(kind, {"n_cases": g["n"], "examples": g["examples"]}, key=g["key"])
    ck.traces += n_states  # one replayed behaviour (Record^(C*S); Burn) per done state
    ck.note("instances", len(behaviours))
    ck.note("state_features", feats)

    # ---- 3. code -> spec: real program runs validated by TraceTraceSummary ---------------
    t1 = time.time()
    wide = wide_start(ck)          # generated while the program runs are under way
    trace_part(ck)
    phase["program_traces"] = round(time.time() - t1, 1)
    # ---- 4. code -> spec: loci with 40-600 haplotypes in the programs' trace dtypes (TraceWideSummary) ----
    t1 = time.time()
    wide_part(ck, wide)
    phase["wide_traces"] = round(time.time() - t1, 1)
    ck.note("phase_wall_s", phase)

    ck.exhaustive = True
    ck.assumptions = [
        "TLC and CommunityModules Json are correct",
        "exhaustive within the listed instances (chains <= 3, steps <= 5, ploidy <= 6, alleles <= 4; three and four chains "
        "over menus of four / three stored genotypes with nested and foreign supports); larger traces are covered by the "
        "recorded program runs and by the recorded wide traces (40-600 haplotypes, int8 / int16 / int32, seeded), every "
        "summary of which is recomputed by TLC (TraceWideSummary)",
        "allele-trace incongruence: supports-reading and modal-genotype-reading are both admitted (documentation is silent)",
        "thresholds that coincide with a non-dyadic chain mass are not replayed (float boundary, DESIGN 2.4)",
    ]
    ck.finish()


def validate_events(ck, events, fname):
    """code -> spec: TLC (TraceTraceSummary) gives every recorded line a verdict"""
    tf = os.path.join(ck.wd, fname)
    with open(tf, "w") as fh:
        json.dump(events, fh)
    try:
        t = tlc.run(SPEC, "TraceTraceSummary", "Trace.cfg", workers=1, extra_env={"TRACE_FILE": tf}, timeout=1500)
    except tlc.TLCError as e:
        ck.machinery_failure(str(e))
    ck.add_tlc(t, "TraceTraceSummary")
    consumed = [p for p in t.printed if "consumed" in p]
    if not consumed or consumed[0]["consumed"] != len(events):
        ck.machinery_failure("trace not fully consumed: %s of %d" % (consumed, len(events)))
    for p in t.printed:
        if "reject" in p:
            e = events[p["reject"] - 1]
            ck.violation("trace-reject", {"line": p["reject"], "clause": p["clause"], "event": e},
                         key={"site": e["program"], "clause": p["clause"]})


def wide_start(ck):
    """allele traces in the dtypes the programs hold them in (int16 call-pedigree, int32 call, int8) over loci with
    40-600 haplotypes: retained genotypes whose VCF indices exceed / collide modulo the range of that dtype"""
    import threading

    ntask, per = (8, 6) if ck.tier == "quick" else (40, 10)
    tasks = [{"op": "wide", "seed": ck.seed * 1000 + 7000 + i, "index": i, "n": per,
              "dtypes": ["int16", "int32", "int8", "int16"]} for i in range(ntask)]
    box = {"tasks": tasks}

    def work():
        try:
            box["res"] = pool.map_tasks("impl.c14_wide", tasks, mode="jit", nproc=min(env.NCPU, 8))
        except Exception as e:      # reported by the main thread
            box["exc"] = e

    th = threading.Thread(target=work)
    th.start()
    box["thread"] = th
    return box


def wide_part(ck, box):
    box["thread"].join()
    if "exc" in box:
        ck.machinery_failure("wide traces: %s" % box["exc"])
    events = []
    for t, rr in zip(box["tasks"], box["res"]):
        if not rr["ok"]:
            # an exception / crash of the summary methods on a valid trace is a verdict about the tree under test
            ck.violation("impl-error", {"task": t, "error": rr["error"], "tb": rr.get("tb", "")[-1500:]},
                         key={"site": "wide-trace"})
            continue
        events.extend(rr["result"])
    if not events:
        if ck.violations:
            return
        ck.machinery_failure("no wide trace events recorded")
    rejected = validate_wide(ck, events, "trace-wide.json")
    ck.traces += len(events)
    ck.evaluations += len(events)
    ck.nontrivial += sum(1 for e in events if e["distinct"] > 1)
    wide_rest(ck, events, rejected)


def validate_wide(ck, events, fname):
    """code -> spec: TLC (TraceWideSummary) recomputes every recorded summary from the recorded trace"""
    tf = os.path.join(ck.wd, fname)
    with open(tf, "w") as fh:
        json.dump(events, fh)
    try:
        t = tlc.run(SPEC, "TraceWideSummary", "TraceWide.cfg", workers=1, extra_env={"TRACE_FILE": tf}, timeout=1500)
    except tlc.TLCError as e:
        ck.machinery_failure(str(e))
    ck.add_tlc(t, "TraceWideSummary")
    consumed = [p for p in t.printed if "consumed" in p]
    if not consumed or consumed[0]["consumed"] != len(events):
        ck.machinery_failure("wide trace not fully consumed: %s of %d" % (consumed, len(events)))
    rejected = {}
    lines = set()
    for p in t.printed:
        if "reject" in p:
            e = events[p["reject"] - 1]
            lines.add(p["reject"] - 1)
            g = rejected.setdefault((e["program"], p["clause"]), {"n": 0, "examples": []})
            g["n"] += 1
            if len(g["examples"]) < 2:
                g["examples"].append({"line": p["reject"], "clause": p["clause"], "event": e})
    for (site, clause), g in sorted(rejected.items()):      # one violation per (dtype / class, clause)
        ck.violation("trace-reject", {"n_cases": g["n"], "clause": clause, "examples": g["examples"]},
                     key={"site": site, "clause": clause})
    return lines


def wide_rest(ck, events, rejected=()):
    stat = {}
    for e in events:
        d = stat.setdefault(e["program"], {"events": 0, "with_colliding_indices": 0, "index_beyond_dtype": 0, "g_array": 0,
                                           "chains>=3": 0, "max_alleles": 0})
        d["events"] += 1
        d["with_colliding_indices"] += 1 if e["colliding"] else 0
        d["index_beyond_dtype"] += 1 if e["beyond"] else 0
        d["g_array"] += e["rank"]
        d["chains>=3"] += 1 if e["c"] >= 3 else 0
        d["max_alleles"] = max(d["max_alleles"], e["k"])
    ck.note("wide_trace_events", stat)
    for prog in ("wide:int16:pedigree", "wide:int32:calling", "wide:int8:calling"):
        if stat.get(prog, {}).get("with_colliding_indices", 0) == 0 and not ck.violations:
            ck.machinery_failure("wide traces: regime not reached for %s: %s" % (prog, stat.get(prog)))
    ck.sample({"kind": "recorded-wide-event", "event": {k: v for k, v in events[0].items() if k != "tr"}})
    # binding demonstration: two retained genotypes merged into one / a probability placed 2^16 cells away
    bad, want = [], []
    for i, e in enumerate(events):
        if i in rejected:           # the demonstration starts from lines the specification accepted
            continue
        if not bad and len(e["out"]["post"]) > 2:
            x = json.loads(json.dumps(e))
            a = x["out"]["post"].pop()
            x["out"]["post"][-1][1] += a[1]
            bad.append(x)
            want.append("WidePostIsEmpirical")
        if len(bad) == 1 and e["rank"] == 1 and e["out"]["arrLen"] > 70000:
            x = json.loads(json.dumps(e))
            cell = x["out"]["arr"][-1]
            cell[0] = cell[0] - 65536 if cell[0] >= 65536 else cell[0] + 65536
            bad.append(x)
            want.append("WideGpIsArray")
            break
    tfb = os.path.join(ck.wd, "trace-wide-corrupt.json")
    with open(tfb, "w") as fh:
        json.dump(bad, fh)
    t = tlc.run(SPEC, "TraceWideSummary", "TraceWide.cfg", workers=1, extra_env={"TRACE_FILE": tfb})
    rej = [p for p in t.printed if "reject" in p]
    if len(bad) < 2 or [p["clause"] for p in sorted(rej, key=lambda p: p["reject"])] != want:
        ck.machinery_failure("corrupted wide trace lines not rejected as expected: %s, wanted %s" % (rej, want))
    ck.note("corrupted_wide_traces_rejected", len(rej))


def trace_part(ck):
    tier = ck.tier
    nrun = 12 if tier == "quick" else 90
    data_dir = repodata.copy_test_data(ck.wd, repodata.ASSEMBLE_FILES + repodata.CALL_FILES)
    tasks = [{"op": "programs", "seed": ck.seed * 1000 + i, "index": i, "data_dir": data_dir} for i in range(nrun)]
    # plus sampler classes driven through the API from unsorted initial vectors (order invariance of allele traces)
    napi = 6 if tier == "quick" else 40
    tasks += [{"op": "programs", "api": True, "seed": ck.seed * 1000 + 500 + i, "index": i, "n": 6 if tier == "quick" else 8}
              for i in range(napi)]
    # few processes: every worker pays the import of the whole application once
    res = pool.map_tasks("impl.c14", tasks, mode="jit", nproc=min(env.NCPU, 6 if tier == "quick" else 12))
    events = []
    for t, rr in zip(tasks, res):
        if not rr["ok"]:
            ck.violation("impl-error", {"task": t, "error": rr["error"], "tb": rr.get("tb", "")[-1500:]},
                         key={"site": "program-run"})
            continue
        events.extend(rr["result"])
    if not events:
        ck.machinery_failure("no program events recorded")
    validate_events(ck, events, "trace.json")
    ck.traces += len(events)
    ck.evaluations += len(events)
    ck.nontrivial += sum(1 for e in events if e["distinct"] > 1)
    progs = {}
    for e in events:
        progs[e["program"]] = progs.get(e["program"], 0) + 1
    ck.note("recorded_events_by_program", progs)
    ck.sample({"kind": "recorded-program-event", "event": events[0]})
    # binding demonstration: corrupted recorded fields must be rejected
    bad = []
    want_clauses = []
    for e in events:
        if e["program"] == "call" and e["distinct"] > 1 and len(bad) < 1:
            x = json.loads(json.dumps(e))
            x["out"]["gpm"] = x["out"]["gpm"] + 7
            bad.append(x)
            want_clauses.append("GtGpmSpmIsACall")
        if e["program"] == "assemble" and len(bad) == 1:
            x = json.loads(json.dumps(e))
            i = max(range(len(x["out"]["acp"])), key=lambda j: x["out"]["acp"][j])
            x["out"]["acp"][i] = x["out"]["acp"][i] - 40
            bad.append(x)
            want_clauses.append("AcpIsCount")
        if len(bad) == 2 and e["c"] == 1 and e["out"]["mci"] == 0:     # one chain: the model admits 0 only
            x = json.loads(json.dumps(e))
            x["out"]["mci"] = 1                      # a single chain reported as incongruent
            bad.append(x)
            want_clauses.append("MciIsIncongruence")
            break
    tfb = os.path.join(ck.wd, "trace-corrupt.json")
    with open(tfb, "w") as fh:
        json.dump(bad, fh)
    t = tlc.run(SPEC, "TraceTraceSummary", "Trace.cfg", workers=1, extra_env={"TRACE_FILE": tfb})
    rej = [p for p in t.printed if "reject" in p]
    if len(bad) < 3 or sorted(p["clause"] for p in rej) != sorted(want_clauses):
        ck.machinery_failure("corrupted trace lines not rejected as expected: %s, wanted %s" % (rej, want_clauses))
    ck.note("corrupted_traces_rejected", len(rej))


if __name__ == "__main__":
    main()
