"""Run TLC / SANY and parse what they print."""
import json
import os
import re
import shutil
import subprocess
import time

from . import env

JAR = "/opt/veriftools/tla/tla2tools.jar"
DEPS = "/opt/veriftools/tla/CommunityModules-deps.jar"
TAG = '<<"@@J", "'


class TLCError(Exception):
    """Machinery failure (parse error, timeout, crash) - not a property verdict."""


class TLCResult:
    def __init__(self):
        self.rc = None
        self.stdout = ""
        self.generated = 0
        self.distinct = 0
        self.depth = 0
        self.printed = []  # parsed JSON values from PrintT(<<"@@J", ToJson(..)>>)
        self.violated = None  # name of violated invariant / property / assumption
        self.error_text = ""
        self.coverage = {}  # action name -> (distinct, total)
        self.wall = 0.0
        self.trace = []  # counterexample states (raw text blocks)
        self.postcondition_failed = False

    @property
    def ok(self):
        return self.violated is None and self.rc == 0


def _java_cmd(libs):
    lib = os.pathsep.join(libs)
    return [
        "java",
        "-XX:+UseParallelGC",
        "-Xss32m",
        "-Xmx%s" % os.environ.get("VERIF_TLC_HEAP", "12g"),
        "-DTLA-Library=" + lib,
        "-cp",
        JAR + os.pathsep + DEPS,
    ]


def spec_libs(*dirs):
    libs = [os.path.join(env.SPEC, "common")]
    libs.extend(dirs)
    return libs


def sany(path, libs=None):
    libs = libs or spec_libs(os.path.dirname(path))
    cmd = _java_cmd(libs) + ["tla2sany.SANY", path]
    p = subprocess.run(cmd, capture_output=True, text=True, cwd=os.path.dirname(path))
    out = p.stdout + p.stderr
    ok = p.returncode == 0 and "error" not in out.lower().replace("errors: 0", "")
    return ok, out


def parse_printed(line):
    """<<"@@J", "<json with TLA escapes>">> -> python value"""
    if not line.startswith(TAG):
        return None
    body = line[len(TAG) - 1 :].rstrip()
    if body.endswith(">>"):
        body = body[:-2]
    try:
        return json.loads(json.loads(body))
    except Exception as e:  # pragma: no cover
        raise TLCError("cannot parse TLC PrintT line: %r (%s)" % (line[:200], e))


_RE_STATES = re.compile(
    r"(\d+) states generated, (\d+) distinct states found, (\d+) states left on queue"
)
_RE_DEPTH = re.compile(r"The depth of the complete state graph search is (\d+)")
_RE_INV = re.compile(r"Error: Invariant (\S+) is violated")
_RE_PROP = re.compile(r"Error: (?:Action|Temporal) propert(?:y|ies) (\S+)?")
_RE_COV = re.compile(r"^<(\w+) line (\d+), col \d+ to line \d+, col \d+ of module (\w+)>: (\d+):(\d+)")


def run(
    module_dir,
    module,
    cfg,
    *,
    workers=None,
    timeout=900,
    extra_env=None,
    simulate=None,
    depth=None,
    seed=None,
    coverage=False,
    deadlock=None,
    libs=None,
    name=None,
    keep_stdout=True,
    extra_args=(),
    dfs=False,
):
    """Run TLC on module_dir/module.tla with module_dir/cfg.

    simulate: e.g. "num=1000" or "file=/path/prefix,num=100".
    Returns TLCResult; raises TLCError on machinery failure (timeout, parse error).
    """
    workers = workers or env.NCPU
    name = name or (module + "-" + os.path.splitext(os.path.basename(cfg))[0])
    meta = os.path.join(env.workdir("tlc-meta"), name + "-%d" % os.getpid())
    shutil.rmtree(meta, ignore_errors=True)
    os.makedirs(meta, exist_ok=True)
    libs = libs or spec_libs(module_dir)
    cmd = _java_cmd(libs)
    if dfs:
        cmd.insert(1, "-Dtlc2.tool.queue.IStateQueue=StateDeque")
    cmd += [
        "tlc2.TLC",
        "-workers",
        str(workers),
        "-metadir",
        meta,
        "-noGenerateSpecTE",
        "-config",
        os.path.join(module_dir, cfg),
    ]
    if simulate:
        cmd += ["-simulate", simulate]
    if depth is not None:
        cmd += ["-depth", str(depth)]
    if seed is not None:
        cmd += ["-seed", str(seed)]
    if coverage:
        cmd += ["-coverage", "1"]
    if deadlock is False:
        cmd += ["-deadlock"]
    cmd += list(extra_args)
    cmd += [os.path.join(module_dir, module + ".tla")]
    e = dict(os.environ)
    e.pop("JAVA_TOOL_OPTIONS", None)
    if extra_env:
        e.update({k: str(v) for k, v in extra_env.items()})
    t0 = time.time()
    try:
        p = subprocess.run(
            cmd, capture_output=True, text=True, cwd=module_dir, env=e, timeout=timeout
        )
    except subprocess.TimeoutExpired:
        subprocess.run(["pkill", "-f", meta], check=False)
        shutil.rmtree(meta, ignore_errors=True)
        raise TLCError("TLC timeout after %ss: %s %s" % (timeout, module, cfg))
    finally:
        pass
    shutil.rmtree(meta, ignore_errors=True)
    r = TLCResult()
    r.wall = time.time() - t0
    r.rc = p.returncode
    out = p.stdout
    if keep_stdout:
        r.stdout = out
    err_lines = []
    in_err = False
    for line in out.splitlines():
        if line.startswith(TAG):
            r.printed.append(parse_printed(line))
            continue
        m = _RE_STATES.search(line)
        if m:
            r.generated, r.distinct = int(m.group(1)), int(m.group(2))
            continue
        m = _RE_DEPTH.search(line)
        if m:
            r.depth = int(m.group(1))
            continue
        m = _RE_INV.search(line)
        if m:
            r.violated = m.group(1)
        elif line.startswith("Error: Action property") or line.startswith(
            "Error: Temporal properties were violated"
        ):
            r.violated = r.violated or line.strip()
        elif "Assumption" in line and "is false" in line:
            r.violated = r.violated or line.strip()
        elif "Deadlock reached" in line:
            r.violated = r.violated or "Deadlock"
        elif "The postcondition" in line or "Postcondition" in line and "violated" in line:
            r.postcondition_failed = True
        if line.startswith("Error:"):
            in_err = True
        if in_err and len(err_lines) < 80:
            err_lines.append(line)
        if coverage:
            m = _RE_COV.match(line)
            if m:
                r.coverage[m.group(1)] = (int(m.group(5)), int(m.group(4)))
    r.error_text = "\n".join(err_lines)
    if simulate:
        m = re.search(r"(\d+) states checked", out)
        if m:
            r.generated = int(m.group(1))
    if r.rc != 0 and r.violated is None and not r.postcondition_failed:
        # 12 = safety violation, 13 liveness, 10 = assumption failure ... anything
        # else without a recognised verdict is a machinery failure
        raise TLCError(
            "TLC failed rc=%s for %s/%s:\n%s" % (r.rc, module, cfg, (out + p.stderr)[-4000:])
        )
    return r


def parse_sim_traces(prefix_dir, prefix):
    """Parse the files written by -simulate file=<prefix>: returns list of behaviours,
    each a list of (action_name, {var: raw TLA text}) entries."""
    res = []
    for fn in sorted(os.listdir(prefix_dir)):
        if not fn.startswith(prefix):
            continue
        beh = []
        cur_action = None
        with open(os.path.join(prefix_dir, fn)) as fh:
            txt = fh.read()
        # blocks:  \* <Action line..>\nSTATE_n ==\n/\ x = ...\n\n
        for blk in re.split(r"\n\s*\n", txt):
            blk = blk.strip()
            if not blk or blk.startswith("----") or blk.startswith("===="):
                continue
            m = re.search(r"\\\* <?(\w+)", blk)
            act = m.group(1) if m else None
            m2 = re.search(r"STATE_(\d+) ==\s*(.*)", blk, re.S)
            if not m2:
                continue
            body = m2.group(2)
            vars_ = {}
            for part in re.split(r"\n?/\\ ", body):
                part = part.strip()
                if not part:
                    continue
                k, _, v = part.partition(" = ")
                vars_[k.strip()] = v.strip()
            beh.append((act, vars_))
        res.append(beh)
    return res
