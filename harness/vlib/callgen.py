"""Materialise abstract call / call-exact instances as real input files (FASTA, haplotype VCF, BAMs).

A *locus* is a haplotype menu (matrix H of SNV alleles, K haplotypes x N SNVs) plus integer prior
weights; a *sample* is (name, ploidy, inbreeding); a *cell* (locus, sample) holds a bag of reads given
as cell vectors (-1 gap, a >= 0 call of SNV allele a) with counts.

Encoding: every locus is LOCUS_LEN reference bases 'A'; SNV j sits at offset SNV_OFFSETS[j]; SNV
allele a is the base "ACGT"[a].  A read is one full-length alignment (CIGAR <LOCUS_LEN>M) whose base at
a SNV is the called allele or 'N' for a gap (MCHap encodes an unlisted base as missing).
"""
import os

import pysam

LOCUS_LEN = 12
SNV_OFFSETS = (2, 5, 9, 11)
BASES = "ACGT"
SPACING = 40
FIRST = 20
CONTIG = "CHR1"


def hap_seq(row):
    s = ["A"] * LOCUS_LEN
    for j, a in enumerate(row):
        s[SNV_OFFSETS[j]] = BASES[a]
    return "".join(s)


def read_seq(cells):
    s = ["A"] * LOCUS_LEN
    for j, c in enumerate(cells):
        s[SNV_OFFSETS[j]] = "N" if c < 0 else BASES[c]
    return "".join(s)


def md_tag(seq):
    """MD for a full-length ungapped alignment against an all-'A' reference."""
    out, run = [], 0
    for ch in seq:
        if ch == "A":
            run += 1
        else:
            out.append(str(run))
            out.append("A")
            run = 0
    out.append(str(run))
    return "".join(out)


def locus_start(k):
    return FIRST + k * SPACING  # 0-based


def write_fasta(path, n_loci):
    length = FIRST + n_loci * SPACING + LOCUS_LEN + 20
    with open(path, "w") as fh:
        fh.write(">%s\n" % CONTIG)
        seq = "A" * length
        for i in range(0, length, 60):
            fh.write(seq[i : i + 60] + "\n")
    pysam.faidx(path)
    return length


def write_vcf(path, loci, contig_len, tag=None):
    """loci: list of dict(name, H, w (ints) or None, refmasked bool).  `tag`: INFO id that carries w."""
    with open(path, "w") as fh:
        fh.write("##fileformat=VCFv4.3\n")
        fh.write("##contig=<ID=%s,length=%d>\n" % (CONTIG, contig_len))
        fh.write('##INFO=<ID=REFMASKED,Number=0,Type=Flag,Description="Reference allele is masked">\n')
        if tag:
            fh.write('##INFO=<ID=%s,Number=R,Type=Float,Description="prior allele weights">\n' % tag)
        fh.write("#CHROM\tPOS\tID\tREF\tALT\tQUAL\tFILTER\tINFO\n")
        for k, loc in enumerate(loci):
            seqs = [hap_seq(r) for r in loc["H"]]
            info = []
            if loc.get("refmasked"):
                info.append("REFMASKED")
            if tag:
                info.append("%s=%s" % (tag, ",".join(str(x) for x in loc["w"])))
            fh.write(
                "%s\t%d\t%s\t%s\t%s\t.\t.\t%s\n"
                % (CONTIG, locus_start(k) + 1, loc["name"], seqs[0], ",".join(seqs[1:]) or ".", ";".join(info) or ".")
            )


def write_bam(path, sample, contig_len, reads_per_locus):
    """reads_per_locus: list (by locus index) of list of dict(cells, cnt)."""
    header = {
        "HD": {"VN": "1.6", "SO": "coordinate"},
        "SQ": [{"SN": CONTIG, "LN": contig_len}],
        "RG": [{"ID": "rg_" + sample, "SM": sample}],
    }
    n = 0
    with pysam.AlignmentFile(path, "wb", header=header) as bam:
        for k, reads in enumerate(reads_per_locus):
            for rd in reads:
                seq = read_seq(rd["cells"])
                for _ in range(rd["cnt"]):
                    a = pysam.AlignedSegment()
                    a.query_name = "%s_l%d_r%d" % (sample, k, n)
                    n += 1
                    a.query_sequence = seq
                    a.flag = 0
                    a.reference_id = 0
                    a.reference_start = locus_start(k)
                    a.mapping_quality = 60
                    a.cigartuples = [(0, LOCUS_LEN)]
                    a.query_qualities = pysam.qualitystring_to_array("I" * LOCUS_LEN)
                    a.set_tag("RG", "rg_" + sample)
                    a.set_tag("MD", md_tag(seq))
                    bam.write(a)
    pysam.index(path)
    return n


def write_sample_map(path, pairs):
    with open(path, "w") as fh:
        for s, v in pairs:
            fh.write("%s\t%s\n" % (s, v))


def parse_vcf_samples(text):
    """Independent text parser: -> list of dict(id, alts, filter, info (str), fmt keys, samples {name: {key: str}})."""
    out, names = [], None
    for line in text.splitlines():
        if line.startswith("##") or not line.strip():
            continue
        cols = line.split("\t")
        if line.startswith("#CHROM"):
            names = cols[9:]
            continue
        keys = cols[8].split(":")
        samples = {}
        for nm, val in zip(names, cols[9:]):
            samples[nm] = dict(zip(keys, val.split(":")))
        out.append({"chrom": cols[0], "pos": int(cols[1]), "id": cols[2], "ref": cols[3], "alt": cols[4],
                    "filter": cols[6], "info": cols[7], "keys": keys, "samples": samples})
    return out


def numlist(s):
    if s == ".":
        return None
    return [None if x == "." else float(x) for x in s.split(",")]
