"""Build the per-line events validated by spec/VcfRecord/TraceVcf.tla (C07).

Everything the oracle uses about the *inputs* (reference sequence, input
variants, ploidies) is re-read here from the files with vlib/vcflines.py; the
internal values (iinfo/ifmt/igt) are the ones captured in the worker from
LocusAssemblyData.
"""
import os
import re

from . import vcflines as VL


class TraceBuilder:
    def __init__(self):
        self.headers = []
        self._hkey = {}
        self.contigs = [{"name": "", "seq": []}]  # index 1 = "unknown contig"
        self._ckey = {}
        self.lines = []
        self.meta = []  # parallel to lines: free-form description for reports
        self._fasta = {}
        self._sites = {}

    # -- tables ------------------------------------------------------------
    def header_index(self, hdr):
        key = repr(hdr)
        if key not in self._hkey:
            self.headers.append(hdr)
            self._hkey[key] = len(self.headers)
        return self._hkey[key]

    def fasta(self, path):
        if path not in self._fasta:
            self._fasta[path] = VL.read_fasta(path)
        return self._fasta[path]

    def sites(self, path):
        if path not in self._sites:
            self._sites[path] = VL.read_vcf_sites(path)
        return self._sites[path]

    def contig_index(self, fasta_path, name):
        key = (fasta_path, name)
        if key not in self._ckey:
            seq = self.fasta(fasta_path).get(name)
            if seq is None:
                return 1
            self.contigs.append({"name": name, "seq": list(seq)})
            self._ckey[key] = len(self.contigs)
        return self._ckey[key]

    # -- one output ----------------------------------------------------------
    def add_output(self, text, run, captured=None, label=""):
        """text: whole stdout of one program run (or a golden file);
        run: {"prog", "ref", "snv_vcf" | "hap_vcf", "ploidy": int | {sample: int}};
        captured: list of per-line captures from the worker (same order) or None.
        Returns (n_lines_added, problems) where problems are lexical failures
        [(line_no, reason)] that never reach TLC."""
        hl, rl = VL.split_text(text)
        hdr = VL.parse_header(hl)
        h = self.header_index({k: hdr[k] for k in ("info", "format", "filters", "contigs", "samples")})
        problems = []
        if not hdr["fileformat"].startswith("VCFv4"):
            problems.append((0, "first header line is not ##fileformat=VCFv4.x"))
        pl = run.get("ploidy")
        ploidy = [int(pl[s]) if isinstance(pl, dict) else int(pl) for s in hdr["samples"]] if pl is not None else []
        hap_by_index = self.sites(run["hap_vcf"]) if run.get("hap_vcf") else None
        n = 0
        for i, line in enumerate(rl):
            rec = VL.split_record(line)
            if rec is None or rec["pos"] < 0:
                problems.append((i + 1, "record line cannot be split into >= 8 columns with a numeric POS"))
                continue
            cap = captured[i] if captured is not None and i < len(captured) and captured[i].get("line") == line else None
            end = VL.info_value(rec, "END")
            endv = end["v"][0]["m"] if end and len(end["v"]) == 1 and end["v"][0]["k"] == "int" else rec["pos"] + len(rec["ref"]) - 1
            if run.get("snv_vcf"):
                snvs = VL.snvs_in_interval(self.sites(run["snv_vcf"]), rec["chrom"], rec["pos"], endv)
            elif hap_by_index is not None:
                site = None
                cands = [s for s in hap_by_index if s["chrom"] == rec["chrom"] and s["pos"] == rec["pos"] and s["id"] == rec["id"]]
                if len(cands) >= 1:
                    site = cands[0]
                snvs = VL.snvs_of_haplotype_site(site) if site else []
            else:
                snvs = []
            ev = {
                "h": h,
                "c": self.contig_index(run["ref"], rec["chrom"]),
                "rec": rec,
                "snvs": snvs,
                "ploidy": ploidy,
                "iinfo": cap["iinfo"] if cap and "iinfo" in cap else [],
                "ifmt": cap["ifmt"] if cap and "ifmt" in cap else [[] for _ in rec["samples"]],
                "igt": cap["igt"] if cap and "igt" in cap else [],
            }
            self.lines.append(ev)
            self.meta.append({"label": label, "line_no": i + 1, "text": line, "has_internal": cap is not None})
            n += 1
        return n, problems

    def dump(self):
        return {"headers": self.headers, "contigs": self.contigs, "lines": self.lines}


def read_value_map(path, type_=int):
    out = {}
    with open(path) as fh:
        for line in fh:
            line = line.rstrip("\n")
            if line.strip():
                k, v = line.split("\t")[:2]
                out[k] = type_(v)
    return out


def ploidy_from_commandline(header_lines, data_dir):
    """Golden outputs: recover --ploidy from the ##commandline header (digits, or a file
    looked up by basename in data_dir)."""
    for l in header_lines:
        if l.startswith("##commandline="):
            m = re.search(r"--ploidy (\S+)", l)
            if m:
                a = m.group(1).strip('"')
                if a.isdigit():
                    return int(a)
                p = os.path.join(data_dir, os.path.basename(a))
                if os.path.exists(p):
                    return read_value_map(p)
            return 2
    return None
