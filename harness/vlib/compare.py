"""The single float bridge (DESIGN 2.4)."""
import math
from fractions import Fraction

REL = 1e-9


def close_prob(x, q, rel=REL):
    q = float(q)
    if math.isnan(x):
        return False
    return abs(x - q) <= rel * max(1.0, abs(q))


def close_log(l, q, rel=REL):
    """l: implementation log value; q: exact Fraction (probability or weight)."""
    if q == 0:
        return l == -math.inf
    if l == -math.inf or math.isnan(l):
        return False
    lq = log_fraction(q)
    return abs(l - lq) <= rel * max(1.0, abs(lq))


def log_fraction(q):
    q = Fraction(q)
    return math.log(q.numerator) - math.log(q.denominator)


def close_text3(text_value, q, slack=0.0):
    return abs(float(text_value) - float(q)) <= 0.0005 + 1e-9 + slack


def frac(x):
    """[num, den] or int -> Fraction"""
    if isinstance(x, (list, tuple)):
        return Fraction(int(x[0]), int(x[1]))
    return Fraction(x)
