"""Run many program runs over worker processes such that a run that kills its
worker process (abort / segfault inside compiled code of the tree under test)
is reported for that run instead of failing the whole check.

Same worker protocol as vlib/pool.py (the worker module exposes setup()/run(task));
every run is sent as its own task {"op": "run", ...}.
"""
import threading

from . import env
from .pool import Worker, WorkerError


def crashed(msg):
    return {"stdout": "", "captured": [], "error": {"chain": ["worker process died: " + msg[-600:]], "tb": "",
                                                   "site": "process-abort", "exc": "WorkerDied"}}


def map_runs(module, runs, mode="jit", nproc=None, warm_first=True):
    """runs: list of task dicts; returns list of results in order (the module's result dict, or a
    crashed(...) record when the worker died on that run).  Raises WorkerError only if a worker
    cannot be started at all."""
    runs = list(runs)
    results = [None] * len(runs)
    if not runs:
        return results
    nproc = max(1, min(nproc or env.NCPU, len(runs)))

    def one(w, i):
        """returns (worker, result)"""
        try:
            rr = w.call(runs[i])
        except WorkerError as e:
            try:
                w.close()
            except Exception:
                pass
            return Worker(module, mode), crashed(str(e))
        if not rr["ok"]:
            return w, {"stdout": "", "captured": [], "error": {"chain": [rr["error"]], "tb": rr.get("tb", ""),
                                                               "site": "harness", "exc": "HarnessError"}, "harness_error": True}
        return w, rr["result"]

    start = 0
    if mode == "jit" and warm_first and len(runs) > 1:
        w = Worker(module, mode)
        try:
            w, results[0] = one(w, 0)
        finally:
            w.close()
        start = 1
    it = iter(range(start, len(runs)))
    lock = threading.Lock()
    errors = []

    def loop():
        try:
            w = Worker(module, mode)
        except Exception as e:  # pragma: no cover
            errors.append(e)
            return
        try:
            while True:
                with lock:
                    i = next(it, None)
                if i is None:
                    break
                w, results[i] = one(w, i)
        except Exception as e:
            errors.append(e)
        finally:
            w.close()

    ths = [threading.Thread(target=loop) for _ in range(nproc)]
    for t in ths:
        t.start()
    for t in ths:
        t.join()
    if errors:
        raise WorkerError(str(errors[0]))
    return results
