"""samwalk - an independent interpreter of SAM text (code -> spec direction).

Abstracts real alignments into the abstract alignments of the TLA+ models
(ReadExtract / FindSnvs) *without* pysam's `get_aligned_pairs`, `get_reference_positions`,
`pileup` or flag properties: the only thing taken from pysam is the SAM text of each
record (`AlignedSegment.to_string()`), or the lines of a `.sam` file.  CIGAR, MD, FLAG and
the overlap test are interpreted here from the SAM specification.

    for w in walk_bam(path):                 # every record of the file, in file order
        w.qname, w.flag, w.rname, w.pos, w.mapq, w.cigar, w.seq, w.qual, w.tags
        w.ref_span()                         # (start, end) 0-based half open
        w.columns()                          # [(ref_pos, read_index, read_base, md_ref_base)] for M/=/X columns
        w.deleted()                          # {ref_pos: 'D'|'N'}
    a = abstract(w, contig, start, stop, sites)      # dict: qname, rg, flags, mapq, cells, refbase, overlap
"""
import re

FLAG_BITS = {
    "paired": 0x1,
    "proper": 0x2,
    "unmapped": 0x4,
    "mate_unmapped": 0x8,
    "reverse": 0x10,
    "mate_reverse": 0x20,
    "read1": 0x40,
    "read2": 0x80,
    "secondary": 0x100,
    "qcfail": 0x200,
    "dup": 0x400,
    "supp": 0x800,
}
_CIG = re.compile(r"(\d+)([MIDNSHP=X])")
_MD = re.compile(r"(\d+)|(\^[A-Za-z]+)|([A-Za-z])")


class SamFormatError(Exception):
    pass


class Walked:
    def __init__(self, line):
        f = line.rstrip("\n").split("\t")
        if len(f) < 11:
            raise SamFormatError("short SAM line: %r" % line[:80])
        self.qname = f[0]
        self.flag = int(f[1])
        self.rname = f[2]
        self.pos = int(f[3]) - 1
        self.mapq = int(f[4])
        self.cigar_text = f[5]
        self.cigar = [] if f[5] == "*" else [(op, int(n)) for n, op in _CIG.findall(f[5])]
        if f[5] != "*" and "".join("%d%s" % (n, op) for op, n in self.cigar) != f[5]:
            raise SamFormatError("bad CIGAR %r" % f[5])
        self.seq = "" if f[9] == "*" else f[9]
        self.qual = "" if f[10] == "*" else f[10]
        self.tags = {}
        for t in f[11:]:
            k, ty, v = t.split(":", 2)
            self.tags[k] = v
        self.line = line.rstrip("\n")

    # -- flags ---------------------------------------------------------
    def has(self, name):
        return bool(self.flag & FLAG_BITS[name])

    def flag_names(self):
        return sorted(n for n, b in FLAG_BITS.items() if self.flag & b)

    # -- geometry ------------------------------------------------------
    def ref_len(self):
        return sum(n for op, n in self.cigar if op in "MDN=X")

    def ref_span(self):
        """Reference interval used by region queries: [pos, pos + reference length); a
        record without reference-consuming operators occupies one base."""
        ln = self.ref_len()
        return self.pos, self.pos + (ln if ln > 0 else 1)

    def overlaps(self, rname, start, stop):
        if self.rname != rname:
            return False
        s, e = self.ref_span()
        return s < stop and e > start

    def _md_stream(self):
        """Iterator of MD events: ('=',) one matching column, ('x', base) one mismatching
        column with the reference base, ('d', base) one deleted reference base."""
        md = self.tags.get("MD")
        if md is None:
            return None
        ev = []
        pos = 0
        for m in _MD.finditer(md):
            if m.start() != pos:
                raise SamFormatError("bad MD %r" % md)
            pos = m.end()
            if m.group(1) is not None:
                ev.extend([("=",)] * int(m.group(1)))
            elif m.group(2) is not None:
                ev.extend(("d", b) for b in m.group(2)[1:])
            else:
                ev.append(("x", m.group(3)))
        if pos != len(md):
            raise SamFormatError("bad MD %r" % md)
        return ev

    def columns(self):
        """[(ref_pos, read_index, read_base, md_ref_base or None)] for every column where a
        read base is aligned to a reference base (M, =, X), in order."""
        ev = self._md_stream()
        k = 0
        out = []
        r = self.pos
        q = 0
        for op, n in self.cigar:
            if op in "M=X":
                for _ in range(n):
                    rb = None
                    if ev is not None:
                        if k >= len(ev):
                            raise SamFormatError("MD shorter than CIGAR: %s" % self.line[:120])
                        e = ev[k]
                        k += 1
                        if e[0] == "=":
                            rb = self.seq[q]
                        elif e[0] == "x":
                            rb = e[1]
                        else:
                            raise SamFormatError("MD deletion inside a match run: %s" % self.line[:120])
                    out.append((r, q, self.seq[q] if self.seq else None, rb))
                    r += 1
                    q += 1
            elif op == "D":
                if ev is not None:
                    for _ in range(n):
                        if k >= len(ev) or ev[k][0] != "d":
                            raise SamFormatError("MD/CIGAR deletion mismatch: %s" % self.line[:120])
                        k += 1
                r += n
            elif op == "N":
                r += n
            elif op in "IS":
                q += n
            # H, P consume nothing
        if ev is not None and k != len(ev):
            raise SamFormatError("MD longer than CIGAR: %s" % self.line[:120])
        if self.seq and q != len(self.seq):
            raise SamFormatError("CIGAR query length %d != len(SEQ) %d: %s" % (q, len(self.seq), self.line[:120]))
        return out

    def deleted(self):
        out = {}
        r = self.pos
        for op, n in self.cigar:
            if op in "DN":
                for i in range(n):
                    out[r + i] = op
            if op in "MDN=X":
                r += n
        return out


def walk_sam_text(text):
    for line in text.splitlines():
        if not line or line.startswith("@"):
            continue
        yield Walked(line)


def walk_bam(path, reference_filename=None):
    """Every record of a BAM/CRAM/SAM file in file order, via the SAM text only."""
    import pysam

    with pysam.AlignmentFile(path, reference_filename=reference_filename) as fh:
        for rec in fh.fetch(until_eof=True):
            yield Walked(rec.to_string())


def header_read_groups(path, reference_filename=None):
    """[(ID, SM)] parsed from the header text."""
    import pysam

    with pysam.AlignmentFile(path, reference_filename=reference_filename) as fh:
        text = str(fh.header)
    out = []
    for line in text.splitlines():
        if line.startswith("@RG"):
            d = dict(x.split(":", 1) for x in line.split("\t")[1:])
            out.append((d["ID"], d.get("SM")))
    return out


def abstract(w, contig, start, stop, sites):
    """Abstract alignment of the TLA+ models for the locus contig:[start, stop) with target
    `sites` (0-based positions).  cells[j] = read base aligned to site j or "none";
    refbase[j] = reference base implied by the alignment (MD) there, or "none"."""
    cells = ["none"] * len(sites)
    refb = ["none"] * len(sites)
    quals = [0] * len(sites)
    idx = {p: j for j, p in enumerate(sites)}
    if not w.has("unmapped") and w.rname == contig and w.cigar:
        for r, q, b, rb in w.columns():
            j = idx.get(r)
            if j is not None:
                cells[j] = b
                refb[j] = rb.upper() if rb else "none"
                quals[j] = ord(w.qual[q]) - 33 if w.qual else 0
    return {
        "qname": w.qname,
        "rg": w.tags.get("RG"),
        "flags": w.flag_names(),
        "mapq": w.mapq,
        "cells": cells,
        "refbase": refb,
        "quals": quals,
        "overlap": w.overlaps(contig, start, stop),
    }
