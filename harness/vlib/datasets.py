"""Dataset generator for the program-level checks (C07, C10).

Builds, under a given directory, everything the four calling programs need:
reference FASTA (+ .fai), SNV file (bgzipped + tabix), BED targets, one BAM per
sample (+ .bai, MD tags, read groups), haplotype VCFs for the call programs,
ploidy / pool / pedigree files, and physically merged BAMs for the pool clause.
No samtools/bcftools: pysam.AlignmentFile + pysam.sort/index/tabix_index only.

A dataset is described by a manifest (plain dict, JSON-able) that the checks
use to know what was generated; the *oracle* side of the checks never trusts
the manifest for anything the property is about: it re-reads the files with
vlib/vcflines.py.

Locus shapes (DESIGN C07): normal / no SNVs / no reads / reference haplotype
absent from every sample (with >= 2 ALT haplotypes and with exactly 1) / one
sample without reads / neither SNVs nor reads / many haplotypes with gaps, N
and unlisted bases.
"""
import json
import os
import random

import pysam

BASES = "ACGT"


def _random_seq(rnd, n):
    # avoid homopolymer runs so that an off-by-one in POS/END always changes REF
    s = []
    for _ in range(n):
        c = rnd.choice(BASES)
        while s and c == s[-1]:
            c = rnd.choice(BASES)
        s.append(c)
    return "".join(s)


def write_fasta(path, contigs, width=60, lower=()):
    """contigs: list of (name, seq). Writes path and path.fai (by hand).
    lower: (contig name, start, stop) ranges written in lower case (soft-masked reference)."""
    low = {}
    for n, a, b in lower:
        low.setdefault(n, []).append((a, b))
    contigs = [(n, "".join(c.lower() if any(a <= i < b for a, b in low.get(n, ())) else c for i, c in enumerate(q))) for n, q in contigs]
    fai = []
    with open(path, "w", newline="\n") as fh:
        off = 0
        for name, seq in contigs:
            head = ">%s generated\n" % name
            fh.write(head)
            off += len(head)
            fai.append((name, len(seq), off, width, width + 1))
            for i in range(0, len(seq), width):
                chunk = seq[i : i + width] + "\n"
                fh.write(chunk)
                off += len(chunk)
    with open(path + ".fai", "w") as fh:
        for row in fai:
            fh.write("\t".join(str(x) for x in row) + "\n")


def write_snv_vcf(path_plain, contigs, sites, extra_records=()):
    """sites: list of (contig, pos0, [ref, alt...]); writes <path_plain>.gz + .tbi, returns the .gz path."""
    with open(path_plain, "w") as fh:
        fh.write("##fileformat=VCFv4.2\n")
        fh.write('##FILTER=<ID=PASS,Description="All filters passed">\n')
        for name, seq in contigs:
            fh.write("##contig=<ID=%s,length=%d>\n" % (name, len(seq)))
        fh.write("#CHROM\tPOS\tID\tREF\tALT\tQUAL\tFILTER\tINFO\n")
        order = {name: i for i, (name, _) in enumerate(contigs)}
        rows = [(order[c], p, c, "%s\t%d\t.\t%s\t%s\t.\tPASS\t." % (c, p + 1, a[0], ",".join(a[1:]))) for c, p, a in sites]
        rows += [(order[c], p, c, line) for c, p, line in extra_records]
        for _, _, _, line in sorted(rows, key=lambda r: (r[0], r[1])):
            fh.write(line + "\n")
    gz = path_plain + ".gz"
    for p in (gz, gz + ".tbi"):
        if os.path.exists(p):
            os.unlink(p)
    pysam.tabix_index(path_plain, preset="vcf", force=True)  # compresses in place -> .gz + .tbi
    return gz


def _md_tag(read, ref):
    out, run = [], 0
    for a, b in zip(read, ref):
        if a == b:
            run += 1
        else:
            out.append(str(run))
            out.append(b)
            run = 0
    out.append(str(run))
    return "".join(out)


def write_bam(path, contigs, read_groups, reads):
    """read_groups: list of (rg_id, sample); reads: list of dicts
    (qname, contig, pos0, seq, rg, [flag, mapq]).  Written coordinate-sorted via
    pysam.sort, then indexed."""
    header = {
        "HD": {"VN": "1.6", "SO": "unsorted"},
        "SQ": [{"SN": n, "LN": len(s)} for n, s in contigs],
        "RG": [{"ID": i, "SM": sm, "LB": "lib1", "PL": "ILLUMINA"} for i, sm in read_groups],
    }
    tid = {n: i for i, (n, _) in enumerate(contigs)}
    seqs = dict(contigs)
    tmp = path + ".unsorted.bam"
    with pysam.AlignmentFile(tmp, "wb", header=header) as out:
        for r in reads:
            a = pysam.AlignedSegment()
            a.query_name = r["qname"]
            a.query_sequence = r["seq"]
            a.flag = r.get("flag", 0)
            a.reference_id = tid[r["contig"]]
            a.reference_start = r["pos0"]
            a.mapping_quality = r.get("mapq", 60)
            a.cigar = ((0, len(r["seq"])),)
            a.next_reference_id = -1
            a.next_reference_start = -1
            a.template_length = 0
            a.query_qualities = pysam.qualitystring_to_array("I" * len(r["seq"]))
            ref = seqs[r["contig"]][r["pos0"] : r["pos0"] + len(r["seq"])]
            a.set_tag("RG", r["rg"], "Z")
            a.set_tag("MD", _md_tag(r["seq"], ref), "Z")
            out.write(a)
    pysam.sort("-o", path, tmp)
    os.unlink(tmp)
    pysam.index(path)
    return path


# ---------------------------------------------------------------------------
def _alts_for(rnd, ref_base, n_alt):
    others = [b for b in BASES if b != ref_base]
    rnd.shuffle(others)
    return others[:n_alt]


# loci touching the contig ends, a 1-bp locus, SNVs on the first / last base of a locus, adjacent SNVs,
# a soft-masked reference stretch (name, contig index, start, stop, number of SNVs, shape, explicit positions)
EDGE_PLAN = [
    ("E1_start", 0, 0, 24, 3, "normal", [0, 1, 23]),
    ("E2_single", 0, 40, 41, 1, "normal", [40]),
    ("E3_adjacent", 0, 60, 84, 4, "multi", [70, 71, 72, 73]),
    ("E4_refabs", 0, 100, 126, 2, "refabsent", None),
    ("E5_end", 1, 116, 140, 2, "normal", [116, 139]),
    ("E6_nosnv_start", 1, 0, 20, 0, "nosnv", None),
]

# loci at which two candidate haplotypes cannot be told apart by the reads (a few short reads carry the ALT base of the
# first SNV and end before the second): both are called with an intermediate occurrence probability, so a demanding
# --haplotype-posterior-threshold leaves called haplotypes unreported (partly unknown genotypes)
WEAK_PLAN = [
    ("W1_weak", 0, 10, 40, 2, "weak", [14, 37]),
    ("W2_norm", 0, 60, 90, 3, "normal"),
    ("W3_weak", 0, 110, 140, 2, "weak", [113, 136]),
    ("W4_weak", 1, 20, 50, 2, "weak", [25, 46]),
    ("W5_refabs", 1, 70, 96, 2, "refabsent"),
]

LOCUS_PLAN = [
    # name, contig index, start, stop, number of SNVs, shape
    ("L1_norm", 0, 10, 40, 3, "normal"),
    ("L2_nosnv", 0, 52, 76, 0, "nosnv"),
    ("L3_noreads", 0, 90, 114, 2, "noreads"),
    ("L4_refabs2", 0, 128, 152, 3, "refabsent"),
    ("L5_refabs1", 0, 166, 188, 2, "refabsent1"),
    ("L6_partial", 1, 10, 36, 2, "partial"),
    ("L7_empty", 1, 50, 70, 0, "empty"),
    ("L8_multi", 1, 84, 114, 4, "multi"),
]


def _pick_snvs(rnd, seq, start, stop, n, tri_first, explicit=None):
    if n == 0:
        return []
    pos = sorted(explicit) if explicit else sorted(rnd.sample(range(start + 1, stop - 1), n))
    out = []
    for i, p in enumerate(pos):
        n_alt = 2 if (tri_first and i == n - 1) else 1
        out.append({"pos0": p, "alleles": [seq[p]] + _alts_for(rnd, seq[p], n_alt)})
    return out


def _haplotype_pool(rnd, snvs, n_nonref):
    """Distinct non-reference haplotypes (tuples of allele indices)."""
    pool, tries = [], 0
    while len(pool) < n_nonref and tries < 200:
        tries += 1
        h = tuple(rnd.randrange(len(s["alleles"])) for s in snvs)
        if any(h) and h not in pool:
            pool.append(h)
    return pool


def _genotype(rnd, shape, snvs, pool, ploidy, sample_index):
    ref = tuple(0 for _ in snvs)
    if not snvs:
        return [ref] * ploidy
    if shape == "refabsent1":
        return [pool[0]] * ploidy
    if shape == "refabsent":
        g = [pool[(sample_index + i) % min(len(pool), 2)] for i in range(ploidy)]
        if sample_index == 0:
            g = [pool[0]] * ploidy
        return g
    if shape == "multi":
        return [ref] + [pool[(sample_index + i) % len(pool)] for i in range(ploidy - 1)] if ploidy > 1 else [pool[sample_index % len(pool)]]
    k = max(1, ploidy // 2)
    g = [ref] * k + [pool[(sample_index + i) % len(pool)] for i in range(ploidy - k)]
    return g


def make_population(dirpath, seed=0, n_samples=3, ploidies=(4, 4, 4), depth=12, error=0.004,
                    read_len=34, name="G", deep_sample=None, plan=None, lower=()):
    """Generate the population dataset; returns the manifest (also written as manifest.json)."""
    os.makedirs(dirpath, exist_ok=True)
    rnd = random.Random(("pop", seed, name).__repr__())
    contigs = [("CTG1", _random_seq(rnd, 210)), ("CTG2", _random_seq(rnd, 140))]
    seqs = dict(contigs)
    ref = os.path.join(dirpath, "ref.fa")
    write_fasta(ref, contigs, lower=lower)
    loci = []
    for entry in (plan or LOCUS_PLAN):
        lname, ci, start, stop, nsnv, shape = entry[:6]
        explicit = entry[6] if len(entry) > 6 else None
        cname, seq = contigs[ci]
        snvs = _pick_snvs(rnd, seq, start, stop, nsnv, tri_first=shape in ("normal", "multi", "refabsent"), explicit=explicit)
        npool = {"normal": 2, "noreads": 2, "refabsent": 3, "refabsent1": 1, "partial": 2, "multi": 5}.get(shape, 0)
        pool = _haplotype_pool(rnd, snvs, npool) if snvs else []
        if shape == "weak":
            pool = [(1, 0), (1, 1)]
        loci.append({"name": lname, "contig": cname, "start": start, "stop": stop, "snvs": snvs, "shape": shape, "pool": [list(h) for h in pool]})
    sites = [(l["contig"], s["pos0"], s["alleles"]) for l in loci for s in l["snvs"]]
    # two records the SNV reader must skip (an insertion and an MNP), outside every SNV position
    extra = []
    l1 = max(loci, key=lambda l: l["stop"] - l["start"])
    free = [p for p in range(l1["start"] + 1, l1["stop"] - 2) if all(abs(p - s["pos0"]) > 1 for s in l1["snvs"])]
    if free:
        p = free[0]
        s = seqs[l1["contig"]]
        extra.append((l1["contig"], p, "%s\t%d\t.\t%s\t%s\t.\tPASS\t." % (l1["contig"], p + 1, s[p], s[p] + "GG")))
    snv_vcf = write_snv_vcf(os.path.join(dirpath, "snvs.vcf"), contigs, sites, extra)
    bed = os.path.join(dirpath, "targets.bed")
    with open(bed, "w") as fh:
        for l in loci:
            fh.write("%s\t%d\t%d\t%s\n" % (l["contig"], l["start"], l["stop"], l["name"]))
    samples = []
    for si in range(n_samples):
        sname = "S%d" % (si + 1)
        ploidy = ploidies[si % len(ploidies)]
        rgs = [("rg1_" + sname, sname)] + ([("rg2_" + sname, sname)] if si == 0 else [])
        reads, truth = [], {}
        for l in loci:
            snvs, shape = l["snvs"], l["shape"]
            pool = [tuple(h) for h in l["pool"]]
            g = _genotype(rnd, shape, snvs, pool, ploidy, si)
            truth[l["name"]] = [list(h) for h in g]
            d = depth * (10 if deep_sample == si else 1)
            if shape in ("noreads", "empty"):
                d = 0
            if shape == "partial" and si == n_samples - 1:
                d = 0
            seq = seqs[l["contig"]]
            for i in range(d):
                h = g[i % len(g)]
                if shape == "weak":
                    h = (1, 0) if i < 1 + (si + len(l["name"])) % 2 else (0, 0)
                # every read covers the whole locus except in the "multi" shape (gaps)
                if shape == "multi":
                    st = rnd.randint(l["start"] - 6, l["start"] + 8)
                    ln = rnd.randint(18, read_len)
                else:
                    st = rnd.randint(max(0, l["start"] - 4), l["start"])
                    ln = max(read_len, l["stop"] - st + rnd.randint(0, 3))
                if shape == "weak" and h != (0, 0):
                    ln = snvs[1]["pos0"] - st - rnd.randint(1, 3)      # ends before the second SNV
                st = max(0, st)
                ln = min(ln, len(seq) - st)
                chars = list(seq[st : st + ln])
                for sv, a in zip(snvs, h):
                    if st <= sv["pos0"] < st + ln:
                        chars[sv["pos0"] - st] = sv["alleles"][a]
                for j in range(len(chars)):
                    if rnd.random() < error:
                        chars[j] = rnd.choice([b for b in BASES if b != chars[j]])
                if shape == "multi" and snvs and i % 7 == 3:
                    sv = snvs[i % len(snvs)]
                    if st <= sv["pos0"] < st + ln:
                        chars[sv["pos0"] - st] = "N"
                reads.append({"qname": "%s_%s_r%d" % (sname, l["name"], i), "contig": l["contig"], "pos0": st,
                              "seq": "".join(chars), "rg": rgs[i % len(rgs)][0]})
        bam = write_bam(os.path.join(dirpath, "%s.bam" % sname), contigs, rgs, reads)
        samples.append({"name": sname, "bam": bam, "ploidy": ploidy, "truth": truth, "n_reads": len(reads)})
    man = {"name": name, "seed": seed, "dir": dirpath, "ref": ref, "contigs": [list(c) for c in contigs],
           "snv_vcf": snv_vcf, "bed": bed, "loci": loci, "samples": samples}
    with open(os.path.join(dirpath, "manifest.json"), "w") as fh:
        json.dump(man, fh, indent=1)
    return man


# ---- files derived from a manifest -------------------------------------------
def write_map(path, pairs):
    with open(path, "w") as fh:
        for k, v in pairs:
            fh.write("%s\t%s\n" % (k, v))
    return path


def locus_strings(man, locus):
    """(REF string, [ALT strings of the locus' haplotype pool])."""
    seq = dict((c[0], c[1]) for c in man["contigs"])[locus["contig"]]
    ref = seq[locus["start"] : locus["stop"]]
    alts = []
    for h in locus["pool"]:
        chars = list(ref)
        for sv, a in zip(locus["snvs"], h):
            chars[sv["pos0"] - locus["start"]] = sv["alleles"][a]
        alts.append("".join(chars))
    return ref, alts


HAP_HEADER = """##fileformat=VCFv4.3
##source=generated
{contigs}
##FILTER=<ID=PASS,Description="All filters passed">
##INFO=<ID=REFMASKED,Number=0,Type=Flag,Description="Reference allele is masked">
##INFO=<ID=END,Number=1,Type=Integer,Description="End position on CHROM">
##INFO=<ID=NVAR,Number=1,Type=Integer,Description="Number of input variants within assembly locus">
##INFO=<ID=SNVPOS,Number=.,Type=Integer,Description="Relative (1-based) positions of SNVs within haplotypes">
##INFO=<ID=AFP,Number=R,Type=Float,Description="Posterior mean allele frequencies">
#CHROM\tPOS\tID\tREF\tALT\tQUAL\tFILTER\tINFO
"""


def write_haplotype_vcf(man, path, seed=0):
    """Hand-made input for the call programs: one record per locus with its haplotype pool as
    ALTs and an AFP prior, plus the special inputs: REFMASKED with ALTs, REFMASKED without ALTs
    (-> NOA), an all-zero prior (-> AF0), a zero-frequency ALT (masked input allele), an ALT-less
    record.  Returns the list of records written (dicts)."""
    rnd = random.Random(("hap", seed, man["name"]).__repr__())
    rows = []

    def freqs(n, zero=(), allzero=False):
        if allzero:
            return [0.0] * n
        w = [0.0 if i in zero else rnd.randint(1, 8) for i in range(n)]
        t = sum(w)
        f = [round(x / t, 3) for x in w]
        return f

    for l in man["loci"]:
        ref, alts = locus_strings(man, l)
        n = len(alts) + 1
        masked = l["shape"] in ("refabsent", "refabsent1")
        f = freqs(n, zero=(0,) if masked else ())
        rows.append((l, l["name"], alts, masked, f))
    by = {l["name"]: l for l in man["loci"]}
    # specials
    if "L1_norm" in by:
        l = by["L1_norm"]
        ref, alts = locus_strings(man, l)
        rows.append((l, "L1_zeroalt", alts, False, freqs(len(alts) + 1, zero=(1,))))
        rows.append((l, "L1_zerolast", alts, False, freqs(len(alts) + 1, zero=(len(alts),))))
        rows.append((l, "L1_zeroref", alts, False, freqs(len(alts) + 1, zero=(0,))))
        rows.append((l, "L1_af0", alts, False, freqs(len(alts) + 1, allzero=True)))
        rows.append((l, "L1_maskref", alts, True, freqs(len(alts) + 1, zero=(0,))))
        l = by["L2_nosnv"]
        rows.append((l, "L2_noa", [], True, [1.0]))
        l = by["L6_partial"]
        ref, alts = locus_strings(man, l)
        rows.append((l, "L6_onlyref", alts, False, freqs(len(alts) + 1, zero=tuple(range(1, len(alts) + 1)))))
        l = by["L8_multi"]
        ref, alts = locus_strings(man, l)
        rows.append((l, "L8_zerolast2", alts, False, freqs(len(alts) + 1, zero=(len(alts) - 1, len(alts)))))
        rows.append((l, "L8_zeroends", alts, False, freqs(len(alts) + 1, zero=(1, len(alts)))))
        rows.append((l, "L8_rare", alts, False, [0.5] + [0.02] * 2 + [round((0.5 - 0.04) / (len(alts) - 2), 3)] * (len(alts) - 2)))
    else:
        for l in man["loci"]:
            ref, alts = locus_strings(man, l)
            if len(alts) >= 2:
                rows.append((l, l["name"] + "_zerolast", alts, False, freqs(len(alts) + 1, zero=(len(alts),))))
                rows.append((l, l["name"] + "_af0", alts, False, freqs(len(alts) + 1, allzero=True)))
                break
    order = {c[0]: i for i, c in enumerate(man["contigs"])}
    out = []
    with open(path, "w") as fh:
        fh.write(HAP_HEADER.format(contigs="\n".join("##contig=<ID=%s,length=%d>" % (c[0], len(c[1])) for c in man["contigs"])))
        for l, rid, alts, masked, f in rows:
            ref, _ = locus_strings(man, l)
            snvpos = sorted({i + 1 for a in alts for i in range(len(ref)) if a[i] != ref[i]})
            info = []
            if masked:
                info.append("REFMASKED")
            info.append("END=%d" % l["stop"])
            info.append("NVAR=%d" % len(snvpos))
            info.append("SNVPOS=%s" % (",".join(map(str, snvpos)) or "."))
            info.append("AFP=%s" % ",".join(("%.3f" % x).rstrip("0").rstrip(".") if x else "0" for x in f))
            fh.write("%s\t%d\t%s\t%s\t%s\t.\t.\t%s\n" % (l["contig"], l["start"] + 1, rid, ref, ",".join(alts) or ".", ";".join(info)))
            out.append({"id": rid, "locus": l["name"], "contig": l["contig"], "pos": l["start"] + 1, "ref": ref, "alts": alts,
                        "masked": masked, "afp": f})
    return out


def merge_bams(out_path, man, sample_names, merged_sample):
    """Physically merge the alignments of several generated samples into one BAM whose reads all
    belong to `merged_sample` (query names are already distinct across samples)."""
    contigs = [tuple(c) for c in man["contigs"]]
    reads = []
    rgs = []
    for sn in sample_names:
        s = [x for x in man["samples"] if x["name"] == sn][0]
        rg = "rgm_%s_%s" % (merged_sample, sn)
        rgs.append((rg, merged_sample))
        with pysam.AlignmentFile(s["bam"]) as bf:
            for a in bf.fetch(until_eof=True):
                reads.append({"qname": a.query_name, "contig": a.reference_name, "pos0": a.reference_start,
                              "seq": a.query_sequence, "rg": rg, "flag": a.flag, "mapq": a.mapping_quality})
    return write_bam(out_path, contigs, rgs, reads)


def merge_repo_bams(out_path, bam_paths, merged_sample):
    """Same for existing BAMs (the repository's test data, whose query names collide across
    samples): reads are copied record by record with the query name prefixed by the source sample."""
    reads, rgs, contigs = [], [], None
    for i, p in enumerate(bam_paths):
        with pysam.AlignmentFile(p) as bf:
            if contigs is None:
                contigs = [(sq["SN"], sq["LN"]) for sq in bf.header.to_dict()["SQ"]]
            rg = "rgm_%s_%d" % (merged_sample, i)
            rgs.append((rg, merged_sample))
            for a in bf.fetch(until_eof=True):
                reads.append((a, rg, "m%d_" % i))
    header = {"HD": {"VN": "1.6", "SO": "unsorted"}, "SQ": [{"SN": n, "LN": ln} for n, ln in contigs],
              "RG": [{"ID": i, "SM": sm} for i, sm in rgs]}
    tmp = out_path + ".unsorted.bam"
    with pysam.AlignmentFile(tmp, "wb", header=header) as out:
        for a, rg, prefix in reads:
            b = pysam.AlignedSegment.fromstring(a.to_string(), out.header)
            b.query_name = prefix + a.query_name
            b.set_tag("RG", rg, "Z")
            out.write(b)
    pysam.sort("-o", out_path, tmp)
    os.unlink(tmp)
    pysam.index(out_path)
    return out_path


def repo_simple(repo, copy_to):
    """The repository's own test data as a manifest-like dict.  The files are first COPIED into
    `copy_to` (under /verif/work): nothing a check does (index creation by htslib, temporary
    files) may ever land in the tree under test."""
    import shutil

    src = os.path.join(repo, "mchap", "tests", "test_io", "data")
    os.makedirs(copy_to, exist_ok=True)
    wanted = ["simple.fasta", "simple.fasta.fai", "simple.vcf.gz", "simple.vcf.gz.tbi", "simple.bed",
              "simple.pools", "simple.pools-ploidy", "simple.pedigree.132.txt", "simple.tau.132.txt",
              "simple.output.assemble.vcf", "simple.output.mixed_depth.assemble.vcf", "mock.input.frequencies.vcf"]
    for i in (1, 2, 3):
        for stem in ("simple.sample%d.bam" % i, "simple.sample%d.deep.bam" % i):
            wanted += [stem, stem + ".bai"]
    for n in wanted:
        shutil.copyfile(os.path.join(src, n), os.path.join(copy_to, n))
    # index files must not be older than the data they index
    for n in wanted:
        if n.endswith((".bai", ".fai", ".tbi")):
            os.utime(os.path.join(copy_to, n), None)
    p = lambda n: os.path.join(copy_to, n)  # noqa: E731
    return {
        "name": "simple", "dir": copy_to, "source_dir": src, "ref": p("simple.fasta"), "snv_vcf": p("simple.vcf.gz"), "bed": p("simple.bed"),
        "bams": {"shallow": [p("simple.sample%d.bam" % i) for i in (1, 2, 3)],
                 "deep": [p("simple.sample%d.deep.bam" % i) for i in (1, 2, 3)],
                 "mixed": [p("simple.sample1.bam"), p("simple.sample2.deep.bam"), p("simple.sample3.bam")]},
        "samples": ["SAMPLE1", "SAMPLE2", "SAMPLE3"],
        "hap_vcfs": {"assemble": p("simple.output.assemble.vcf"), "mixed": p("simple.output.mixed_depth.assemble.vcf"),
                     "mock": p("mock.input.frequencies.vcf")},
        "pools": p("simple.pools"), "pools_ploidy": p("simple.pools-ploidy"),
        "pedigree": p("simple.pedigree.132.txt"), "tau": p("simple.tau.132.txt"),
    }
