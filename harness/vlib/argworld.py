"""The fixed small world of X02 (command-line configuration state).

`Arguments.tla` speaks about five alignment files b1..b5 whose read groups are given by the
constant operator `RG` of the module; this file builds exactly that world on disk (reference,
one target locus with two SNVs, a haplotype VCF for the call programs, five indexed BAMs with the
modelled read groups) and concretises an abstract input record emitted by TLC (or drawn at random
by the check) into a real argument vector plus side files.

Nothing here is an oracle: the expected configuration always comes from TLC.
"""
import hashlib
import os

from . import datasets as D

# must agree with RG in spec/Arguments/Arguments.tla (checked by the check against a TLC dump)
WORLD_RG = {
    "b1": [("a1", "S1"), ("a2", "S1")],  # two read groups, one sample
    "b2": [("r2", "S2")],
    "b3": [("c1", "S3"), ("c2", "S4")],  # two samples in one file
    "b4": [("d1", "S1")],  # SM collides with b1, ID does not
    "b5": [("r2", "S5")],  # ID collides with b2, SM does not
}
LIB = "LB1"  # every read group carries LB (a field that is neither SM nor ID)

CONTIG = ("CTG1", "ACGTTGCATCGGATCCTAGCATGCAAGTCTAGCTTACGGATCATGCGTACCTGAATCGGCTATCAGTCCGATACGTTAGCCATAGCTGACTTGACGATCGTAGCTAACGGTCATCGA")
LOCUS = ("CTG1", 30, 60, "L1")
SNVS = [(36, "G"), (48, "T")]  # pos0, alt base (ref base is taken from the contig)


def _hap(seq, start, stop, alleles):
    chars = list(seq[start:stop])
    for (p, alt), a in zip(SNVS, alleles):
        if a:
            chars[p - start] = alt
    return "".join(chars)


def build(dirpath):
    """Create the world under dirpath (idempotent); returns a dict of paths."""
    os.makedirs(dirpath, exist_ok=True)
    name, seq = CONTIG
    for (p, alt) in SNVS:
        assert seq[p] != alt
    done = os.path.join(dirpath, "world.ok")
    paths = {
        "dir": dirpath,
        "ref": os.path.join(dirpath, "ref.fa"),
        "bed": os.path.join(dirpath, "targets.bed"),
        "snv_vcf": os.path.join(dirpath, "snvs.vcf.gz"),
        "hap_vcf": os.path.join(dirpath, "haps.vcf.gz"),
        "bams": {b: os.path.join(dirpath, b + ".bam") for b in WORLD_RG},
        "notbam": os.path.join(dirpath, "nosuch.bam"),
        "files": os.path.join(dirpath, "files"),
    }
    os.makedirs(paths["files"], exist_ok=True)
    if os.path.exists(done):
        return paths
    contigs = [CONTIG]
    D.write_fasta(paths["ref"], contigs)
    c, start, stop, lname = LOCUS
    with open(paths["bed"], "w") as fh:
        fh.write("%s\t%d\t%d\t%s\n" % (c, start, stop, lname))
    D.write_snv_vcf(os.path.join(dirpath, "snvs.vcf"), contigs, [(c, p, [seq[p], alt]) for p, alt in SNVS])
    # haplotype VCF: REF + three ALT haplotypes
    ref = _hap(seq, start, stop, (0, 0))
    alts = [_hap(seq, start, stop, a) for a in ((1, 0), (0, 1), (1, 1))]
    plain = os.path.join(dirpath, "haps.vcf")
    with open(plain, "w") as fh:
        fh.write("##fileformat=VCFv4.3\n##contig=<ID=%s,length=%d>\n" % (name, len(seq)))
        fh.write('##FILTER=<ID=PASS,Description="All filters passed">\n')
        fh.write('##INFO=<ID=END,Number=1,Type=Integer,Description="End position on CHROM">\n')
        fh.write('##INFO=<ID=SNVPOS,Number=.,Type=Integer,Description="Relative (1-based) positions of SNVs within haplotypes">\n')
        fh.write("#CHROM\tPOS\tID\tREF\tALT\tQUAL\tFILTER\tINFO\n")
        fh.write("%s\t%d\t%s\t%s\t%s\t.\tPASS\tEND=%d;SNVPOS=%s\n" % (
            c, start + 1, lname, ref, ",".join(alts), stop, ",".join(str(p - start + 1) for p, _ in SNVS)))
    import pysam

    for p in (plain + ".gz", plain + ".gz.tbi"):
        if os.path.exists(p):
            os.unlink(p)
    pysam.tabix_index(plain, preset="vcf", force=True)
    # BAMs: every read group supports its own pair of haplotypes, 8 reads each
    k = 0
    for b, rgs in WORLD_RG.items():
        reads = []
        for (rid, sm) in rgs:
            k += 1
            pats = [((k >> 0) & 1, (k >> 1) & 1), (0, 0), ((k >> 1) & 1, 1 - ((k >> 0) & 1))]
            for i in range(9):
                a = pats[i % 3]
                st = start - 3
                body = list(seq[st : stop + 4])
                for (p, alt), x in zip(SNVS, a):
                    if x:
                        body[p - st] = alt
                reads.append({"qname": "%s_%s_r%d" % (b, rid, i), "contig": c, "pos0": st, "seq": "".join(body), "rg": rid})
        _write_bam(paths["bams"][b], contigs, rgs, reads)
    with open(done, "w") as fh:
        fh.write("ok\n")
    return paths


def _write_bam(path, contigs, rgs, reads):
    # datasets.write_bam writes LB=lib1; keep its behaviour (LB present, not a sample key)
    D.write_bam(path, contigs, rgs, reads)


# ---------------------------------------------------------------------------
def _side_file(paths, kind, text):
    """Content-addressed side file (shared between configurations)."""
    h = hashlib.sha1((kind + "\0" + text).encode()).hexdigest()[:16]
    p = os.path.join(paths["files"], "%s-%s.txt" % (kind, h))
    if not os.path.exists(p):
        tmp = p + ".%d.tmp" % os.getpid()
        with open(tmp, "w") as fh:
            fh.write(text)
        os.replace(tmp, p)
    return p


def _num(h):
    """hundredths -> text the way a user writes it (0 -> '0.0', 25 -> '0.25', 100 -> '1.0')."""
    s = "%.2f" % (h / 100.0)
    s = s.rstrip("0")
    return s + "0" if s.endswith(".") else s


def _lines(rows):
    return "".join("\t".join(str(x) for x in r) + "\n" for r in rows)


def concretise(paths, inp):
    """abstract input record (see Arguments.tla, `inp`) -> (prog, argv list).

    Only *representation* decisions are made here (file names, number formatting, line order =
    the order of the abstract sequences).  Everything the abstract input says is given is put
    on the command line, whether or not the program accepts it."""
    prog = inp["prog"]
    if inp.get("empty"):
        return prog, []
    argv = []
    bam_paths = [paths["bams"].get(b, paths["notbam"]) for b in inp["bams"]]
    if prog in ("call", "call-exact", "call-pedigree"):
        argv += ["--haplotypes", paths["hap_vcf"]]
    elif prog == "assemble":
        argv += ["--variants", paths["snv_vcf"]]
    elif prog == "atomize":
        argv += [paths["hap_vcf"]]  # its only (positional) argument; it has no alignment / sample options
    loc = inp.get("locus", "none")
    if loc in ("targets", "both"):
        argv += ["--targets", paths["bed"]]
    if loc in ("region", "both"):
        argv += ["--region", "%s:%d-%d" % (LOCUS[0], LOCUS[1], LOCUS[2])]
    if prog != "atomize":
        argv += ["--reference", paths["ref"]]
        form = inp["bamForm"]
        if form == "list":
            argv += ["--bam"] + bam_paths
        elif form == "pathfile":
            argv += ["--bam", _side_file(paths, "bams", _lines([[p] for p in bam_paths]))]
        elif form == "pairfile":
            argv += ["--bam", _side_file(paths, "pairs", _lines([[n, p] for n, p in zip(inp["pairNames"], bam_paths)]))]
        if inp["rg"] != "default":
            argv += ["--read-group-field", inp["rg"]]
    pool = inp["pool"]
    if pool["kind"] == "name":
        argv += ["--sample-pool", pool["name"]]
    elif pool["kind"] == "file":
        argv += ["--sample-pool", _side_file(paths, "pools", _lines(pool["lines"]))]
    for opt, key, fmt in (("--ploidy", "ploidy", str), ("--inbreeding", "inbreeding", _num)):
        v = inp[key]
        if v["kind"] == "num":
            argv += [opt, fmt(v["num"])]
        elif v["kind"] == "file":
            argv += [opt, _side_file(paths, key, _lines([[n, fmt(x)] for n, x in v["entries"]]))]
    if inp["report"]["given"]:
        argv += ["--report"] + list(inp["report"]["tokens"])
    m = inp["mcmc"]
    if m["given"]:
        argv += ["--mcmc-steps", str(m["steps"]), "--mcmc-burn", str(m["burn"]), "--mcmc-seed", str(m["seed"]),
                 "--mcmc-chains", str(m["chains"])]
    t = inp["temps"]
    if t["kind"] == "list":
        argv += ["--mcmc-temperatures"] + [_num(x) for x in t["values"]]
    elif t["kind"] == "file":
        argv += ["--mcmc-temperatures", _side_file(paths, "temps", _lines([[n] + [_num(x) for x in xs] for n, xs in t["entries"]]))]
    ped = inp["ped"]
    if ped["given"]:
        argv += ["--sample-parents", _side_file(paths, "parents", _lines([[s, p, q] for s, p, q in ped["parents"]]))]
    for opt, key, fmt in (("--gamete-ploidy", "tau", str), ("--gamete-ibd", "ibd", _num), ("--gamete-error", "err", _num)):
        v = ped[key]
        if v["kind"] == "num":
            argv += [opt, fmt(v["num"])]
        elif v["kind"] == "file":
            argv += [opt, _side_file(paths, key, _lines([[s, fmt(a), fmt(b)] for s, a, b in v["entries"]]))]
    return prog, argv
