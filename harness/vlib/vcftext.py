"""Independent VCF *reader*: splits the text into records without pysam/htslib.

Used to parse what the programs print (and their input files) so that the comparison with
the model does not go through the library the implementation itself uses.

API:

    v = parse(text)            # or read(path)   (.gz / bgzip handled with gzip)
    v.meta                     # list of '##' lines (without newline)
    v.defs["INFO"]["AFP"]      # {"ID":..,"Number":..,"Type":..,"Description":..}; also "FORMAT", "FILTER", "contig"
    v.samples                  # sample names
    for r in v.records:
        r.chrom, r.pos (int), r.id ('.' kept), r.ref, r.alts (list, [] for '.'), r.qual (str),
        r.filters (list, [] for '.'), r.info (ordered dict key -> text, flags -> True),
        r.format (list of keys), r.samples (list of dict key -> text, trailing omitted keys absent),
        r.line (the raw line)

    gt(text)      -> (alleles: list of int|None, phased: bool)      "0/1/." -> ([0,1,None], False)
    floats(text)  -> list of float|None ('.' -> None)   ;  ints(text) likewise
    milli(text)   -> list of int|None: decimal text * 1000 exactly (needs <= 3 decimals, else ValueError)
"""
import gzip
import re
from collections import OrderedDict
from decimal import Decimal


class Record:
    __slots__ = ("chrom", "pos", "id", "ref", "alts", "qual", "filters", "info", "format", "samples", "line")

    def sample(self, i, key, default=None):
        return self.samples[i].get(key, default)


class VcfText:
    def __init__(self):
        self.meta = []
        self.defs = {"INFO": OrderedDict(), "FORMAT": OrderedDict(), "FILTER": OrderedDict(), "contig": OrderedDict()}
        self.samples = []
        self.columns = []
        self.records = []


_RE_STRUCT = re.compile(r'^##(\w+)=<(.*)>$')
_RE_KV = re.compile(r'(\w+)=("(?:[^"\\]|\\.)*"|[^,]*)')


def parse(text):
    v = VcfText()
    for line in text.split("\n"):
        if line.endswith("\r"):
            line = line[:-1]
        if not line:
            continue
        if line.startswith("##"):
            v.meta.append(line)
            m = _RE_STRUCT.match(line)
            if m and m.group(1) in v.defs:
                d = OrderedDict()
                for k, val in _RE_KV.findall(m.group(2)):
                    d[k] = val[1:-1] if val.startswith('"') else val
                if "ID" in d:
                    v.defs[m.group(1)][d["ID"]] = d
            continue
        if line.startswith("#"):
            v.columns = line[1:].split("\t")
            v.samples = v.columns[9:]
            continue
        v.records.append(parse_line(line))
    return v


def parse_line(line):
    c = line.split("\t")
    if len(c) < 8:
        raise ValueError("VCF data line with %d columns: %r" % (len(c), line[:100]))
    r = Record()
    r.line = line
    r.chrom = c[0]
    r.pos = int(c[1])
    r.id = c[2]
    r.ref = c[3]
    r.alts = [] if c[4] == "." else c[4].split(",")
    r.qual = c[5]
    r.filters = [] if c[6] == "." else c[6].split(";")
    r.info = OrderedDict()
    if c[7] != ".":
        for item in c[7].split(";"):
            if not item:
                continue
            k, eq, val = item.partition("=")
            r.info[k] = val if eq else True
    r.format = c[8].split(":") if len(c) > 8 else []
    r.samples = []
    for s in c[9:]:
        vals = s.split(":")
        r.samples.append(OrderedDict(zip(r.format, vals)))
    return r


def read(path):
    if path.endswith(".gz"):
        with gzip.open(path, "rt") as fh:
            return parse(fh.read())
    with open(path) as fh:
        return parse(fh.read())


def gt(text):
    """'0/1/.' -> ([0, 1, None], False);  '0|1' -> ([0, 1], True)."""
    phased = "|" in text
    if phased and "/" in text:
        raise ValueError("mixed phasing in GT %r" % text)
    parts = re.split(r"[|/]", text)
    return [None if p == "." else int(p) for p in parts], phased


def floats(text):
    if text is None or text is True:
        return []
    return [None if p == "." else float(p) for p in text.split(",")]


def ints(text):
    if text is None or text is True:
        return []
    return [None if p == "." else int(p) for p in text.split(",")]


def milli(text):
    """Decimal text with at most three decimals -> exact integer thousandths."""
    out = []
    if text is None or text is True:
        return out
    for p in text.split(","):
        if p == ".":
            out.append(None)
            continue
        d = Decimal(p) * 1000
        if d != d.to_integral_value():
            raise ValueError("more than three decimals: %r" % p)
        out.append(int(d))
    return out
