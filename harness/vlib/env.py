"""Paths, tiers, seeds and tree hashing."""
import hashlib
import os
import sys

VERIF = os.path.dirname(os.path.dirname(os.path.dirname(os.path.abspath(__file__))))
REPO = os.environ.get("VERIF_REPO", "/repo")
SPEC = os.path.join(VERIF, "spec")
HARNESS = os.path.join(VERIF, "harness")
WORK = os.environ.get("VERIF_WORK", os.path.join(VERIF, "work"))
EVIDENCE = os.environ.get("VERIF_EVIDENCE", os.path.join(VERIF, "evidence"))
PY = os.environ.get("VERIF_PYTHON", "/venv/bin/python")
GUARD = "MCHAP_VERIF"
NCPU = int(os.environ.get("VERIF_CPUS", str(os.cpu_count() or 4)))


def tier():
    t = os.environ.get("VERIF_TIER", "quick")
    return t if t in ("quick", "thorough") else "quick"


def seed():
    try:
        return int(os.environ.get("VERIF_SEED", "0"))
    except ValueError:
        return 0


_tree_hash = None


def tree_hash():
    """sha1 over every mchap/**/*.py of the tree under test (names + bytes)."""
    global _tree_hash
    if _tree_hash is None:
        h = hashlib.sha1()
        root = os.path.join(REPO, "mchap")
        for d, dirs, files in sorted(os.walk(root)):
            dirs.sort()
            if "__pycache__" in d:
                continue
            for f in sorted(files):
                if f.endswith(".py"):
                    p = os.path.join(d, f)
                    h.update(os.path.relpath(p, root).encode())
                    with open(p, "rb") as fh:
                        h.update(fh.read())
        _tree_hash = h.hexdigest()[:16]
    return _tree_hash


def numba_cache_dir():
    d = os.path.join(VERIF, ".cache", "numba", tree_hash())
    os.makedirs(d, exist_ok=True)
    return d


def workdir(name):
    d = os.path.join(WORK, name)
    os.makedirs(d, exist_ok=True)
    return d


def impl_env(mode="jit"):
    """Environment for a subprocess importing the tree under test."""
    e = dict(os.environ)
    e["PYTHONPATH"] = REPO + os.pathsep + HARNESS
    e["PYTHONHASHSEED"] = "0"
    e["PYTHONDONTWRITEBYTECODE"] = "1"
    e[GUARD] = "1"
    e["VERIF_TREE"] = REPO
    e["NUMBA_CACHE_DIR"] = numba_cache_dir()
    e["OMP_NUM_THREADS"] = "1"
    e["NUMBA_NUM_THREADS"] = "1"
    if mode == "py":
        e["NUMBA_DISABLE_JIT"] = "1"
    else:
        e.pop("NUMBA_DISABLE_JIT", None)
    return e


def prune_numba_caches(keep=4):
    root = os.path.join(VERIF, ".cache", "numba")
    if not os.path.isdir(root):
        return
    ds = sorted(
        (os.path.join(root, d) for d in os.listdir(root)),
        key=lambda p: os.path.getmtime(p),
        reverse=True,
    )
    import shutil

    for d in ds[keep:]:
        shutil.rmtree(d, ignore_errors=True)
