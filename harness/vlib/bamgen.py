"""bamgen - concretise abstract alignment streams into real files (pysam only).

The TLA+ models of the read-level properties (C06 ReadExtract, C19 FindSnvs, and
the pipeline properties that need datasets) talk about *abstract alignments*:

    {"qname": "q1", "rg": "a1", "flags": ["dup", "paired"], "mapq": 20,
     "cells": ["A", "none"],        # per target site: base aligned there, or none
     "refok": [True, True],         # does the alignment's MD imply the true reference base there
     "overlap": True}               # does the aligned reference span intersect the locus

This module turns such records into real, indexed files that MCHap can read, with
no external binaries (no samtools / bcftools):

    geom  = Geometry.build(rng, site_refs=["A", "C"])        # contig, locus, site positions, reference
    fasta = write_fasta(dir/"ref.fa", {geom.contig: geom.ref})                 (+ .fai)
    vcf   = write_snv_vcf(dir/"snv.vcf", {geom.contig: len(geom.ref)},
                          [(geom.contig, p, "A", ("C",)) for p in geom.sites]) -> "snv.vcf.gz" (+ .tbi)
    bed   = write_bed(dir/"loci.bed", [(geom.contig, geom.start, geom.stop, "L1")])
    alns  = [realise(a, geom, rng) for a in abstract_stream]                   # -> list[Aln]
    pair_up(alns)                                                              # mate fields for paired qnames
    bam   = write_bam(dir/"x.bam", {geom.contig: len(geom.ref)},
                      [{"ID": "a1", "SM": "A"}, ...], alns)                    (+ .bai)

`realise` chooses (seeded) among CIGAR shapes for every `none` cell - read ends
before / starts after the site, `D`, `N`, leading/trailing `S` and `H` clips - and
decorates with insertions next to sites, mismatches and `N` bases off the sites,
`=`/`X` operators and reverse-strand flags.  The `MD` tag is always computed (the
code under test calls `get_aligned_pairs(with_seq=True)`); `refok = False` is realised
by computing `MD` against a *claimed* reference that differs from the true one at
that site.  `random_alignment` draws free-form alignments (random CIGAR) for the
code -> spec direction, where an independent SAM walker (`samwalk`) abstracts them.

Generated reads always have at least two aligned bases (pysam 0.24's
`AlignedSegment.qual` returns garbage for 1-base reads read back from a BAM).
Coordinates are 0-based half-open everywhere except in the SAM text.
Nothing here imports mchap.
"""
import os
import random

import pysam

FLAG_BITS = {
    "paired": 0x1,
    "proper": 0x2,
    "unmapped": 0x4,
    "mate_unmapped": 0x8,
    "reverse": 0x10,
    "mate_reverse": 0x20,
    "read1": 0x40,
    "read2": 0x80,
    "secondary": 0x100,
    "qcfail": 0x200,
    "dup": 0x400,
    "supp": 0x800,
}
BASES = "ACGT"
NONE = (None, "none", "-", "")


def flag_int(names):
    f = 0
    for n in names:
        f |= FLAG_BITS[n]
    return f


def flag_names(flag):
    return sorted(n for n, b in FLAG_BITS.items() if flag & b)


class Aln:
    """A concrete alignment (one SAM line)."""

    __slots__ = ("qname", "flag", "contig", "pos", "mapq", "cigar", "seq", "qual", "rg", "md", "rnext", "pnext", "tlen", "tags", "note")

    def __init__(self, qname, flag, contig, pos, mapq, cigar, seq, qual, rg=None, md=None, tags=None, note=None):
        self.qname = qname
        self.flag = flag
        self.contig = contig
        self.pos = pos  # 0-based
        self.mapq = mapq
        self.cigar = cigar  # list of (op_char, length); [] for '*'
        self.seq = seq
        self.qual = qual  # list of ints (phred)
        self.rg = rg
        self.md = md
        self.rnext = "*"
        self.pnext = -1
        self.tlen = 0
        self.tags = tags or []
        self.note = note  # free text describing the chosen shape

    def ref_len(self):
        return sum(n for op, n in self.cigar if op in "MDN=X")

    def end(self):
        return self.pos + self.ref_len()

    def cigar_string(self):
        return "".join("%d%s" % (n, op) for op, n in self.cigar) or "*"

    def sam(self):
        f = [
            self.qname,
            str(self.flag),
            self.contig or "*",
            str(self.pos + 1),
            str(self.mapq),
            self.cigar_string(),
            self.rnext,
            str(self.pnext + 1),
            str(self.tlen),
            self.seq or "*",
            "".join(chr(33 + q) for q in self.qual) if self.seq else "*",
        ]
        if self.rg is not None:
            f.append("RG:Z:%s" % self.rg)
        if self.md is not None:
            f.append("MD:Z:%s" % self.md)
        f.extend(self.tags)
        return "\t".join(f)


# ----------------------------------------------------------------------------
# MD
# ----------------------------------------------------------------------------
def md_tag(ref, pos, cigar, seq):
    """MD string of an alignment of `seq` at `pos` (0-based) against `ref` (a str, or
    a callable position -> base) following the SAM specification."""
    get = ref if callable(ref) else (lambda i: ref[i])
    out = []
    run = 0
    r = pos
    q = 0
    for op, n in cigar:
        if op in "M=X":
            for _ in range(n):
                rb = get(r).upper()
                if seq[q].upper() == rb:
                    run += 1
                else:
                    out.append(str(run))
                    out.append(rb)
                    run = 0
                r += 1
                q += 1
        elif op == "D":
            out.append(str(run))
            out.append("^" + "".join(get(r + i).upper() for i in range(n)))
            run = 0
            r += n
        elif op == "N":
            r += n
        elif op in "IS":
            q += n
        # H, P: nothing
    out.append(str(run))
    return "".join(out)


# ----------------------------------------------------------------------------
# file writers
# ----------------------------------------------------------------------------
def write_fasta(path, contigs, width=60):
    """contigs: dict name -> sequence.  Writes FASTA + .fai (pysam.faidx)."""
    with open(path, "w") as fh:
        for name, seq in contigs.items():
            fh.write(">%s\n" % name)
            for i in range(0, len(seq), width):
                fh.write(seq[i : i + width] + "\n")
    if os.path.exists(path + ".fai"):
        os.remove(path + ".fai")
    pysam.faidx(path)
    return path


def write_bed(path, loci):
    """loci: list of (contig, start, stop[, name])."""
    with open(path, "w") as fh:
        for l in loci:
            fh.write("\t".join(str(x) for x in l) + "\n")
    return path


def bgzip_tabix(path, preset="vcf"):
    gz = path + ".gz"
    for p in (gz, gz + ".tbi"):
        if os.path.exists(p):
            os.remove(p)
    pysam.tabix_compress(path, gz, force=True)
    pysam.tabix_index(gz, preset=preset, force=True)
    return gz


def write_snv_vcf(path, contigs, snvs, compress=True):
    """contigs: dict name -> length; snvs: list of (contig, pos0, ref, alts) sorted by
    (contig order, pos).  Returns the path of the bgzipped, tabix-indexed file."""
    with open(path, "w") as fh:
        fh.write("##fileformat=VCFv4.3\n")
        for name, ln in contigs.items():
            fh.write("##contig=<ID=%s,length=%d>\n" % (name, ln))
        fh.write("#CHROM\tPOS\tID\tREF\tALT\tQUAL\tFILTER\tINFO\n")
        for contig, pos, ref, alts in snvs:
            fh.write("%s\t%d\t.\t%s\t%s\t.\t.\t.\n" % (contig, pos + 1, ref, ",".join(alts) if alts else "."))
    return bgzip_tabix(path) if compress else path


def write_text_vcf(path, text, compress=True):
    """Write a complete VCF text (header + records) and bgzip/tabix it."""
    with open(path, "w") as fh:
        fh.write(text)
    return bgzip_tabix(path) if compress else path


def sam_header(contigs, read_groups):
    lines = ["@HD\tVN:1.6\tSO:coordinate"]
    for name, ln in contigs.items():
        lines.append("@SQ\tSN:%s\tLN:%d" % (name, ln))
    for rg in read_groups:
        d = dict(rg)
        items = ["ID:%s" % d.pop("ID")] + ["%s:%s" % kv for kv in d.items()]
        lines.append("@RG\t" + "\t".join(items))
    return "\n".join(lines) + "\n"


def write_bam(path, contigs, read_groups, alns, sort="python", keep_sam=False):
    """Write a coordinate-sorted, indexed BAM.

    contigs: dict name -> length (order = tid order); read_groups: list of dicts with at
    least ID and SM; alns: list of Aln.  sort="python": records are ordered here by
    (tid, pos) with a stable sort (file order of equal positions = list order) and written
    once; sort="pysam": written unsorted and passed through pysam.sort.
    Returns the list of Aln in file order (sort="python") or None.
    """
    header = pysam.AlignmentHeader.from_text(sam_header(contigs, read_groups))
    tid = {n: i for i, n in enumerate(contigs)}
    for p in (path, path + ".bai"):
        if os.path.exists(p):
            os.remove(p)
    ordered = None
    if sort == "python":
        ordered = sorted(alns, key=lambda a: (tid.get(a.contig, 1 << 30), a.pos))
        with pysam.AlignmentFile(path, "wb", header=header) as out:
            for a in ordered:
                out.write(pysam.AlignedSegment.fromstring(a.sam(), header))
    else:
        tmp = path + ".unsorted.bam"
        with pysam.AlignmentFile(tmp, "wb", header=header) as out:
            for a in alns:
                out.write(pysam.AlignedSegment.fromstring(a.sam(), header))
        pysam.sort("-o", path, tmp)
        os.remove(tmp)
    pysam.index(path)
    if keep_sam:
        with open(path[:-4] + ".sam" if path.endswith(".bam") else path + ".sam", "w") as fh:
            fh.write(sam_header(contigs, read_groups))
            for a in ordered or alns:
                fh.write(a.sam() + "\n")
    return ordered


# ----------------------------------------------------------------------------
# geometry
# ----------------------------------------------------------------------------
class Geometry:
    """One contig with one locus [start, stop) and target sites inside it."""

    def __init__(self, contig, ref, start, stop, sites):
        self.contig = contig
        self.ref = ref
        self.start = start
        self.stop = stop
        self.sites = list(sites)

    @classmethod
    def build(cls, rng, site_refs, contig="chr1", spacing=(7, 11), margin=(5, 9), flank=(16, 22)):
        """Random reference with the given reference bases at the sites.  Sites are at
        least spacing[0] apart, at least margin[0] inside the locus, and the locus has
        flanks of at least flank[0] bases on both sides."""
        n = len(site_refs)
        lf = rng.randint(*flank)
        start = lf
        pos = start + rng.randint(*margin)
        sites = []
        for j in range(n):
            sites.append(pos)
            if j < n - 1:
                pos += rng.randint(*spacing)
        stop = sites[-1] + 1 + rng.randint(*margin) if n else start + rng.randint(8, 14)
        length = stop + rng.randint(*flank)
        ref = [rng.choice(BASES) for _ in range(length)]
        # avoid homopolymer runs (so that shifted CIGAR arithmetic is visible)
        for i in range(1, length):
            if ref[i] == ref[i - 1]:
                ref[i] = rng.choice([b for b in BASES if b != ref[i - 1]])
        for p, b in zip(sites, site_refs):
            ref[p] = b
        return cls(contig, "".join(ref), start, stop, sites)

    def as_dict(self):
        return {"contig": self.contig, "ref": self.ref, "start": self.start, "stop": self.stop, "sites": self.sites}


def _other(rng, b, exclude=""):
    return rng.choice([x for x in BASES if x != b and x not in exclude])


def _rand_seq(rng, n):
    return "".join(rng.choice(BASES) for _ in range(n))


def _is_none(c):
    return c in NONE


# ----------------------------------------------------------------------------
# abstract -> concrete
# ----------------------------------------------------------------------------
def realise(a, geom, rng, min_qual=30, max_qual=40, plain=False, allow_clips=True, allow_indels=True):
    """Concretise one abstract alignment (dict, see module docstring) on `geom`.

    Keys used: qname, rg, flags (names from FLAG_BITS), mapq, cells (one entry per
    geom.sites; None/"none"/"-" = not aligned there, otherwise the read base), refok
    (optional, default all True; False = the MD tag implies some other reference base
    there), claimed (optional, per site: the exact reference base the MD tag should imply),
    overlap (optional; only consulted when every cell is none: should the aligned span
    still intersect the locus?).
    plain=True restricts the shapes to M-only reads without decorations.
    """
    cells = [None if _is_none(c) else c for c in a["cells"]]
    n = len(cells)
    assert n == len(geom.sites)
    refok = list(a.get("refok") or [True] * n)
    flags = set(a.get("flags", ()))
    flag = flag_int(flags)
    ref = geom.ref
    qname, rg, mapq = a["qname"], a.get("rg"), a["mapq"]

    if "unmapped" in flags and all(c is None for c in cells):
        # placed unmapped read (as aligners emit for the unmapped mate of a pair); an "unmapped" record
        # with calls is realised below as a record that carries flag 0x4 together with a CIGAR
        ln = rng.randint(6, 12)
        pos = rng.randint(geom.start, geom.stop - 1)
        seq = _rand_seq(rng, ln)
        return Aln(qname, flag, geom.contig, pos, mapq, [], seq, [rng.randint(min_qual, max_qual) for _ in seq], rg, None, note="unmapped-placed")

    aligned = [j for j in range(n) if cells[j] is not None]
    if not aligned:
        overlap = a.get("overlap", True)
        if not overlap:
            return _outside(a, geom, rng, flag, min_qual, max_qual, plain)
        shapes = ["between"] if plain else ["between", "between", "skip"]
        if n == 0:
            shapes = ["between"]
        shape = rng.choice(shapes)
        if shape == "between":
            # a read inside the locus covering no site (or straddling a locus edge)
            gaps = []
            bounds = [geom.start - 6] + geom.sites + [geom.stop + 6]
            for k in range(len(bounds) - 1):
                lo = bounds[k] + 1 if k > 0 else bounds[k]
                hi = bounds[k + 1]  # exclusive
                lo2, hi2 = max(lo, 0), min(hi, len(ref))
                if hi2 - lo2 >= 3:
                    gaps.append((lo2, hi2))
            lo, hi = rng.choice(gaps)
            for _ in range(50):
                s = rng.randint(lo, hi - 2)
                e = rng.randint(s + 2, hi)
                if s < geom.stop and e > geom.start:
                    break
            else:  # boundary reads: last base on start / first base on stop-1
                s, e = geom.start - 3, geom.start + 1
            return _build(a, geom, rng, flag, s, e, {}, min_qual, max_qual, plain, "between", allow_clips, allow_indels)
        # skip: span sites lo..hi with D / N over every one of them
        lo = rng.randint(0, n - 1)
        hi = rng.randint(lo, n - 1)
        dele = {j: rng.choice("DN") for j in range(lo, hi + 1)}
        s = geom.sites[lo] - rng.randint(3, 5)
        e = geom.sites[hi] + 1 + rng.randint(3, 5)
        return _build(a, geom, rng, flag, s, e, dele, min_qual, max_qual, plain, "skip", allow_clips, allow_indels)

    first, last = aligned[0], aligned[-1]
    lo, hi = first, last
    dele = {}
    if not plain:
        # none sites before `first` / after `last`: not reached, or reached and deleted/skipped
        while lo > 0 and rng.random() < 0.3:
            lo -= 1
        while hi < n - 1 and rng.random() < 0.3:
            hi += 1
    for j in range(lo, hi + 1):
        if cells[j] is None:
            if plain:
                raise ValueError("plain reads cannot have an internal none cell")
            dele[j] = rng.choice("DN")
    prev_site = geom.sites[lo - 1] if lo > 0 else -1
    next_site = geom.sites[hi + 1] if hi < n - 1 else len(ref)
    if lo in dele:
        s_hi = geom.sites[lo] - 3
    else:
        s_hi = geom.sites[lo]
    s_lo = max(prev_site + 1, geom.sites[lo] - 9, 0)
    s = rng.randint(min(s_lo, s_hi), s_hi)
    if hi in dele:
        e_lo = geom.sites[hi] + 4
    else:
        e_lo = geom.sites[hi] + 1
    e_hi = min(next_site, geom.sites[hi] + 10, len(ref))
    e = rng.randint(e_lo, max(e_lo, e_hi))
    if e - s < 2:
        # pysam 0.24 returns garbage from AlignedSegment.qual for 1-base reads: never generate them
        if e < min(next_site, len(ref)):
            e += 1
        else:
            s -= 1
    return _build(a, geom, rng, flag, s, e, dele, min_qual, max_qual, plain, "cover", allow_clips, allow_indels)


def _outside(a, geom, rng, flag, min_qual, max_qual, plain):
    ref = geom.ref
    left = rng.random() < 0.5
    if left:
        e = geom.start - rng.choice([0, 0, 1, 2, 5])  # end (exclusive) <= start: boundary included
        s = max(0, e - rng.randint(4, 10))
    else:
        s = geom.stop + rng.choice([0, 0, 1, 2, 5])
        e = min(len(ref), s + rng.randint(4, 10))
    al = _build(a, geom, rng, flag, s, e, {}, min_qual, max_qual, plain, "outside", allow_clips=not plain, allow_indels=not plain, clip_toward_locus=True)
    return al


def _build(a, geom, rng, flag, s, e, dele, min_qual, max_qual, plain, shape, allow_clips=True, allow_indels=True, clip_toward_locus=False):
    """Alignment over the reference span [s, e): M everywhere except a D/N run over each
    site in `dele` (site index -> 'D'|'N'); aligned sites carry their cell base."""
    ref = geom.ref
    cells = [None if _is_none(c) else c for c in a["cells"]]
    refok = list(a.get("refok") or [True] * len(cells))
    site_at = {p: j for j, p in enumerate(geom.sites)}
    ops = ["M"] * (e - s)
    for j, op in dele.items():
        p = geom.sites[j]
        l = rng.randint(0, 2)
        r = rng.randint(0, 2)
        a0 = max(p - l, s + 1)
        a1 = min(p + r, e - 2)
        for x in range(a0, a1 + 1):
            if x != p and x in site_at:
                continue
            ops[x - s] = op
        ops[p - s] = op
    # a D run must not touch an N run: separate with an M if that happens (cannot with spacing >= 7)
    claimed = {}
    seq = []
    cig = []

    def push(op, k=1):
        if cig and cig[-1][0] == op:
            cig[-1][1] += k
        else:
            cig.append([op, k])

    use_eqx = (not plain) and rng.random() < 0.12
    ins_budget = 0 if (plain or not allow_indels) else rng.choice([0, 0, 1, 1, 2])
    mpos = [x for x in range(s, e - 1) if ops[x - s] == "M" and ops[x + 1 - s] == "M"]
    ins_after = set()
    # prefer insertions directly before / after a site (the anchor cases)
    near = [x for x in mpos if (x in site_at or x + 1 in site_at)]
    for _ in range(ins_budget):
        pool_ = near if (near and rng.random() < 0.6) else mpos
        if pool_:
            ins_after.add(rng.choice(pool_))
    for x in range(s, e):
        op = ops[x - s]
        if op == "M":
            j = site_at.get(x)
            if j is not None and s <= x < e and cells[j] is not None:
                b = cells[j]
                forced = (a.get("claimed") or [None] * len(cells))[j]
                if forced:
                    claimed[x] = forced
                elif not refok[j]:
                    claimed[x] = _other(rng, ref[x])
            elif j is not None:
                raise AssertionError("site %d aligned but cell is none" % j)
            else:
                u = rng.random()
                if plain or u < 0.86:
                    b = ref[x]
                elif u < 0.97:
                    b = _other(rng, ref[x])
                else:
                    b = "N"
            seq.append(b)
            cref = claimed.get(x, ref[x])
            if use_eqx:
                push("=" if b == cref else "X")
            else:
                push("M")
            if x in ins_after:
                k = rng.randint(1, 3)
                seq.extend(_rand_seq(rng, k))
                push("I", k)
        else:
            push(op)
    # clips
    lead = trail = ""
    hl = ht = 0
    if not plain and allow_clips:
        if rng.random() < 0.3:
            lead = _rand_seq(rng, rng.randint(1, 6))
        if rng.random() < 0.3:
            trail = _rand_seq(rng, rng.randint(1, 6))
        if rng.random() < 0.1:
            hl = rng.randint(1, 5)
        if rng.random() < 0.1:
            ht = rng.randint(1, 5)
        if clip_toward_locus:
            # make the clipped part long enough to reach into the locus if it were aligned
            if e <= geom.start:
                trail = _rand_seq(rng, geom.start - e + rng.randint(2, 6))
            elif s >= geom.stop:
                lead = _rand_seq(rng, s - geom.stop + rng.randint(2, 6))
    cigar = []
    if hl:
        cigar.append(("H", hl))
    if lead:
        cigar.append(("S", len(lead)))
    cigar.extend((op, k) for op, k in cig)
    if trail:
        cigar.append(("S", len(trail)))
    if ht:
        cigar.append(("H", ht))
    core = "".join(seq)
    full = lead + core + trail
    md = md_tag(lambda i: claimed.get(i, ref[i]), s, [(op, k) for op, k in cig], core)
    qual = [rng.randint(min_qual, max_qual) for _ in full]
    note = "%s s=%d e=%d del=%s ins=%d clips=%d/%d/%d/%d eqx=%d" % (
        shape, s, e, "".join(dele[j] for j in sorted(dele)), len(ins_after), hl, len(lead), len(trail), ht, use_eqx)
    return Aln(a["qname"], flag, geom.contig, s, a["mapq"], cigar, full, qual, a.get("rg"), md, note=note)


def pair_up(alns):
    """Set mate fields (RNEXT/PNEXT/mate flags, read1/read2) for qnames that have exactly two
    primary alignments flagged paired; other paired alignments keep '*' mates."""
    by = {}
    for a in alns:
        if a.flag & 0x1 and not a.flag & 0x900:
            by.setdefault(a.qname, []).append(a)
    for q, pr in by.items():
        if len(pr) != 2:
            for a in pr:
                if not a.flag & 0xC0:
                    a.flag |= 0x40
                a.flag |= 0x8  # mate unmapped / absent
            continue
        x, y = pr
        for me, mate, bit in ((x, y, 0x40), (y, x, 0x80)):
            me.flag = (me.flag & ~0xC0) | bit
            me.rnext = "="
            me.pnext = mate.pos
            if mate.flag & 0x10:
                me.flag |= 0x20
            if mate.flag & 0x4:
                me.flag |= 0x8
        lo = min(x.pos, y.pos)
        hi = max(x.end() if x.cigar else x.pos, y.end() if y.cigar else y.pos)
        first = x if x.pos <= y.pos else y
        for me in (x, y):
            me.tlen = (hi - lo) if me is first else -(hi - lo)
    return alns


# ----------------------------------------------------------------------------
# free-form random alignments (code -> spec direction)
# ----------------------------------------------------------------------------
def random_alignment(rng, geom, qname, rg, length=(12, 40), flag_probs=None, mapqs=(0, 5, 19, 20, 21, 30, 60, 254, 255),
                     wrong_md_prob=0.0, min_qual=30, max_qual=40, snp_bases=None):
    """A random alignment on geom.contig: random start, random CIGAR over M/I/D/N/=/X with
    optional S/H clips, sequence = reference with mutations, flags drawn independently.
    snp_bases: optional dict ref_pos -> list of bases to draw from at that position.
    wrong_md_prob: probability that the MD tag claims a wrong reference base at one aligned position."""
    ref = geom.ref
    fp = {"dup": 0.1, "qcfail": 0.1, "supp": 0.1, "secondary": 0.08, "reverse": 0.5, "paired": 0.3}
    if flag_probs:
        fp.update(flag_probs)
    names = [k for k, p in fp.items() if rng.random() < p]
    flag = flag_int(names)
    target = rng.randint(*length)
    s = rng.randint(0, max(0, len(ref) - 8))
    r = s
    cig = []
    seq = []

    def push(op, k):
        if cig and cig[-1][0] == op:
            cig[-1] = (op, cig[-1][1] + k)
        else:
            cig.append((op, k))

    eqx = rng.random() < 0.15
    last = None
    while r - s < target and r < len(ref) - 1:
        u = rng.random()
        if u < 0.8 or last in ("I", "D", "N") or not cig:
            k = min(rng.randint(1, 9), len(ref) - r)
            for i in range(k):
                rb = ref[r + i]
                if snp_bases and (r + i) in snp_bases:
                    b = rng.choice(snp_bases[r + i])
                else:
                    v = rng.random()
                    b = rb if v < 0.9 else ("N" if v > 0.985 else _other(rng, rb))
                seq.append(b)
                push(("=" if b == rb else "X") if eqx else "M", 1)
            r += k
            last = "M"
        elif u < 0.87:
            k = rng.randint(1, 3)
            seq.extend(_rand_seq(rng, k))
            push("I", k)
            last = "I"
        elif u < 0.95:
            k = min(rng.randint(1, 4), len(ref) - r - 1)
            if k > 0:
                push("D", k)
                r += k
                last = "D"
        else:
            k = min(rng.randint(2, 8), len(ref) - r - 1)
            if k > 0:
                push("N", k)
                r += k
                last = "N"
    # must end with an M-like operator
    while cig and cig[-1][0] in "IDN":
        op, k = cig.pop()
        if op == "I":
            del seq[-k:]
    if not cig:
        cig = [("M", 1)]
        seq = [ref[s]]
    core = "".join(seq)
    claimed = {}
    if rng.random() < wrong_md_prob:
        # claim a wrong reference base somewhere under an M-like operator
        mpos = []
        rr = s
        for op, k in cig:
            if op in "M=X":
                mpos.extend(range(rr, rr + k))
            if op in "MDN=X":
                rr += k
        at_snv = [x for x in mpos if snp_bases and x in snp_bases]
        x = rng.choice(at_snv or mpos)
        claimed[x] = _other(rng, ref[x])
    md = md_tag(lambda i: claimed.get(i, ref[i]), s, cig, core)
    lead = _rand_seq(rng, rng.randint(1, 5)) if rng.random() < 0.25 else ""
    trail = _rand_seq(rng, rng.randint(1, 5)) if rng.random() < 0.25 else ""
    cigar = ([("H", rng.randint(1, 4))] if rng.random() < 0.08 else []) + ([("S", len(lead))] if lead else []) + cig + (
        [("S", len(trail))] if trail else []) + ([("H", rng.randint(1, 4))] if rng.random() < 0.08 else [])
    full = lead + core + trail
    if len(full) < 2:  # see module docstring (1-base reads)
        return random_alignment(rng, geom, qname, rg, length, flag_probs, mapqs, wrong_md_prob, min_qual, max_qual, snp_bases)
    qual = [rng.randint(min_qual, max_qual) for _ in full]
    return Aln(qname, flag, geom.contig, s, rng.choice(mapqs), cigar, full, qual, rg, md, note="random")


def seeded(*parts):
    """A random.Random seeded reproducibly from the given parts (ints / strings)."""
    return random.Random("|".join(str(p) for p in parts))
