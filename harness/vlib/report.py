"""Verdict bookkeeping: violations, known findings, evidence files."""
import json
import os
import sys
import time

from . import env


class Check:
    """Accumulates coverage and violations for one property run."""

    def __init__(self, pid, level="model_checking"):
        self.pid = pid
        self.level = level
        self.t0 = time.time()
        self.tier = env.tier()
        self.seed = env.seed()
        self.states = 0
        self.transitions = 0
        self.traces = 0
        self.evaluations = 0
        self.nontrivial = 0
        self.samples = []
        self.extra = {}
        self.assumptions = []
        self.violations = []  # dicts
        self.known_hits = []
        self.exhaustive = None
        self.rule = ""
        self.wd = env.workdir(pid)
        self._known = load_known(pid)
        self._n = 0
        self.parts = {}
        rp = os.environ.get("VERIF_REPLAY")
        own = False
        try:
            own = "VERIF_REPLAY" in open(sys.argv[0]).read()
        except Exception:
            pass
        if rp and os.path.exists(rp) and not own:
            # checks without an instance-level replay re-run completely; the recorded violation is shown first and the
            # evidence of the last regular run is left untouched
            try:
                with open(rp) as fh:
                    print("REPLAY of %s:\n%s\n(re-running the whole %s check, which regenerates this instance deterministically for the same VERIF_SEED)"
                          % (rp, fh.read()[:3000], pid), flush=True)
            except Exception:
                pass
            env.EVIDENCE = os.path.join(self.wd, "replay-evidence")

    # ---- coverage -------------------------------------------------
    def add_tlc(self, res, label=None):
        self.states += res.distinct
        self.transitions += res.generated
        if label:
            self.parts[label] = {
                "distinct_states": res.distinct,
                "states_generated": res.generated,
                "depth": res.depth,
                "wall_s": round(res.wall, 2),
            }
            if res.coverage:
                self.parts[label]["action_coverage"] = {
                    k: {"distinct": v[0], "total": v[1]} for k, v in res.coverage.items()
                }

    def sample(self, s, cap=6):
        if len(self.samples) < cap:
            self.samples.append(s)

    def note(self, key, value):
        self.extra[key] = value

    def bump(self, key, n=1):
        self.extra[key] = self.extra.get(key, 0) + n

    # ---- verdicts -------------------------------------------------
    def violation(self, kind, detail, key=None):
        """Record a violation.  `key` identifies the failing input / call site for
        the known-findings file; a listed key is reported as KNOWN-FINDING."""
        for k in self._known:
            if k.get("status", "open") != "open":
                continue
            if key is not None and key_matches(k, key, kind):
                if k["id"] not in [h["id"] for h in self.known_hits]:
                    self.known_hits.append({"id": k["id"], "what": k["what"], "n": 1})
                else:
                    for h in self.known_hits:
                        if h["id"] == k["id"]:
                            h["n"] += 1
                return False
        self._n += 1
        path = os.path.join(self.wd, "violation-%d.json" % self._n)
        rec = {"property": self.pid, "kind": kind, "key": key, "detail": detail}
        if self._n <= 25:
            with open(path, "w") as fh:
                json.dump(rec, fh, indent=1, default=str)
            print("VIOLATION property=%s replay=%s" % (self.pid, path), flush=True)
            print("  kind=%s key=%s" % (kind, key), flush=True)
            print("  " + json.dumps(detail, default=str)[:600], flush=True)
        self.violations.append(rec if self._n <= 25 else {"kind": kind, "key": key})
        return True

    def machinery_failure(self, msg):
        import re as _re

        m = _re.search(r"\[IMPL-EXCEPTION site=(\S+) exc=(\w+)\]", str(msg))
        if m:
            # the tree under test raised on an input the harness considers valid (see vlib/pool.py)
            self.violation("impl-exception", {"message": str(msg)[:2000]}, key={"site": m.group(1), "exc": m.group(2)})
            self.finish()
        if self.violations:
            # violations of the property were already established on this tree: they are the verdict; a later step of the
            # harness that cannot complete on such a tree (e.g. a demonstration built from its recorded traces) is noted
            print("NOTE property=%s: later harness step did not complete on the violating tree: %s" % (self.pid, str(msg)[:600]), flush=True)
            self.extra["incomplete_step_after_violations"] = str(msg)[:600]
            self.finish()
        print("MACHINERY-FAILURE property=%s: %s" % (self.pid, msg), file=sys.stderr, flush=True)
        self.write_evidence(status="machinery_failure")
        sys.exit(2)

    # ---- output ---------------------------------------------------
    def write_evidence(self, status=None):
        cov = {
            "states": int(self.states),
            "transitions": int(self.transitions),
            "traces_validated_against_impl": int(self.traces),
            "samples": self.samples or ["(no sample recorded)"],
            "evaluations": int(self.evaluations),
            "distinct_nontrivial": int(self.nontrivial),
            "rule": self.rule,
            "tlc_runs": self.parts,
            "tree_hash": env.tree_hash(),
        }
        if self.exhaustive is not None:
            cov["exhaustive"] = bool(self.exhaustive)
        cov.update(self.extra)
        ev = {
            "property_id": self.pid,
            "tier": self.tier,
            "seed": self.seed,
            "level": self.level,
            "coverage": cov,
            "assumptions": self.assumptions,
            "wall_s": round(time.time() - self.t0, 2),
            "violations": len(self.violations),
            "known_findings_hit": self.known_hits,
        }
        if status:
            ev["status"] = status
        os.makedirs(env.EVIDENCE, exist_ok=True)
        tmp = os.path.join(env.EVIDENCE, self.pid + ".json.tmp")
        with open(tmp, "w") as fh:
            json.dump(ev, fh, indent=1, default=str)
        os.replace(tmp, os.path.join(env.EVIDENCE, self.pid + ".json"))

    def finish(self):
        for h in self.known_hits:
            print("KNOWN-FINDING: property=%s %s (%d cases; %s)" % (self.pid, h["what"], h["n"], h["id"]), flush=True)
        self.write_evidence()
        if self.violations:
            print("FAIL property=%s violations=%d" % (self.pid, len(self.violations)), flush=True)
            sys.exit(1)
        print(
            "OK property=%s tier=%s states=%d transitions=%d traces=%d evals=%d wall=%.1fs"
            % (self.pid, self.tier, self.states, self.transitions, self.traces, self.evaluations, time.time() - self.t0),
            flush=True,
        )
        sys.exit(0)


def load_known(pid):
    p = os.path.join(env.VERIF, "KNOWN_FINDINGS.json")
    if not os.path.exists(p):
        return []
    with open(p) as fh:
        data = json.load(fh)
    return [k for k in data.get("findings", []) if k.get("property") == pid]


def key_matches(k, key, kind):
    """A known finding lists `match`: dict of field -> value that must all be equal
    in the violation key (keys are dicts)."""
    m = k.get("match")
    if not isinstance(m, dict) or not isinstance(key, dict):
        return False
    if "kind" in m and m["kind"] != kind:
        return False
    for f, v in m.items():
        if f == "kind":
            continue
        if key.get(f) != v:
            return False
    return True
