"""Run implementation-side jobs in subprocesses that import the tree under test.

A job module lives in harness/impl/<name>.py and exposes `run(task) -> result`
(JSON-able).  Workers are started with the jit or py (NUMBA_DISABLE_JIT=1)
environment and fed tasks over stdin/stdout as JSON lines.
"""
import json
import os
import subprocess
import sys
import threading

from . import env

_BOOT = r"""
import sys, json, importlib, traceback, os
import numpy as np
np.seterr(all="ignore")
import warnings
warnings.simplefilter("ignore")
mod = importlib.import_module(sys.argv[1])
out = sys.stdout
sys.stdout = sys.stderr
if hasattr(mod, "setup"):
    mod.setup()
for line in sys.stdin:
    task = json.loads(line)
    try:
        res = {"ok": True, "result": mod.run(task)}
    except Exception as e:
        res = {"ok": False, "error": "%s: %s" % (type(e).__name__, e), "tb": traceback.format_exc()[-3000:]}
        try:
            # an exception raised INSIDE the tree under test (innermost frame under $VERIF_TREE/mchap) on a task the
            # harness considers valid is a verdict about that tree, not a machinery failure: mark it
            fr = traceback.extract_tb(e.__traceback__)[-1]
            root = os.path.realpath(os.environ.get("VERIF_TREE", "/repo")) + os.sep + "mchap" + os.sep
            fn = os.path.realpath(fr.filename)
            if fn.startswith(root):
                res["impl"] = True
                res["error"] += " [IMPL-EXCEPTION site=%s:%s exc=%s]" % (fn[len(root) - 6:], fr.name, type(e).__name__)
        except Exception:
            pass
    out.write(json.dumps(res, default=str) + "\n")
    out.flush()
"""


class WorkerError(Exception):
    pass


class Worker:
    def __init__(self, module, mode="jit", extra_env=None):
        e = env.impl_env(mode)
        if extra_env:
            e.update(extra_env)
        self.p = subprocess.Popen(
            [env.PY, "-c", _BOOT, module],
            stdin=subprocess.PIPE,
            stdout=subprocess.PIPE,
            stderr=subprocess.PIPE if os.environ.get("VERIF_QUIET_WORKERS", "1") == "1" else None,
            env=e,
            cwd=env.workdir("cwd"),
            text=True,
            bufsize=1,
        )
        self._err = []
        if self.p.stderr is not None:
            threading.Thread(target=self._drain, daemon=True).start()

    def _drain(self):
        for line in self.p.stderr:
            self._err.append(line)
            if len(self._err) > 400:
                del self._err[:200]

    def call(self, task):
        try:
            self.p.stdin.write(json.dumps(task) + "\n")
            self.p.stdin.flush()
            line = self.p.stdout.readline()
        except BrokenPipeError:
            line = ""
        if not line:
            try:
                rc = self.p.wait(timeout=5)
            except Exception:
                rc = "?"
            raise WorkerError("worker died (exit status %s): %s" % (rc, "".join(self._err[-40:])))
        return json.loads(line)

    def close(self):
        try:
            self.p.stdin.close()
            self.p.wait(timeout=20)
        except Exception:
            self.p.kill()


def map_tasks(module, tasks, mode="jit", nproc=None, extra_env=None, warm_first=True):
    """Run tasks (list of JSON-able) over a pool; returns list of
    {"ok":bool, "result"|"error"} in task order."""
    tasks = list(tasks)
    if not tasks:
        return []
    nproc = max(1, min(nproc or env.NCPU, len(tasks)))
    results = [None] * len(tasks)
    start = 0
    if mode == "jit" and warm_first and len(tasks) > 1:
        # one process compiles (and fills the on-disk numba cache) before fan-out
        w = Worker(module, mode, extra_env)
        try:
            results[0] = w.call(tasks[0])
        except WorkerError as e:
            # the implementation took the interpreter down (e.g. heap corruption after an out-of-bounds write
            # in compiled code): a verdict about the tree under test, not a machinery failure
            results[0] = {"ok": False, "crash": True, "error": "worker process died while executing the task: %s" % str(e)[-600:]}
        finally:
            w.close()
        start = 1
    it = iter(range(start, len(tasks)))
    lock = threading.Lock()
    errors = []

    def loop():
        try:
            w = Worker(module, mode, extra_env)
        except Exception as e:  # pragma: no cover
            errors.append(e)
            return
        try:
            while True:
                with lock:
                    i = next(it, None)
                if i is None:
                    break
                try:
                    results[i] = w.call(tasks[i])
                except WorkerError as e:
                    results[i] = {"ok": False, "crash": True, "error": "worker process died while executing the task: %s" % str(e)[-600:]}
                    w.close()
                    w = Worker(module, mode, extra_env)
        except Exception as e:
            errors.append(e)
        finally:
            w.close()

    ths = [threading.Thread(target=loop) for _ in range(nproc)]
    for t in ths:
        t.start()
    for t in ths:
        t.join()
    if errors:
        raise WorkerError(str(errors[0]))
    return results


