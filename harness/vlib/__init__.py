"""Shared machinery for the MCHap TLA+ conformance harness."""
