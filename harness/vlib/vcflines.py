"""Independent lexical reader for VCF text (C07 / C10).

Nothing here imports mchap or pysam: header lines and record lines are split
with str.split and classified with regular expressions, numbers are read with
`decimal`/`fractions`.  The result is the JSON record consumed by
spec/VcfRecord/TraceVcf.tla (see the comment at the top of VcfRecord.tla).
"""
import gzip
import re
from decimal import Decimal
from fractions import Fraction

_RE_INT = re.compile(r"^[+-]?\d+$")
_RE_NUM = re.compile(r"^[+-]?(\d+\.\d*|\.\d+|\d+)([eE][+-]?\d+)?$")
_RE_INF = re.compile(r"^([+-]?)(inf|infinity)$", re.I)
_RE_META = re.compile(r"^##(INFO|FORMAT|FILTER|contig)=<(.*)>\s*$")
WINDOW = 2000  # |value| < WINDOW is representable in micro-units inside TLC


def val(k, m=0, d=0):
    return {"k": k, "m": int(m), "d": int(d)}


def lex_value(tok):
    """One comma-separated token -> Val."""
    if tok == ".":
        return val("dot")
    if _RE_INT.match(tok):
        v = int(tok)
        if abs(v) >= 2**31 - 1:
            return val("big")
        return val("int", v)
    if _RE_NUM.match(tok):
        q = Fraction(Decimal(tok))
        d = max(0, -Decimal(tok).as_tuple().exponent)
        if abs(q) >= WINDOW:
            return val("big", 0, d)
        return val("dec", round(q * 1000000), d)
    m = _RE_INF.match(tok)
    if m:
        return val("inf", -1 if m.group(1) == "-" else 1)
    if tok.lower() in ("nan", "+nan", "-nan"):
        return val("nan")
    return val("str")


def _kv(body):
    """ID=..,Number=..,Type=..,Description="..." -> dict (quotes respected)."""
    out, key, cur, inq, i = {}, None, "", False, 0
    parts = []
    for ch in body:
        if ch == '"':
            inq = not inq
            cur += ch
        elif ch == "," and not inq:
            parts.append(cur)
            cur = ""
        else:
            cur += ch
    parts.append(cur)
    for p in parts:
        if "=" in p:
            k, v = p.split("=", 1)
            out[k.strip()] = v.strip().strip('"')
    return out


def parse_header(lines):
    """Header lines (with or without trailing newline) -> header record."""
    h = {"info": [], "format": [], "filters": [], "contigs": [], "samples": [], "fileformat": "", "ncol": 0}
    for n, line in enumerate(lines):
        line = line.rstrip("\n")
        if n == 0 and line.startswith("##fileformat="):
            h["fileformat"] = line.split("=", 1)[1]
        m = _RE_META.match(line)
        if m:
            kind, d = m.group(1), _kv(m.group(2))
            if kind in ("INFO", "FORMAT"):
                num = d.get("Number", "")
                if num in ("A", "R", "G", "."):
                    e = {"id": d.get("ID", ""), "num": num, "cnt": 0, "type": d.get("Type", "")}
                elif _RE_INT.match(num):
                    e = {"id": d.get("ID", ""), "num": "N", "cnt": int(num), "type": d.get("Type", "")}
                else:
                    e = {"id": d.get("ID", ""), "num": "?", "cnt": 0, "type": d.get("Type", "")}
                h["info" if kind == "INFO" else "format"].append(e)
            elif kind == "FILTER":
                h["filters"].append(d.get("ID", ""))
            else:
                h["contigs"].append(d.get("ID", ""))
        elif line.startswith("#CHROM"):
            cols = line.split("\t")
            h["ncol"] = len(cols)
            h["samples"] = cols[9:]
    return h


def split_text(text):
    """Whole output -> (header_lines, record_lines)."""
    hl, rl = [], []
    for line in text.split("\n"):
        if not line:
            continue
        (hl if line.startswith("#") else rl).append(line)
    return hl, rl


def lex_gt(tok):
    out = []
    for a in re.split(r"[/|]", tok):
        if a == ".":
            out.append(-1)
        elif re.match(r"^\d+$", a) and len(a) < 9:
            out.append(int(a))
        else:
            out.append(-2)
    return out


def split_record(line):
    """One record line -> rec (dict) or None if it has fewer than 8 columns."""
    cols = line.rstrip("\n").split("\t")
    if len(cols) < 8:
        return None
    chrom, pos, id_, ref, alt, qual, flt, info = cols[:8]
    rec = {
        "chrom": chrom,
        "pos": int(pos) if re.match(r"^\d+$", pos) and len(pos) < 10 else -1,
        "id": id_,
        # VCF 4.3 1.6.1: REF/ALT bases are case insensitive -> compared in upper case
        "ref": list(ref.upper()),
        "alts": [] if alt == "." else [list(a.upper()) for a in alt.split(",")],
        "qual": lex_value(qual),
        "filter": flt.split(";"),
        "info": [],
        "fmt": [],
        "samples": [],
        "gts": [],
    }
    if info != ".":
        for part in info.split(";"):
            if "=" in part:
                k, v = part.split("=", 1)
                rec["info"].append({"k": k, "flag": False, "v": [lex_value(t) for t in v.split(",")]})
            else:
                rec["info"].append({"k": part, "flag": True, "v": []})
    if len(cols) > 8:
        rec["fmt"] = cols[8].split(":")
        gi = rec["fmt"].index("GT") if "GT" in rec["fmt"] else None
        for col in cols[9:]:
            subs = col.split(":")
            rec["samples"].append([[lex_value(t) for t in s.split(",")] for s in subs])
            if gi is not None and gi < len(subs):
                rec["gts"].append(lex_gt(subs[gi]))
            else:
                rec["gts"].append([])
    return rec


def info_value(rec, key):
    for e in rec["info"]:
        if e["k"] == key:
            return e
    return None


# ---- plain readers for the input files (reference, variants) ---------------
def read_fasta(path):
    seqs, name = {}, None
    with open(path) as fh:
        for line in fh:
            line = line.strip()
            if line.startswith(">"):
                name = line[1:].split()[0]
                seqs[name] = []
            elif name is not None:
                seqs[name].append(line.upper())
    return {k: "".join(v) for k, v in seqs.items()}


def open_text(path):
    with open(path, "rb") as fh:
        magic = fh.read(2)
    if magic == b"\x1f\x8b":
        return gzip.open(path, "rt")
    return open(path)


def read_vcf_sites(path):
    """Input VCF (plain or bgzipped) -> list of site dicts in file order."""
    out = []
    with open_text(path) as fh:
        for line in fh:
            if line.startswith("#") or not line.strip():
                continue
            c = line.rstrip("\n").split("\t")
            out.append(
                {
                    "chrom": c[0],
                    "pos": int(c[1]),
                    "id": c[2],
                    "ref": c[3],
                    "alts": [] if c[4] == "." else c[4].split(","),
                    "info": c[7] if len(c) > 7 else ".",
                }
            )
    return out


def snvs_in_interval(sites, chrom, pos, end):
    """Single-base substitution sites of an SNV file inside [pos, end] (1-based,
    inclusive) -> [{"rel": relative 1-based position, "alleles": [chars]}], merged per position."""
    by = {}
    for s in sites:
        if s["chrom"] != chrom or not (pos <= s["pos"] <= end):
            continue
        alle = [s["ref"]] + s["alts"]
        if any(len(a) != 1 for a in alle):
            continue
        e = by.setdefault(s["pos"] - pos + 1, [])
        for a in alle:
            if a.upper() not in e:
                e.append(a.upper())
    return [{"rel": k, "alleles": by[k]} for k in sorted(by)]


def snvs_of_haplotype_site(site):
    """Input haplotype record -> positions where any listed allele differs from REF,
    with the characters seen there."""
    seqs = [site["ref"]] + [a for a in site["alts"] if len(a) == len(site["ref"])]
    out = []
    for i in range(len(site["ref"])):
        chars = []
        for s in seqs:
            if s[i].upper() not in chars:
                chars.append(s[i].upper())
        if len(chars) > 1:
            out.append({"rel": i + 1, "alleles": chars})
    return out
