"""Minimal VCF *writer* used to render abstract (model) records into real files.

Pure text: nothing here goes through pysam's record API, so shapes that
`header.new_record` refuses (ALT-less records, `SNVPOS=.`) can be written.
Compression / indexing uses pysam.tabix_compress + pysam.tabix_index (there is no
bcftools / bgzip binary in the sandbox).

API (keep it small):

    hdr  = header(contigs=[("CHR1", 60)], info=["SNVPOS", ("RF", "R", "Float", "x")],
                  fmt=["GT", "SQ", "ACP"], filters=["NOA"], samples=["S1", "S2"])
    line = record("CHR1", 6, "ACA", ["AGA"], info=[("SNVPOS", [2]), ("REFMASKED", True)],
                  fmt=["GT", "ACP"], samples=[{"GT": "0/1", "ACP": [1.25, 0.75]}, {...}],
                  id="L1", filt="PASS")
    path = write(path, hdr + line1 + line2)          # ".vcf" plain;  ".vcf.gz" -> bgzip + .tbi

* field definitions: a known MCHap ID (see INFO_DEFS / FORMAT_DEFS) or a tuple
  (ID, Number, Type, Description);
* values: None -> ".", True -> flag, list/tuple -> comma joined (None entries -> "."),
  float -> shortest repr without trailing zeros (`num`), everything else str();
* `record` does not validate anything on purpose (the generator must be able to write
  every shape the model contains).
"""
import os

INFO_DEFS = {
    "AN": ("1", "Integer", "Total number of alleles in called genotypes"),
    "UAN": ("1", "Integer", "Total number of unique alleles in called genotypes"),
    "AC": ("A", "Integer", "Allele count in genotypes, for each ALT allele, in the same order as listed"),
    "REFMASKED": ("0", "Flag", "Reference allele is masked"),
    "NS": ("1", "Integer", "Number of samples with data"),
    "MCI": ("1", "Integer", "Number of samples with incongruent Markov chain replicates"),
    "DP": ("1", "Integer", "Combined depth across samples"),
    "RCOUNT": ("1", "Integer", "Total number of observed reads across all samples"),
    "END": ("1", "Integer", "End position on CHROM"),
    "NVAR": ("1", "Integer", "Number of input variants within assembly locus"),
    "SNVPOS": (".", "Integer", "Relative (1-based) positions of SNVs within haplotypes"),
    "AFPRIOR": ("R", "Float", "Prior allele frequencies"),
    "ACP": ("R", "Float", "Posterior allele counts"),
    "AFP": ("R", "Float", "Posterior mean allele frequencies"),
    "AOP": ("R", "Float", "Posterior probability of allele occurring across all samples"),
    "AOPSUM": ("R", "Float", "Posterior estimate of the number of samples containing an allele"),
    "SNVDP": (".", "Integer", "Read depth at each SNV position"),
}

FORMAT_DEFS = {
    "GT": ("1", "String", "Genotype"),
    "GQ": ("1", "Integer", "Genotype quality"),
    "SQ": ("1", "Integer", "Genotype support quality"),
    "DP": ("1", "Integer", "Read depth"),
    "RCOUNT": ("1", "Integer", "Total count of read pairs within haplotype interval"),
    "RCALLS": ("1", "Integer", "Total count of read base calls matching a known variant"),
    "MEC": ("1", "Integer", "Minimum error correction"),
    "MECP": ("1", "Float", "Minimum error correction proportion"),
    "GPM": ("1", "Float", "Genotype posterior mode probability"),
    "SPM": ("1", "Float", "Genotype support posterior mode probability"),
    "MCI": ("1", "Integer", "Replicate Markov-chain incongruence, 0 = none, 1 = incongruence, 2 = putative CNV"),
    "ACP": ("R", "Float", "Posterior allele counts"),
    "AFP": ("R", "Float", "Posterior mean allele frequencies"),
    "AOP": ("R", "Float", "Posterior probability of allele occurring"),
    "GP": ("G", "Float", "Genotype posterior probabilities"),
    "GL": ("G", "Float", "Genotype likelihoods"),
    "SNVDP": (".", "Integer", "Read depth at each SNV position"),
}

FILTER_DEFS = {
    "PASS": "All filters passed",
    "NOA": "No observed alleles at locus",
    "AF0": "All alleles have prior allele frequency of zero",
}


def num(x):
    """Number -> shortest text: ints as ints, floats without trailing zeros."""
    if isinstance(x, bool):
        raise TypeError("flag where a number is expected")
    if isinstance(x, int):
        return str(x)
    if isinstance(x, float):
        if x == int(x) and abs(x) < 1e15:
            return str(int(x))
        return repr(x)
    return str(x)


def value(v):
    if v is None:
        return "."
    if isinstance(v, (list, tuple)):
        return ",".join(value(x) for x in v) if len(v) else "."
    if isinstance(v, (int, float)) and not isinstance(v, bool):
        return num(v)
    return str(v)


def _def_line(kind, d, table):
    if isinstance(d, str):
        number, typ, desc = table[d]
        ident = d
    else:
        ident, number, typ, desc = d
    return '##%s=<ID=%s,Number=%s,Type=%s,Description="%s">\n' % (kind, ident, number, typ, desc)


def header(contigs, info=(), fmt=(), filters=("PASS",), samples=(), extra=()):
    """VCF header text (ends with the #CHROM line)."""
    out = ["##fileformat=VCFv4.3\n"]
    for e in extra:
        out.append(e.rstrip("\n") + "\n")
    for name, length in contigs:
        out.append("##contig=<ID=%s,length=%d>\n" % (name, length))
    for f in filters:
        if isinstance(f, str):
            out.append('##FILTER=<ID=%s,Description="%s">\n' % (f, FILTER_DEFS.get(f, f)))
        else:
            out.append('##FILTER=<ID=%s,Description="%s">\n' % tuple(f))
    for d in info:
        out.append(_def_line("INFO", d, INFO_DEFS))
    for d in fmt:
        out.append(_def_line("FORMAT", d, FORMAT_DEFS))
    cols = ["#CHROM", "POS", "ID", "REF", "ALT", "QUAL", "FILTER", "INFO"]
    if samples:
        cols += ["FORMAT"] + list(samples)
    out.append("\t".join(cols) + "\n")
    return "".join(out)


def record(chrom, pos, ref, alts, info=(), fmt=(), samples=(), id=".", qual=".", filt="PASS"):
    """One VCF data line.  info: ordered (key, value) pairs (value True -> flag, False -> omitted);
    samples: one dict (key -> value) or one list (values in fmt order) per sample."""
    items = []
    for k, v in (info.items() if isinstance(info, dict) else info):
        if v is True:
            items.append(k)
        elif v is False:
            continue
        else:
            items.append("%s=%s" % (k, value(v)))
    cols = [
        str(chrom),
        str(pos),
        id or ".",
        ref,
        ",".join(alts) if alts else ".",
        value(qual),
        filt if isinstance(filt, str) else (";".join(filt) if filt else "."),
        ";".join(items) if items else ".",
    ]
    if fmt:
        cols.append(":".join(fmt))
        for s in samples:
            vals = [s.get(k) for k in fmt] if isinstance(s, dict) else list(s)
            cols.append(":".join(value(v) for v in vals))
    return "\t".join(cols) + "\n"


def write(path, text, index=True):
    """Write VCF text.  A path ending in .gz is bgzipped and tabix-indexed (records must be
    sorted by contig/pos); returns the path of the file to hand to the program."""
    if path.endswith(".gz"):
        import pysam

        plain = path[:-3]
        with open(plain, "w") as fh:
            fh.write(text)
        pysam.tabix_compress(plain, path, force=True)
        if index:
            pysam.tabix_index(path, preset="vcf", force=True)
        os.remove(plain)
        return path
    with open(path, "w") as fh:
        fh.write(text)
    return path
