"""Private copy of the repo's test data for in-process program runs.

The checks never let the programs open files inside the tree under test (pysam may write index
files next to what it opens): the needed files are copied into work/<id>/data first.
"""
import os
import shutil

from . import env

ASSEMBLE_FILES = [
    "simple.fasta", "simple.fasta.fai", "simple.bed.gz", "simple.bed.gz.tbi", "simple.vcf.gz", "simple.vcf.gz.tbi",
    "simple.sample1.bam", "simple.sample1.bam.bai", "simple.sample2.bam", "simple.sample2.bam.bai",
    "simple.sample3.bam", "simple.sample3.bam.bai",
    "simple.sample1.deep.bam", "simple.sample1.deep.bam.bai", "simple.sample2.deep.bam", "simple.sample2.deep.bam.bai",
    "simple.sample3.deep.bam", "simple.sample3.deep.bam.bai",
]
CALL_FILES = ["mock.input.frequencies.vcf", "simple.output.mixed_depth.assemble.vcf", "simple.pedigree.132.txt"]


def copy_test_data(workdir, names):
    """copy mchap/tests/test_io/data/<names> of the tree under test into <workdir>/data; returns that directory"""
    src = os.path.join(env.REPO, "mchap", "tests", "test_io", "data")
    dst = os.path.join(workdir, "data")
    shutil.rmtree(dst, ignore_errors=True)
    os.makedirs(dst)
    for n in names:
        shutil.copyfile(os.path.join(src, n), os.path.join(dst, n))
    # index files must not look older than what they index
    for n in names:
        if n.endswith((".bai", ".tbi", ".fai")):
            os.utime(os.path.join(dst, n))
    return dst
