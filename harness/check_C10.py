"""C10: samples are called independently; a pool equals the union of its reads.

spec  : spec/SampleFlow/SampleFlow.tla       (per-locus data flow with rng / reads / haplotype list / labels explicit;
                                              the alignment-file layout (one file per sample / several samples in
                                              one file) and the allele numbers explicit; two-run product;
                                              ColumnIndependent, AssembleMonotone, PoolIsUnion, StorageIndependent,
                                              UnitReadsAreUnion, OrderPermutesColumns)
        spec/SampleFlow/FlowRelations.tla    (the relations, shared by model and trace validator)
        spec/SampleFlow/TraceSampleFlow.tla  (every ordered pair of real runs -> verdict naming the failing clauses)
bind  : spec -> code : every run configuration (sequence of units = plain samples / pools incl. a sample in two pools /
                       physically merged samples; base samples in one file each or all in one multi-sample file) TLC
                       enumerates is executed for real with call, call-exact and assemble;
        code -> spec : each run is logged as (configuration, unit -> parsed column, ALT sequences) and TLC evaluates the
                       model's predicted relations on every pair of logged runs.  The same clauses decide the "wide"
                       run log (tens of samples with private haplotypes: a locus with more ALT alleles than a narrow
                       integer type can number; every sample alone, in a small run, in the joint run in two BAM orders
                       and from one multi-sample file) - the model states the law on three samples
                       (Mutant_narrowlabels.cfg shows that it notices numbers that do not fit).
"""
import concurrent.futures as cf
import copy
import json
import os
import random
import shutil
import sys
import time

sys.path.insert(0, os.path.dirname(os.path.abspath(__file__)))
from vlib import env, tlc, pool, isolate, datasets, vcflines
from vlib.report import Check
import c10_datasets

SPEC = os.path.join(env.SPEC, "SampleFlow")
MUTANTS = [("Mutant_seed.cfg", ("ColumnIndependent",)), ("Mutant_dedup.cfg", None), ("Mutant_firsthaps.cfg", ("AssembleMonotone",)),
           ("Mutant_onescan.cfg", ("ColumnIndependent", "PoolIsUnion", "StorageIndependent")),
           ("Mutant_narrowlabels.cfg", ("AssembleMonotone",))]
LOCI = ["L1_norm", "L2_nosnv", "L6_partial", "L8_multi", "L4_refabs2"]
SCALARS = ["GQ", "SQ", "DP", "RCOUNT", "RCALLS", "MEC", "MECP", "GPM", "SPM", "MCI"]


def unit_key(u):
    return ("M" if u["merged"] else "P") + ("," if max(u["m"]) > 9 else "").join(str(i) for i in u["m"])


def cfg_key(units):
    return tuple(unit_key(u) for u in units)


def build_dataset(ck, name, seed, depth, deep):
    root = os.path.join(ck.wd, "data", name)
    shutil.rmtree(root, ignore_errors=True)
    man = datasets.make_population(root, seed=seed, ploidies=(2, 2, 2), name=name, depth=depth, deep_sample=deep)
    man["hap_vcf"] = os.path.join(root, "haps.vcf")
    datasets.write_haplotype_vcf(man, man["hap_vcf"], seed=seed)
    by = {l["name"]: l for l in man["loci"]}
    man["bed_run"] = os.path.join(root, "targets_run.bed")
    with open(man["bed_run"], "w") as fh:
        for n in LOCI:
            l = by[n]
            fh.write("%s\t%d\t%d\t%s\n" % (l["contig"], l["start"], l["stop"], l["name"]))
    man["merged"] = {
        "M13": datasets.merge_bams(os.path.join(root, "M13.bam"), man, ["S1", "S3"], "M13"),
        "M123": datasets.merge_bams(os.path.join(root, "M123.bam"), man, ["S1", "S2", "S3"], "M123"),
    }
    # layout "one": the three base samples in one multi-sample alignment file (read groups / SM values kept)
    man["multi"] = c10_datasets.multi_sample_bam(os.path.join(root, "ALL.bam"), man)
    return man


def build_repo_dataset(ck):
    """The repository's own test data (deep BAMs) with physically merged BAMs (query names prefixed per source)."""
    root = os.path.join(ck.wd, "data", "simple")
    shutil.rmtree(root, ignore_errors=True)
    os.makedirs(root)
    S = datasets.repo_simple(env.REPO, os.path.join(root, "repo-data"))
    bams = S["bams"]["deep"]
    man = {"name": "simple", "ref": S["ref"], "snv_vcf": S["snv_vcf"], "bed_run": S["bed"], "hap_vcf": S["hap_vcfs"]["mock"],
           "samples": [{"name": n, "bam": b} for n, b in zip(S["samples"], bams)],
           "merged": {"M13": datasets.merge_repo_bams(os.path.join(root, "M13.bam"), [bams[0], bams[2]], "M13"),
                      "M123": datasets.merge_repo_bams(os.path.join(root, "M123.bam"), bams, "M123")}}
    return man


def materialise(man, units, tag, rnd_dir, layout="sep"):
    """Configuration -> (argv fragment, expected column names, ploidy map, inbreeding file)."""
    sname = {i: man["samples"][i - 1]["name"] for i in (1, 2, 3)}
    bam_of = {sname[i]: (man["multi"] if layout == "one" else man["samples"][i - 1]["bam"]) for i in (1, 2, 3)}
    bam_of.update(man["merged"])
    true_pool = any((not u["merged"]) and len(u["m"]) > 1 for u in units)
    bams, names, pool_lines, ploidy, wanted = [], [], [], {}, []
    for u in units:
        members = ["M" + "".join(map(str, u["m"]))] if u["merged"] else [sname[i] for i in u["m"]]
        if (sum(ord(c) for c in tag) // 2) % 2:
            # a pool is a set: its members may be listed (and their files given) in any order, e.g. a member without
            # reads at some locus before one with reads
            members = members[::-1]
        for s in members:
            if bam_of[s] not in bams:
                bams.append(bam_of[s])
            if s not in wanted:
                wanted.append(s)
        if true_pool:
            name = ("PM" if u["merged"] else "P") + "".join(map(str, u["m"]))
            for s in members:
                pool_lines.append((s, name))
        else:
            name = members[0]
        names.append(name)
        ploidy[name] = 2 * len(u["m"])
    d = os.path.join(rnd_dir, tag)
    os.makedirs(d, exist_ok=True)
    argv = ["--bam"] + bams
    if layout == "one" and not set(sname.values()) <= set(wanted):
        # the multi-sample file holds samples that are not part of this run: the documented way to select samples
        # of a file is the two-column list (sample <TAB> path); several samples then name the same path
        argv = ["--bam", datasets.write_map(os.path.join(d, "bams.txt"), [(s, bam_of[s]) for s in wanted])]
    argv += ["--ploidy", datasets.write_map(os.path.join(d, "ploidy.txt"), sorted(ploidy.items()))]
    # per-unit inbreeding (a function of the unit's content only), used by the groups that ask for it
    inb = {n: round(0.05 * len(u["m"]) + 0.04 * min(u["m"]), 2) for n, u in zip(names, units)}
    datasets.write_map(os.path.join(d, "inbreeding.txt"), sorted(inb.items()))
    if true_pool:
        # the file may list the assignment pool by pool or interleaved (e.g. written sample by sample): same pools.
        # Interleave round-robin for every second configuration; pool order (first appearance) and the member order
        # inside each pool are unchanged, so the expected columns are the same.
        if sum(ord(c) for c in tag) % 2:
            by_pool = {}
            for s, name in pool_lines:
                by_pool.setdefault(name, []).append((s, name))
            rr, k = [], 0
            while any(len(v) > k for v in by_pool.values()):
                rr.extend(v[k] for v in by_pool.values() if len(v) > k)
                k += 1
            pool_lines = rr
        if len(units) == 1 and (sum(ord(c) for c in tag) // 4) % 2:
            # one pool holding every sample of the run: the documented short form, the pool's name instead of a file
            argv += ["--sample-pool", names[0]]
        else:
            argv += ["--sample-pool", datasets.write_map(os.path.join(d, "pools.txt"), pool_lines)]
    return argv, names, ploidy, os.path.join(d, "inbreeding.txt")


# (program, extra arguments, group name, maximal number of units of the configurations run in this group)
# Every group runs every configuration (up to its maximal number of units) in the one-file-per-sample layout, and the
# configurations of at most BOTH_LAYOUTS[tier][group] units also in the multi-sample-file layout: in each tier one
# call-exact group replays every model pair in both layouts; quick adds every single unit (= every pool) with assemble,
# thorough every configuration of at most two units with every group.
BOTH_LAYOUTS = {"quick": {"call-exact": 2, "assemble": 1},
                "thorough": {"call-exact-filter": 3, None: 2}}
# G-length fields (GP / GL) only in the groups restricted to <= 2 units (a pool of three diploids with six
# alleles has 462 genotypes per column)
GROUPS_QUICK = [
    ("call", ["--report", "AFP", "GP"], "call", 2),
    ("call-exact", ["--report", "AFP", "GL", "--inbreeding", "@INBREEDING"], "call-exact", 2),
    ("assemble", ["--report", "AFP"], "assemble", 3),
    ("assemble", ["--report", "AFP", "--haplotype-posterior-threshold", "0.9", "--inbreeding", "@INBREEDING"], "assemble-t0.9", 3),
]
GROUPS_THOROUGH = GROUPS_QUICK + [
    ("call", ["--report", "ACP", "AFP", "--prior-frequencies", "AFP", "--inbreeding", "@INBREEDING"], "call-prior", 3),
    ("call-exact", ["--report", "AFP", "AOP", "--prior-frequencies", "AFP", "--filter-input-haplotypes", "AFP>=0.05"], "call-exact-filter", 3),
    ("assemble", ["--report", "AFP", "ACP", "--mcmc-chains", "2", "--inbreeding", "0.1"], "assemble-2chains", 2),
]


def wide_runs(wman, group, cfgdir, steps):
    """The runs of the wide regime (assemble, one locus): every sample alone, some of them also selected from the
    multi-sample file, a small run, and the joint run in BAM order, in reverse BAM order and from the multi-sample file."""
    samples = wman["samples"]
    n = len(samples)
    d = os.path.join(cfgdir, wman["name"])
    os.makedirs(d, exist_ok=True)
    common = ["--ploidy", "2", "--targets", wman["bed_run"], "--variants", wman["snv_vcf"], "--reference", wman["ref"],
              "--mcmc-steps", str(steps), "--mcmc-burn", str(steps // 3), "--mcmc-seed", "9", "--report", "AFP"]

    def one(idx, layout, bam_args):
        units = [{"m": [i + 1], "merged": False} for i in idx]
        return {"prog": "assemble", "group": group, "units": units, "key": (layout, cfg_key(units)), "layout": layout,
                "argv": ["--bam"] + bam_args + common, "expected": [samples[i]["name"] for i in idx]}

    out = []
    everyone = list(range(n))
    out.append(one(everyone, "sep", [samples[i]["bam"] for i in everyone]))
    out.append(one(everyone[::-1], "sep", [samples[i]["bam"] for i in everyone[::-1]]))
    out.append(one(everyone, "one", [wman["multi"]]))
    small = everyone[-5:]
    out.append(one(small, "sep", [samples[i]["bam"] for i in small]))
    for i in everyone:
        out.append(one([i], "sep", [samples[i]["bam"]]))
        if i % 10 == 4:
            lst = datasets.write_map(os.path.join(d, "only-%s.txt" % samples[i]["name"]), [(samples[i]["name"], wman["multi"])])
            out.append(one([i], "one", [lst]))
    return out


def parse_run(text, prog):
    """stdout -> (column names, loci[{id, alts, cols[{stats, seqs, byseq}]}])."""
    hl, rl = vcflines.split_text(text)
    hdr = vcflines.parse_header(hl)
    loci = []
    for line in rl:
        rec = vcflines.split_record(line)
        alts = ["".join(a) for a in rec["alts"]]
        allele_seq = ["".join(rec["ref"])] + alts
        cols = []
        for s in range(len(rec["samples"])):
            sub = rec["samples"][s]
            keys = rec["fmt"]
            gt = rec["gts"][s]
            seqs = [allele_seq[a] if 0 <= a < len(allele_seq) else ("." if a == -1 else "?") for a in gt]
            if prog == "assemble":
                stats = []
                for k in SCALARS:
                    if k in keys and keys.index(k) < len(sub):
                        stats.extend(sub[keys.index(k)])
                byseq = []
                for k in ("AFP", "ACP", "AOP"):
                    if k in keys and keys.index(k) < len(sub):
                        vals = sub[keys.index(k)]
                        if len(vals) == len(allele_seq):
                            for a, v in enumerate(vals):
                                byseq.append({"seq": k + ":" + allele_seq[a], "v": [v]})
            else:
                stats = []
                for x, k in enumerate(keys):
                    if k != "GT" and x < len(sub):
                        stats.extend(sub[x])
                byseq = []
            cols.append({"stats": stats, "seqs": seqs, "byseq": byseq})
        loci.append({"id": rec["id"], "alts": alts, "cols": cols})
    return hdr["samples"], loci


def main():
    ck = Check("C10")
    tier = ck.tier
    ck.rule = (
        "TLC enumerates every pair of run configurations (A, B) with units(A) a subset of units(B) over 3 base samples "
        "(all sub-sequences and orders, pools incl. a sample in two pools, pool vs physically merged sample, base samples "
        "stored one per alignment file or all in one multi-sample file) and checks the "
        "relations on the modelled data flow; every configuration it enumerates is executed for real with call, call-exact and "
        "assemble, and TLC evaluates the predicted relations on every ordered pair of logged runs. The same clauses decide the "
        "run log of the wide regime (70 diploid samples with private haplotypes over 8 SNVs, thorough also 140 over 9: joint "
        "runs listing more than 127 / 255 ALT alleles, against every sample alone, a small run, the reverse BAM order and one "
        "multi-sample file). evaluations = ordered pairs "
        "of real runs given a verdict; non-trivial = pairs for which the model predicts at least one relation (different "
        "configurations sharing a unit)."
    )
    try:
        r = tlc.run(SPEC, "SampleFlow", "MC_%s.cfg" % tier, timeout=2400)
        ck.add_tlc(r, "SampleFlow")
        if r.violated:
            ck.violation("model", {"invariant": r.violated, "text": r.error_text[:1500]}, key={"model": "SampleFlow"})
        pairs = r.printed
        killed = 0
        with cf.ThreadPoolExecutor(max_workers=max(1, min(env.NCPU // 2, len(MUTANTS)))) as ex:
            mres = list(ex.map(lambda mc: tlc.run(SPEC, "SampleFlow", mc[0], workers=max(2, env.NCPU // len(MUTANTS))), MUTANTS))
        for (mc, inv), m in zip(MUTANTS, mres):
            if m.violated is None or (inv and m.violated not in inv):
                ck.machinery_failure("mutant spec %s not killed (%s)" % (mc, m.violated))
            killed += 1
        ck.note("mutant_specs_killed", killed)
    except tlc.TLCError as e:
        ck.machinery_failure(str(e))
    configs = {}        # (layout, unit keys) -> units
    for p in pairs:
        for side in ("a", "b"):
            configs[(p["l" + side], cfg_key(p[side]))] = p[side]
    model_pairs = {((p["la"], cfg_key(p["a"])), (p["lb"], cfg_key(p["b"]))) for p in pairs
                   if (p["la"], cfg_key(p["a"])) != (p["lb"], cfg_key(p["b"]))}
    ck.note("model_run_pairs", len(pairs))
    ck.note("model_configurations", len(configs))

    phases = {"model_s": round(time.time() - ck.t0, 1)}
    tp = time.time()
    # ---- datasets and runs --------------------------------------------------------------
    dsets = [build_dataset(ck, "F1", ck.seed * 31 + 1, depth=10, deep=1)]
    if tier == "thorough":
        dsets.append(build_dataset(ck, "F2", ck.seed * 31 + 2, depth=6, deep=None))
    repo_man = build_repo_dataset(ck)
    groups = GROUPS_QUICK if tier == "quick" else GROUPS_THOROUGH
    cfgdir = os.path.join(ck.wd, "cfg")
    shutil.rmtree(cfgdir, ignore_errors=True)
    runs = []
    for man in dsets:
        for prog, extra, gname, maxlen in groups:
            if man["name"] == "F2" and gname not in ("call-prior", "assemble"):
                continue
            for ckey in sorted(configs):
                layout, key = ckey
                units = configs[ckey]
                if len(units) > maxlen or (layout != "sep" and len(units) > BOTH_LAYOUTS[tier].get(gname, BOTH_LAYOUTS[tier].get(None, 0))):
                    continue
                argv, names, ploidy, inbfile = materialise(man, units, "%s-%s-%s" % (man["name"], layout, "_".join(key)), cfgdir,
                                                           layout)
                argv += ["--reference", man["ref"]]
                if prog != "call-exact":
                    argv += ["--mcmc-steps", "300", "--mcmc-burn", "100", "--mcmc-seed", "9"]
                if prog == "assemble":
                    argv += ["--targets", man["bed_run"], "--variants", man["snv_vcf"]]
                else:
                    argv += ["--haplotypes", man["hap_vcf"]]
                runs.append({"prog": prog, "group": man["name"] + "/" + gname, "units": units, "key": ckey, "layout": layout,
                             "argv": argv + [inbfile if x == "@INBREEDING" else x for x in extra],
                             "expected": names})
    # the repository's own data (happy path): the first three groups
    for prog, extra, gname, maxlen in GROUPS_QUICK[:3]:
        for ckey in sorted(configs):
            layout, key = ckey
            units = configs[ckey]
            if len(units) > 2 or layout != "sep":
                continue
            if tier == "quick" and len(units) > 1 and not any(len(u["m"]) > 1 for u in units):
                continue    # quick: singles, and every configuration with a pool / merged sample
            argv, names, ploidy, inbfile = materialise(repo_man, units, "simple-%s" % "_".join(key), cfgdir)
            if prog != "call-exact":
                argv += ["--mcmc-steps", "300", "--mcmc-burn", "100", "--mcmc-seed", "11"]
            if prog == "assemble":
                argv += ["--targets", repo_man["bed_run"], "--variants", repo_man["snv_vcf"], "--reference", repo_man["ref"]]
            else:
                argv += ["--haplotypes", repo_man["hap_vcf"]]
            runs.append({"prog": prog, "group": "simple/" + gname, "units": units, "key": ckey, "layout": layout,
                         "argv": argv + [inbfile if x == "@INBREEDING" else x for x in extra], "expected": names})
    # the wide regime: loci with more ALT alleles than a narrow integer type can number
    wide = [(70, 8, 127)] if tier == "quick" else [(70, 8, 127), (140, 9, 255)]
    wide_groups = {}
    for n_samples, n_snvs, more_than in wide:
        wname = "W%d" % n_samples
        wroot = os.path.join(ck.wd, "data", wname)
        shutil.rmtree(wroot, ignore_errors=True)
        wman = c10_datasets.make_wide_population(wroot, ck.seed * 31 + n_samples, n_samples, n_snvs, name=wname)
        wide_groups[wname + "/assemble"] = more_than
        runs.extend(wide_runs(wman, wname + "/assemble", cfgdir, steps=300 if tier == "quick" else 600))
    ck.note("program_runs", len(runs))
    order = list(range(len(runs)))
    random.Random(ck.seed).shuffle(order)
    phases["datasets_s"] = round(time.time() - tp, 1)
    t0 = time.time()
    try:
        flat = isolate.map_runs("impl.c10", [{"op": "run", "prog": runs[i]["prog"], "argv": runs[i]["argv"]} for i in order])
    except pool.WorkerError as e:
        ck.machinery_failure("worker failure: %s" % e)
    ck.note("program_runs_wall_s", round(time.time() - t0, 1))
    outs = [None] * len(runs)
    for i, o in zip(order, flat):
        if o.get("harness_error"):
            ck.machinery_failure("worker task failed: %s\n%s" % (o["error"]["chain"], o["error"]["tb"]))
        outs[i] = o

    # ---- the run log ----------------------------------------------------------------------
    by_group = {}
    for run, out in zip(runs, outs):
        if out["error"] is not None:
            ck.violation("impl-error", {"prog": run["prog"], "argv": run["argv"], "chain": out["error"]["chain"]},
                         key={"site": out["error"].get("site"), "exc": out["error"].get("exc"), "prog": run["prog"]})
            continue
        names, loci = parse_run(out["stdout"], run["prog"])
        if sorted(names) == sorted(run["expected"]) and names != run["expected"]:
            # columns are matched to units by name (the property lets the order be any permutation)
            perm = [names.index(n) for n in run["expected"]]
            for l in loci:
                l["cols"] = [l["cols"][x] for x in perm]
        by_group.setdefault(run["group"], []).append(
            {"prog": run["prog"], "group": run["group"], "units": run["units"], "layout": run["layout"], "names": names,
             "expected": run["expected"],
             "loci": loci, "_argv": run["argv"], "_key": run["key"]})

    # the wide regime must have been reached: the joint runs list more ALT alleles than the narrow type numbers
    for gname, more_than in sorted(wide_groups.items()):
        joint = [x for x in by_group.get(gname, []) if len(x["units"]) > 5]
        widths = [max(len(l["alts"]) for l in x["loci"]) for x in joint]
        ck.note("alt_alleles_of_joint_runs_" + gname.split("/")[0], widths)
        if not ck.violations and (not joint or min(widths) <= more_than):
            ck.machinery_failure("wide regime %s not reached: ALT alleles of the joint runs %s (need > %d)" % (gname, widths, more_than))

    def validate(gname, logged, label):
        path = os.path.join(ck.wd, "trace-%s.json" % label)
        with open(path, "w") as fh:
            json.dump({"runs": [{k: v for k, v in x.items() if not k.startswith("_")} for x in logged]}, fh)
        t = tlc.run(SPEC, "TraceSampleFlow", "Trace.cfg", workers=1, extra_env={"TRACE_FILE": path},
                    name="TraceSampleFlow-" + label, timeout=2400)
        return gname, logged, t

    tp = time.time()
    jobs = [(g, lg, g.replace("/", "_")) for g, lg in sorted(by_group.items())]
    results = []
    try:
        with cf.ThreadPoolExecutor(max_workers=max(1, min(env.NCPU // 2, 8))) as ex:
            for out in ex.map(lambda j: validate(*j), jobs):
                results.append(out)
    except tlc.TLCError as e:
        ck.machinery_failure(str(e))
    total_related = 0
    covered_pairs = set()
    sample_done = False
    for gname, logged, t in results:
        ck.add_tlc(t, "TraceSampleFlow-" + gname)
        cons = [p for p in t.printed if "consumed" in p]
        if not cons or cons[0]["consumed"] != len(logged) ** 2:
            ck.machinery_failure("run log %s not fully consumed: %s %s" % (gname, cons, t.error_text[:800]))
        total_related += cons[0]["related"]
        ck.evaluations += cons[0]["consumed"]
        ck.nontrivial += cons[0]["related"]
        ck.traces += len(logged)
        keys = [x["_key"] for x in logged]
        kset = set(keys)
        covered_pairs |= {(a, b) for (a, b) in model_pairs if a in kset and b in kset}
        grouped = {}
        for p in t.printed:
            if "reject" in p:
                a, b = logged[p["reject"][0] - 1], logged[p["reject"][1] - 1]
                ca = sorted(tuple(u["m"]) for u in a["units"])
                cb = sorted(tuple(u["m"]) for u in b["units"])
                rel = ("same-units" if ca == cb else "subset") + (
                    "+pool-vs-merged" if {unit_key(u) for u in a["units"]} - {unit_key(u) for u in b["units"]} and
                    any(u["merged"] for u in a["units"] + b["units"]) else "") + (
                    "+other-file-layout" if a["layout"] != b["layout"] else "")
                for c in p["clause"]:
                    grouped.setdefault((c, rel), []).append((a, b))
        for (c, rel), lst in grouped.items():
            a, b = lst[0]
            ck.violation("trace-reject",
                         {"group": gname, "clause": c, "relation": rel, "n_pairs": len(lst), "run_A": a["_argv"], "run_B": b["_argv"],
                          "units_A": list(a["_key"][1])[:8], "layout_A": a["layout"], "n_units_A": len(a["units"]),
                          "units_B": list(b["_key"][1])[:8], "layout_B": b["layout"], "n_units_B": len(b["units"])},
                         key={"site": a["prog"], "clause": c, "relation": rel, "group": gname.split("/", 1)[1]})
        if not sample_done and logged:
            x = logged[len(logged) // 2]
            ck.sample({"kind": "logged-run", "group": gname, "units": list(x["_key"][1]), "layout": x["layout"], "argv": x["_argv"], "columns": x["names"],
                       "first_locus": {"id": x["loci"][0]["id"], "alts": x["loci"][0]["alts"], "seqs": [c["seqs"] for c in x["loci"][0]["cols"]]}})
            sample_done = True
    ck.note("related_run_pairs_validated", total_related)
    ck.note("model_pairs_with_both_runs_logged", len(covered_pairs))
    phases["trace_validation_s"] = round(time.time() - tp, 1)
    tp = time.time()
    if model_pairs - covered_pairs and not ck.violations:
        ck.machinery_failure("%d model pairs were not replayed" % len(model_pairs - covered_pairs))
    if pairs:
        p = pairs[len(pairs) // 2]
        ck.sample({"kind": "model-run-pair", "A": list(cfg_key(p["a"])), "layout_A": p["la"], "B": list(cfg_key(p["b"])),
                   "layout_B": p["lb"]})

    # how often assemble actually turned "." into a named allele (non-vacuity of AssembleMonotone)
    gained = 0
    for gname, logged, t in results:
        if not logged or logged[0]["prog"] != "assemble":
            continue
        alone = {x["_key"]: x for x in logged if len(x["units"]) == 1}
        for x in logged:
            for ci, u in enumerate(x["units"]):
                k1 = (x["layout"], (unit_key(u),))
                if len(x["units"]) > 1 and k1 in alone:
                    for l, la in zip(x["loci"], alone[k1]["loci"]):
                        if la["cols"][0]["seqs"].count(".") > l["cols"][ci]["seqs"].count("."):
                            gained += 1
    ck.note("assemble_columns_that_gained_named_alleles", gained)

    # ---- binding demonstration: corrupted run logs must be rejected -------------------------
    demo = 0
    demo_jobs = []

    def content(x):
        return {tuple(u["m"]) for u in x["units"]}

    for gname, logged, t in results:
        if len(logged) < 3:
            continue
        prog = logged[0]["prog"]
        multi = [x for x in logged if len(x["units"]) > 1]
        if not multi:
            continue
        # the corrupted run and every logged run the model relates it to (configurations it contains / is contained in)
        first = multi[0]
        bad = copy.deepcopy([x for x in logged if content(x) <= content(first) or content(first) <= content(x)])
        target = next(x for x in bad if x["_key"] == first["_key"])
        expect = None
        if prog == "assemble":
            col = target["loci"][0]["cols"][0]
            named = [i for i, s in enumerate(col["seqs"]) if s != "."]
            if named:
                col["seqs"][named[-1]] = "."
                expect = "AssembleMonotone"
        else:
            col = target["loci"][0]["cols"][-1]
            nums = [i for i, v in enumerate(col["stats"]) if v["k"] in ("int", "dec")]
            if nums:
                v = col["stats"][nums[-1]]
                if v["k"] == "int":
                    v["m"] += 1
                else:
                    v["m"] += 2000
                expect = "ColumnIndependent"
        if expect is None or len(bad) < 2:
            continue
        demo_jobs.append((gname, bad, gname.replace("/", "_") + "-corrupt", expect))
    try:
        with cf.ThreadPoolExecutor(max_workers=max(1, min(env.NCPU // 2, 8))) as ex:
            demo_out = list(ex.map(lambda j: validate(*j[:3]), demo_jobs))
    except tlc.TLCError as e:
        ck.machinery_failure(str(e))
    for (gname, bad, label, expect), (_, _, tbad) in zip(demo_jobs, demo_out):
        got = {c for p in tbad.printed if "reject" in p for c in p["clause"]}
        if expect not in got and "PoolIsUnion" not in got and "StorageIndependent" not in got:
            ck.machinery_failure("corrupted run log (%s) was not rejected for %s: %s" % (gname, expect, got))
        demo += 1
    if demo == 0:
        ck.machinery_failure("no corrupted-trace demonstration could be built")
    ck.note("corrupted_traces_rejected", demo)
    phases["corrupted_logs_s"] = round(time.time() - tp, 1)
    ck.note("phase_wall_s", phases)
    ck.exhaustive = True
    ck.assumptions = [
        "TLC and the CommunityModules Json/IOUtils operators are correct",
        "F (reads, ploidy, inbreeding, rng -> posterior) is uninterpreted in the model: a column is equal iff everything it may depend on is equal",
        "exhaustive over run configurations of 3 base samples with at most MaxLen units (quick 2, thorough 3); datasets are bounded "
        "(5 loci, diploid base samples, pool ploidy = 2 x members)",
        "pool vs physically merged sample, and the same unit read from differently laid out alignment files: numeric fields are "
        "compared with one unit of the last printed place (the order in which identical reads are accumulated differs between "
        "the two inputs); integer fields (DP, RCOUNT, RCALLS, ...) and, in call / call-exact, the genotypes must be identical",
        "the multi-sample-file layout is run for every configuration with one call-exact group and, quick: for every single unit "
        "with assemble, thorough: for every configuration of at most two units with every group; the wide regime is decided by the trace clauses, the model states "
        "its law (allele numbers are unbounded) on three samples",
    ]
    ck.finish()


if __name__ == "__main__":
    main()
