"""Implementation side of C09 (likelihood caches)."""
import os
import math
import numpy as np

PY = os.environ.get("NUMBA_DISABLE_JIT") == "1"
NANQ = -2147483647


def setup():
    global arraymap, L, M, mutation, structural, J
    from mchap.assemble import arraymap, mutation, structural
    from mchap.assemble import likelihood as L
    from mchap.assemble import mcmc as M
    from mchap import jitutils as J


QS = [1e6]      # units per nat of the recorded log-likelihoods (coarser for runs whose values would leave 32 bits)


def q(v):
    if v is None or (isinstance(v, float) and math.isnan(v)):
        return NANQ
    if v == -math.inf:
        return -2000000000
    return int(max(-1999999999, min(1999999999, round(float(v) * QS[0]))))


# ---------------------------------------------------------------- replay
def replay(task):
    """TLC behaviours -> real arraymap.  Each state: hist (list of sets) + expected projection."""
    Lk, B, init, mx = task["L"], task["B"], task["init"], task["max"]
    keys = [np.array(k, dtype=np.int64) for k in task["keys"]]
    bad = []
    notes = []
    ndiv = 0
    n = 0
    flushes = 0
    for st in task["states"]:
        am = arraymap.new(Lk, B, initial_size=init, max_size=mx)
        for h in st["hist"]:
            am = arraymap.set(am, np.array(h["key"], dtype=np.int64), float(h["v"]), empty_if_full=True)
        if st["hist"] and st["hist"][-1]["flush"] != "none":
            flushes += 1
        tree, values, _, en, ev, _ = am
        got = {
            "en": int(en), "ev": int(ev), "lt": int(len(tree)), "lv": int(len(values)),
            "tree": [[int(x) for x in row] for row in tree],
            "values": [NANQ if math.isnan(x) else int(x) for x in values],
            "gets": sorted([[int(x) for x in k], (lambda v: NANQ if math.isnan(v) else int(v))(arraymap.get(am, k))] for k in keys),
        }
        want = {k: st[k] for k in ("en", "ev", "lt", "lv", "tree", "values")}
        want["gets"] = sorted([list(a), b] for a, b in st["gets"])
        n += 1
        # deciding clause (what C09 states): the cache may forget, it never lies
        last = {}
        for h in st["hist"]:
            last[tuple(h["key"])] = int(h["v"])
        for k, v in got["gets"]:
            if v != NANQ and last.get(tuple(k)) != v:
                bad.append({"hist": st["hist"], "fields": ["gets"], "key": k, "impl": v, "last_stored": last.get(tuple(k), "never stored")})
        # agreement with the faithful model of arraymap.py (layout, growth, flush points): informational
        if got != want:
            diff = [k for k in want if got[k] != want[k]]
            if len(notes) < 3:
                notes.append({"hist": st["hist"], "fields": diff, "impl": {k: got[k] for k in diff}, "model": {k: want[k] for k in diff}})
            ndiv += 1
        if len(bad) > 5:
            break
    return {"n": n, "bad": bad, "flushes": flushes, "faithful_model_divergences": ndiv, "divergence_samples": notes}


# ---------------------------------------------------------------- reads
def rational_reads(rnd, n_reads, N, na, gap=0.2):
    A = max(na)
    reads = np.zeros((n_reads, N, A))
    for r in range(n_reads):
        for j in range(N):
            if r != j % n_reads and rnd.rand() < gap:
                reads[r, j, :] = np.nan
            else:
                a = rnd.randint(na[j])
                reads[r, j, : na[j]] = 0.125 / max(1, na[j] - 1)
                reads[r, j, a] = 0.875
    return reads


# ---------------------------------------------------------------- assemble trace
def assemble_trace(task):
    assert PY
    rnd = np.random.RandomState(task["seed"])
    P, N = task["P"], task["N"]
    na = [int(x) for x in rnd.choice([2, 2, 3], size=N)] if task.get("multi", True) else [2] * N
    reads = rational_reads(rnd, task.get("n_reads", 5), N, na)
    counts = rnd.randint(1, 4, size=len(reads)).astype(np.int64) if task.get("counts", True) else None
    if task.get("huge_counts"):
        # a few distinct reads seen tens of thousands of times (deep amplicon data): log-likelihoods of -1e5 .. -1e6 nats
        counts = np.array([40000, 33000] + [1 + i % 3 for i in range(len(reads) - 2)], dtype=np.int64)
        for j in range(N):      # the two deep reads disagree at every SNV (no SNV is fixed as homozygous)
            reads[0, j, : na[j]] = 0.25 / (na[j] - 1)
            reads[0, j, 0] = 0.75
            reads[1, j, : na[j]] = 0.25 / (na[j] - 1)
            reads[1, j, 1] = 0.75
        QS[0] = 1e3
    else:
        QS[0] = 1e6
    init, mx = task["init"], task["max"]
    events = []

    def fresh(key):
        g = np.array(key, dtype=np.int8).reshape(P, N)
        return L.log_likelihood(reads, g, read_counts=counts)

    o_get, o_set, o_new = arraymap.get, arraymap.set, M.new_log_likelihood_cache
    o_base, o_int, o_swap = mutation.base_step, structural.interval_step, M.chain_swap_step

    def g_get(am, array):
        v = o_get(am, array)
        key = [int(x) for x in array]
        miss = bool(np.isnan(v))
        events.append({"op": "get", "key": key, "miss": miss, "ret": q(v), "fresh": q(fresh(key))})
        return v

    def g_set(am, array, value, empty_if_full=False):
        r = o_set(am, array, value, empty_if_full)
        key = [int(x) for x in array]
        events.append({"op": "set", "key": key, "v": q(value), "fresh": q(fresh(key)), "en": int(r[3]), "ev": int(r[4]),
                       "lt": int(len(r[0])), "lv": int(len(r[1]))})
        return r

    def g_new(ploidy, n_base, max_alleles, max_size=2**16):
        return arraymap.new(ploidy * n_base, max_alleles, initial_size=init, max_size=mx)

    def carried(genotype, llk):
        key = [int(x) for x in genotype.ravel()]
        events.append({"op": "carried", "key": key, "v": q(llk), "fresh": q(fresh(key))})

    def g_base(genotype, *a, **k):
        r = o_base(genotype, *a, **k)
        carried(genotype, r[0])
        return r

    def g_int(genotype, *a, **k):
        r = o_int(genotype, *a, **k)
        carried(genotype, r[0])
        return r

    def g_swap(**k):
        r = o_swap(**k)
        carried(k["genotype_i"], r[0])
        carried(k["genotype_j"], r[1])
        return r

    arraymap.get, arraymap.set, M.new_log_likelihood_cache = g_get, g_set, g_new
    mutation.base_step, structural.interval_step, M.chain_swap_step = g_base, g_int, g_swap
    try:
        with np.errstate(all="ignore"):
            model = M.DenovoMCMC(ploidy=P, n_alleles=na, steps=task.get("steps", 10), chains=1, fix_homozygous=1.0,
                                 temperatures=tuple(task.get("temps", (1.0,))), random_seed=task["seed"],
                                 inbreeding=task.get("F", 0.0), llk_cache_threshold=0)
            tr = model.fit(reads, read_counts=counts)
        for g, llk in zip(tr.genotypes[0], tr.llks[0]):
            carried(np.asarray(g), float(llk))
    finally:
        arraymap.get, arraymap.set, M.new_log_likelihood_cache = o_get, o_set, o_new
        mutation.base_step, structural.interval_step, M.chain_swap_step = o_base, o_int, o_swap
        QS[0] = 1e6
    return {"header": {"L": P * N, "B": int(max(na)), "init": init, "max": mx, "kind": "assemble"}, "events": events}


# ---------------------------------------------------------------- call trace
def call_trace(task):
    assert PY
    from mchap.calling import mcmc as CM
    from mchap.calling.classes import CallingMCMC
    from mchap.assemble.likelihood import log_likelihood

    rnd = np.random.RandomState(task["seed"])
    P, N, K = task["P"], task["N"], task["K"]
    haps = np.unique(rnd.randint(0, 2, size=(K * 3, N)), axis=0)[:K].astype(np.int8)
    K = len(haps)
    reads = rational_reads(rnd, task.get("n_reads", 5), N, [2] * N)
    counts = rnd.randint(1, 4, size=len(reads)).astype(np.int64)
    events = []
    orig = CM.log_likelihood_alleles_cached

    def wrap(reads, read_counts, haplotypes, genotype_alleles, cache=None):
        idx = int(J.genotype_alleles_as_index(np.sort(genotype_alleles)))
        n0 = len(cache) if cache is not None else 0
        v = orig(reads, read_counts, haplotypes, genotype_alleles, cache)
        hit = cache is not None and len(cache) == n0  # served without inserting (independent of the key format)
        f = log_likelihood(cur["reads"], haps[np.sort(genotype_alleles)], read_counts=cur["counts"])
        if cache is not None:
            events.append({"op": "dget", "key": [cur["fit"], idx], "hit": bool(hit), "ret": q(v), "fresh": q(f)})
        return v

    cur = {"reads": reads, "counts": counts, "fit": 0}
    CM.log_likelihood_alleles_cached = wrap
    try:
        with np.errstate(all="ignore"):
            m = CallingMCMC(ploidy=P, haplotypes=haps, inbreeding=task.get("F", 0.0), steps=task.get("steps", 12), chains=1,
                            random_seed=task["seed"], step_type=task.get("step_type", "Gibbs"))
            # history: the SAME model object is fitted to a second sample (other reads) afterwards; whatever is cached
            # must still be the likelihood of the sample being fitted
            for fit in (0, 1):
                if fit == 1:
                    r2 = rational_reads(rnd, task.get("n_reads", 5), N, [2] * N)
                    c2 = rnd.randint(1, 4, size=len(r2)).astype(np.int64)
                    cur.update(reads=r2, counts=c2, fit=1)
                tr = m.fit(cur["reads"], read_counts=cur["counts"])
                for g, llk in zip(tr.genotypes[0], tr.llks[0]):
                    f = log_likelihood(cur["reads"], haps[np.sort(g)], read_counts=cur["counts"])
                    events.append({"op": "carried", "key": [int(x) for x in g], "v": q(float(llk)), "fresh": q(f)})
    finally:
        CM.log_likelihood_alleles_cached = orig
    return {"header": {"L": 1, "B": 1, "init": 2, "max": 2, "kind": "call"}, "events": events}


# ---------------------------------------------------------------- pedigree trace
PEDIGREES = {
    # name: (ploidies, parents, tau, lambda)
    "trio": ([2, 2, 2], [[-1, -1], [-1, -1], [0, 1]], [[1, 1], [1, 1], [1, 1]]),
    "trio_rev": ([2, 2, 2], [[-1, -1], [-1, -1], [1, 0]], [[1, 1], [1, 1], [1, 1]]),
    "halfsib": ([2, 2, 2, 2, 2], [[-1, -1], [-1, -1], [-1, -1], [0, 1], [1, 2]], [[1, 1]] * 5),
    "tetra": ([4, 4, 4], [[-1, -1], [-1, -1], [0, 1]], [[2, 2], [2, 2], [2, 2]]),
    "mixed": ([4, 2, 3], [[-1, -1], [-1, -1], [0, 1]], [[2, 2], [1, 1], [2, 1]]),
}


def ped_trace(task):
    assert PY
    from mchap.pedigree import mcmc as PM
    from mchap.pedigree.classes import PedigreeCallingMCMC
    from mchap.assemble.likelihood import log_likelihood

    rnd = np.random.RandomState(task["seed"])
    ploidies, parents, tau = PEDIGREES[task["ped"]]
    S = len(ploidies)
    N, K = task["N"], task["K"]
    haps = np.unique(rnd.randint(0, 2, size=(K * 3, N)), axis=0)[:K].astype(np.int8)
    K = len(haps)
    # unequal numbers of distinct reads per sample, padded with zero counts
    n_distinct = task["n_distinct"]
    R = max(n_distinct)
    srd = np.full((S, R, N, 2), np.nan)
    src = np.zeros((S, R), dtype=np.int64)
    for s in range(S):
        srd[s, : n_distinct[s]] = rational_reads(rnd, n_distinct[s], N, [2] * N)
        src[s, : n_distinct[s]] = rnd.randint(1, 4, size=n_distinct[s])
    # every second trace: the unused (zero-count) slots are not trailing padding but sit before / between the observed reads
    layout = "trailing"
    if task["seed"] % 2 == 1 and any(n < R for n in n_distinct):
        layout = "interleaved"
        for s in range(S):
            perm = np.roll(np.arange(R), 1 + s % max(1, R - 1)) if n_distinct[s] < R else np.arange(R)
            srd[s] = srd[s][perm]
            src[s] = src[s][perm]
    events = []
    orig = PM.log_likelihood_alleles_cached

    def wrap(reads, read_counts, haplotypes, sample, genotype_alleles, cache=None):
        idx = int(J.genotype_alleles_as_index(np.sort(genotype_alleles)))
        n0 = len(cache) if cache is not None else 0
        v = orig(reads, read_counts, haplotypes, sample, genotype_alleles, cache)
        hit = cache is not None and len(cache) == n0  # served without inserting (independent of the key format)
        m = src[sample] > 0
        f = log_likelihood(srd[sample][m], haps[np.sort(genotype_alleles)], read_counts=src[sample][m])
        import sys as _sys
        events.append({"op": "dget", "key": [int(sample), idx], "hit": bool(hit), "ret": q(v), "fresh": q(f),
                       "site": _sys._getframe(1).f_code.co_name})
        return v

    PM.log_likelihood_alleles_cached = wrap
    try:
        with np.errstate(all="ignore"):
            m = PedigreeCallingMCMC(
                sample_ploidy=np.array(ploidies), sample_inbreeding=np.zeros(S), sample_parents=np.array(parents),
                gamete_tau=np.array(tau), gamete_lambda=np.zeros((S, 2)), gamete_error=np.full((S, 2), 0.01),
                haplotypes=haps, steps=task.get("steps", 10), annealing=0, chains=1, random_seed=task["seed"],
                step_type=task.get("step_type", "Gibbs"), swap_parental_alleles=True)
            m.fit(srd, src)
    finally:
        PM.log_likelihood_alleles_cached = orig
    return {"header": {"L": 1, "B": 1, "init": 2, "max": 2, "kind": "pedigree:" + task["ped"], "n_distinct": n_distinct, "slot_layout": layout}, "events": events}


# ---------------------------------------------------------------- trajectory
def trajectory(task):
    """same seed, cache disabled / enabled / resized -> identical genotype and llk traces"""
    rnd = np.random.RandomState(task["seed"])
    P, N = task["P"], task["N"]
    na = [int(x) for x in rnd.choice([2, 2, 3], size=N)]
    reads = rational_reads(rnd, task.get("n_reads", 6), N, na)
    counts = rnd.randint(1, 4, size=len(reads)).astype(np.int64)
    outs = []
    o_new = M.new_log_likelihood_cache
    try:
        for mode in task["modes"]:
            if isinstance(mode, list):  # [init, max] resized cache (interpreted mode only)
                M.new_log_likelihood_cache = lambda ploidy, n_base, max_alleles, max_size=2**16, _m=mode: arraymap.new(ploidy * n_base, max_alleles, initial_size=_m[0], max_size=_m[1])
                thr = 0
            else:
                M.new_log_likelihood_cache = o_new
                thr = mode
            with np.errstate(all="ignore"):
                m = M.DenovoMCMC(ploidy=P, n_alleles=na, steps=task.get("steps", 30), chains=1, fix_homozygous=1.0,
                                 temperatures=tuple(task.get("temps", (1.0,))), random_seed=task["seed"], inbreeding=task.get("F", 0.1),
                                 llk_cache_threshold=thr)
                tr = m.fit(reads, read_counts=counts)
            outs.append({"mode": mode, "g": tr.genotypes.astype(int).ravel().tolist(), "llk": [float(x) for x in tr.llks.ravel()]})
    finally:
        M.new_log_likelihood_cache = o_new
    ref = outs[0]
    diffs = []
    for o in outs[1:]:
        if o["g"] != ref["g"]:
            i = next(i for i, (a, b) in enumerate(zip(o["g"], ref["g"])) if a != b)
            diffs.append({"mode": o["mode"], "what": "genotype", "at": i})
        elif any(abs(a - b) > 1e-9 * max(1, abs(b)) for a, b in zip(o["llk"], ref["llk"])):
            diffs.append({"mode": o["mode"], "what": "llk"})
    return {"diffs": diffs, "n_modes": len(outs), "distinct_genotypes": len({tuple(ref["g"][i : i + P * N]) for i in range(0, len(ref["g"]), P * N)})}


def run(task):
    return {"replay": replay, "assemble_trace": assemble_trace, "call_trace": call_trace, "ped_trace": ped_trace, "trajectory": trajectory}[task["op"]](task)
