"""Implementation side of X03 (3): mchap/encoding/integer/kmer.py and stats.py.

ops
  states  : states (reads, haps) of KmerStats.tla with the model's statistics for every k -> iter_kmers, kmer_counts,
            kmer_positions, kmer_frequency, kmer_representation, kmer_coverage, min_kmer_coverage,
            minimum_error_correction, read_assignment, depth; rows are shuffled (seeded); compared here
  random  : recorded results on seeded random matrices -> events for TraceKmer.tla
  program : the (read_calls, genotype) pairs a real `mchap call` / `mchap assemble` run builds from the repository's BAM
            files (captured where the program computes MEC) -> the same functions -> events for TraceKmer.tla
"""
import math
import random
import warnings
from fractions import Fraction

import numpy as np


def setup():
    global KM, ST, SEQ
    from mchap.encoding.integer import kmer as KM
    from mchap.encoding.integer import stats as ST
    from mchap.encoding.integer import sequence as SEQ


REL = 1e-9


def close(x, q):
    q = float(q)
    return (not math.isnan(x)) and abs(x - q) <= REL * max(1.0, abs(q))


class Collector:
    def __init__(self):
        self.bad = []
        self.perkey = {}
        self.checks = 0
        self.info = {}
        self.errors = []

    def check(self, fn, ok, st, k, got, want, feature=None):
        self.checks += 1
        if ok:
            return
        key = (fn, feature)
        self.perkey[key] = self.perkey.get(key, 0) + 1
        if self.perkey[key] <= 4:
            self.bad.append({"fn": fn, "feature": feature, "k": k, "reads": st["reads"], "haps": st["haps"], "got": got, "want": want})
        else:
            self.info["mismatches_not_listed"] = self.info.get("mismatches_not_listed", 0) + 1

    def note(self, key, n=1):
        self.info[key] = self.info.get(key, 0) + n


def tup(a):
    return tuple(int(x) for x in a)


def one_state(c, st, rnd, dtype=np.int8):
    nb = len(st["haps"][0])
    order = list(range(len(st["reads"])))
    rnd.shuffle(order)
    reads = np.array([st["reads"][i] for i in order], dtype=dtype).reshape(len(order), nb)
    hord = list(range(len(st["haps"])))
    rnd.shuffle(hord)
    haps = np.array([st["haps"][i] for i in hord], dtype=dtype).reshape(len(hord), nb)
    feats = set()
    def attempt(fn, k, thunk, feature=None):
        try:
            return thunk()
        except Exception as e:  # an exception of the code under test on a model-generated input is a finding
            c.errors.append({"fn": fn, "k": k, "reads": st["reads"], "haps": st["haps"], "feature": feature,
                             "error": "%s: %s" % (type(e).__name__, e)})
            return None

    for s in st["stats"]:
        k = s["k"]
        model = {tuple(v): (cnt, Fraction(fr[0], fr[1]), a, b) for v, cnt, fr, a, b in s["kmers"]}
        if k <= nb + 1:
            it = attempt("iter_kmers", k, lambda: [tup(v) for v in KM.iter_kmers(reads, k=k)])
            if it is not None:
                got = {}
                for v in it:
                    got[v] = got.get(v, 0) + 1
                c.check("iter_kmers", got == {v: m[0] for v, m in model.items()} and len(it) == s["n"], st, k,
                        sorted(got.items()), sorted((v, m[0]) for v, m in model.items()))
            kc = attempt("kmer_counts", k, lambda: KM.kmer_counts(reads, k=k))
            if kc is not None:
                km, cn = kc
                gotc = {tup(v): int(n) for v, n in zip(km, cn)} if len(cn) else {}
                c.check("kmer_counts", gotc == {v: m[0] for v, m in model.items()} and len(cn) == len(model), st, k,
                        sorted(gotc.items()), sorted((v, m[0]) for v, m in model.items()))
                if len(cn):
                    pos = attempt("kmer_positions", k, lambda: (KM.kmer_positions(km), KM.kmer_positions(km, end="start"),
                                                                KM.kmer_positions(km, end="stop")))
                    if pos is not None:
                        full, start, stop = pos
                        ok = True
                        for i, v in enumerate(km):
                            m = model.get(tup(v))
                            if m is None:
                                ok = False
                                break
                            ok = ok and int(start[i]) == m[2] and int(stop[i]) == m[3] and [int(x) for x in full[i]] == list(range(m[2], m[3] + 1))
                        c.check("kmer_positions", ok, st, k, [[int(x) for x in r] for r in full], sorted((v, m[2], m[3]) for v, m in model.items()))
                    # (the distinguishing feature of the inputs on which the current tree raises)
                    beyond = any(m[2] >= len(model) - (k - 1) for m in model.values())
                    fr = attempt("kmer_frequency", k, lambda: KM.kmer_frequency(km, cn),
                                 feature="kmer-start>=n_kmers-(k-1)" if beyond else "kmer-start<n_kmers-(k-1)")
                    if fr is not None:
                        ok = all(tup(v) in model and close(float(f), model[tup(v)][1]) for v, f in zip(km, fr))
                        c.check("kmer_frequency", ok, st, k, [float(f) for f in fr], sorted((v, str(m[1])) for v, m in model.items()))
                    if any(0 < m[1] < 1 for m in model.values()):
                        feats.add("frequency-split")
        if k <= nb:
            rep = attempt("kmer_representation", k, lambda: ST.kmer_representation(reads, haps, k=k))
            if rep is not None:
                ok = len(rep) == nb
                for j in range(nb):
                    pres, tot = s["rep"][j]
                    if tot > 0:
                        ok = ok and close(float(rep[j]), Fraction(pres, tot))
                        if 0 < pres < tot:
                            feats.add("partly-represented")
                    elif ok and float(rep[j]) != 1.0:
                        c.note("representation_not_1_where_no_kmer_covers")
                c.check("kmer_representation", ok, st, k, [float(x) for x in rep], s["rep"])
            cv = attempt("kmer_coverage", k, lambda: ST.kmer_coverage(reads, haps, k=k))
            if cv is not None:
                gotcov = [[int(a), int(b)] for a, b in zip(cv[0], cv[1])]
                c.check("kmer_coverage", gotcov == [list(x) for x in s["cov"]], st, k, gotcov, s["cov"])
    try:
        ks = np.array([s["k"] for s in st["stats"]])
        mc = ST.min_kmer_coverage(reads, haps, ks)
        for s, v in zip(st["stats"], mc):
            num, den = s["mincov"]
            v = float(v)
            if den == 0:
                c.check("min_kmer_coverage", math.isnan(v), st, s["k"], v, "nan", feature="nan-case")
            else:
                c.check("min_kmer_coverage", close(v, Fraction(num, den)), st, s["k"], v, [num, den])
                if 0 < num < den:
                    feats.add("mincov-between")
        mec = ST.minimum_error_correction(reads, haps)
        want = [st["mec"][i] for i in order]
        c.check("minimum_error_correction", [int(x) for x in mec] == want, st, 0, [int(x) for x in mec], want)
        if len(order):
            asg = ST.read_assignment(reads, haps)
            ok = asg.shape == (len(order), len(hord))
            if ok:
                for a, i in enumerate(order):
                    for b, h in enumerate(hord):
                        q = st["assign"][i][h]
                        ok = ok and close(float(asg[a, b]), Fraction(q[0], q[1]))
                        if q[0] and q[1] > 1:
                            feats.add("assignment-tie")
            c.check("read_assignment", ok, st, 0, [[float(x) for x in r] for r in asg], st["assign"])
        dp = SEQ.depth(reads)
        c.check("depth", [int(x) for x in dp] == list(st["depth"]), st, 0, [int(x) for x in dp], st["depth"])
    except Exception as e:
        c.errors.append({"fn": "stats", "k": 0, "reads": st["reads"], "haps": st["haps"], "feature": None,
                         "error": "%s: %s" % (type(e).__name__, e)})
    return feats


# ---- code -> spec ---------------------------------------------------------------------------------------
def micro(v):
    v = float(v)
    if math.isnan(v):
        return -1
    return int(round(v * 1e6))


def events_for(reads, haps, na, ks, src):
    """all functions on one (read matrix, genotype) pair -> one "kmer" event per k and one "mec" event"""
    nb = reads.shape[1]
    base = {"nb": int(nb), "na": int(na), "reads": [[int(x) for x in r] for r in reads],
            "haps": [[int(x) for x in r] for r in haps], "src": src}
    out = []
    mc = ST.min_kmer_coverage(reads, haps, np.array(ks))
    for k, mcv in zip(ks, mc):
        ev = dict(base, op="kmer", k=int(k), iter=[], counts=[], positions=[], freq=[], freq_error="", rep=[], cov=[],
                  mincov=micro(mcv))
        if k <= nb + 1:
            ev["iter"] = [[int(x) for x in v] for v in KM.iter_kmers(reads, k=k)]
            km, cn = KM.kmer_counts(reads, k=k)
            if len(cn):
                ev["counts"] = [[[int(x) for x in v], int(n)] for v, n in zip(km, cn)]
                full = KM.kmer_positions(km)
                start = KM.kmer_positions(km, end="start")
                stop = KM.kmer_positions(km, end="stop")
                ev["positions"] = [[[int(x) for x in v], int(a), int(b), [int(x) for x in f]] for v, a, b, f in zip(km, start, stop, full)]
                try:
                    fr = KM.kmer_frequency(km, cn)
                    ev["freq"] = [[[int(x) for x in v], micro(f)] for v, f in zip(km, fr)]
                except Exception as e:
                    ev["freq_error"] = "%s: %s" % (type(e).__name__, str(e)[:80])
        if k <= nb:
            ev["rep"] = [micro(x) for x in ST.kmer_representation(reads, haps, k=k)]
            cov, tot = ST.kmer_coverage(reads, haps, k=k)
            ev["cov"] = [[int(a), int(b)] for a, b in zip(cov, tot)]
        out.append(ev)
    if len(reads):
        out.append(dict(base, op="mec", mec=[int(x) for x in ST.minimum_error_correction(reads, haps)],
                        assign=[[micro(x) for x in r] for r in ST.read_assignment(reads, haps)],
                        depth=[int(x) for x in SEQ.depth(reads)]))
    return out


def random_events(n, seed):
    rnd = random.Random(seed)
    ev = []
    while len(ev) < n:
        nb = rnd.choice([2, 3, 4, 5])
        na = rnd.choice([2, 2, 3])
        nh = rnd.randint(1, 4)
        nr = rnd.randint(0, 7)
        haps = np.array([[rnd.randrange(na) for _ in range(nb)] for _ in range(nh)], dtype=np.int8).reshape(nh, nb)
        reads = np.zeros((nr, nb), dtype=np.int8)
        for i in range(nr):
            src = haps[rnd.randrange(nh)]
            for j in range(nb):
                u = rnd.random()
                reads[i, j] = -1 if u < 0.2 else (src[j] if u < 0.85 else rnd.randrange(na))
        ev.extend(events_for(reads, haps, na, [1, 2, 3], "random"))
    return ev


def program_events(task):
    prog_name = task["prog"]
    if prog_name == "assemble":
        from mchap.application import assemble as APP
    elif prog_name == "call":
        from mchap.application import call as APP
    else:
        from mchap.application import call_exact as APP
    pairs = []
    orig = APP.minimum_error_correction

    def rec(read_calls, genotype):
        pairs.append((np.array(read_calls).copy(), np.array(genotype).copy()))
        return orig(read_calls, genotype)

    APP.minimum_error_correction = rec
    try:
        with warnings.catch_warnings():
            warnings.simplefilter("ignore")
            with np.errstate(all="ignore"):
                prog = APP.program.cli(["mchap", prog_name] + list(task["argv"]))
                for locus in prog.loci():
                    prog.call_locus(locus, prog.sample_bams)
    finally:
        APP.minimum_error_correction = orig
    rnd = random.Random(task["seed"])
    events = []
    used = 0
    for reads, haps in pairs:
        if reads.ndim != 2 or reads.shape[1] == 0 or haps.ndim != 2 or len(haps) == 0:
            continue
        if len(reads) > task.get("maxreads", 30):
            idx = sorted(rnd.sample(range(len(reads)), task.get("maxreads", 30)))
            reads = reads[idx]
        na = int(max(reads.max(initial=0), haps.max(initial=0))) + 1
        used += 1
        events.extend(events_for(reads, haps, max(na, 2), [1, 2, 3], prog_name))
    return {"events": events, "pairs": len(pairs), "used": used}


def run(task):
    op = task["op"]
    if op == "states":
        rnd = random.Random(task["seed"])
        c = Collector()
        n = nontriv = 0
        feats = {}
        for st in task["states"]:
            f = one_state(c, st, rnd)
            n += 1
            if "partly-represented" in f or "mincov-between" in f:
                nontriv += 1
            for x in f:
                feats[x] = feats.get(x, 0) + 1
        errs, seen = [], {}
        for e in c.errors:
            kk = (e["fn"], e["feature"], e["error"][:40])
            seen[kk] = seen.get(kk, 0) + 1
            if seen[kk] <= 3:
                errs.append(e)
        return {"n": n, "checks": c.checks, "bad": c.bad, "info": c.info, "errors": errs, "nerrors": len(c.errors),
                "error_counts": [[list(k), v] for k, v in seen.items()],
                "nontrivial": nontriv, "features": feats}
    if op == "random":
        return random_events(task["n"], task["seed"])
    if op == "program":
        return program_events(task)
    raise ValueError(op)
