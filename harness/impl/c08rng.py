"""C08 / Reseed: histories of fits and raw RNG consumption executed in ONE real (compiled) process.

A history is a list of operations [code, x, s]: 1 = np.random.rand() in the interpreter, 2 = a jitted function drawing
np.random.rand() (numba's generator), 3 = fit of input x with random_seed = SEEDS[s].  Events carry fingerprints of
np.random.get_state() and of numba's generator state; np.random.seed and the three modules' seed_numba are wrapped so
that the seeding done by the fit itself is observed in place.
"""
import hashlib

import numba
import numpy as np
from numba import _helperlib

SEEDS = {1: 11, 2: 0, 3: 7, 4: 123456}   # 0 is a legal --mcmc-seed and must seed like any other value
SEED_ID = {v: k for k, v in SEEDS.items()}


@numba.njit
def _nb_draw():
    return np.random.rand()


def fp(b):
    h = hashlib.sha1(b).digest()
    return [int.from_bytes(h[0:4], "big") >> 4, int.from_bytes(h[4:8], "big") >> 4]


def fp_np():
    st = np.random.get_state()
    return fp(st[1].tobytes() + repr(st[2:]).encode())


def fp_nb():
    st = _helperlib.rnd_get_state(_helperlib.rnd_get_np_state_ptr())
    return fp(repr(st).encode())


def rational_reads(rnd, n_reads, N, na, gap=0.15):
    A = max(na)
    reads = np.zeros((n_reads, N, A))
    for r in range(n_reads):
        for j in range(N):
            if r != j % n_reads and rnd.rand() < gap:
                reads[r, j, :] = np.nan
            else:
                a = rnd.randint(na[j])
                reads[r, j, : na[j]] = 0.125 / max(1, na[j] - 1)
                reads[r, j, a] = 0.875
    return reads


_INPUTS = {}


def build_inputs(steps):
    """x -> callable running the real fit with a given real seed and returning the bytes of what it returned"""
    from mchap.assemble.mcmc import DenovoMCMC
    from mchap.calling.classes import CallingMCMC
    from mchap.pedigree.classes import PedigreeCallingMCMC

    rnd = np.random.RandomState(20240)
    inp = {}
    # 1: de novo assembly, tetraploid, 4 SNVs (one triallelic), parallel tempering, two chains
    na1 = [2, 3, 2, 2]
    r1 = rational_reads(rnd, 12, 4, na1)
    c1 = rnd.randint(1, 4, size=12).astype(np.int64)

    def f1(seed):
        m = DenovoMCMC(ploidy=4, n_alleles=na1, steps=steps, chains=2, fix_homozygous=0.999, temperatures=(0.3, 0.7, 1.0),
                       random_seed=seed, inbreeding=0.1)
        t = m.fit(r1, read_counts=c1)
        return np.asarray(t.genotypes).tobytes() + np.asarray(t.llks).tobytes()

    inp[1] = ("DenovoMCMC.fit", f1)
    # 2: call from known haplotypes
    haps = np.unique(rnd.randint(0, 2, size=(18, 4)), axis=0)[:6].astype(np.int8)
    r2 = rational_reads(rnd, 9, 4, [2] * 4)
    c2 = rnd.randint(1, 4, size=9).astype(np.int64)

    def f2(seed):
        m = CallingMCMC(ploidy=4, haplotypes=haps, inbreeding=0.05, steps=steps, chains=2, random_seed=seed, step_type="Gibbs")
        t = m.fit(r2, read_counts=c2)
        return np.asarray(t.genotypes).tobytes() + np.asarray(t.llks).tobytes()

    inp[2] = ("CallingMCMC.fit", f2)
    # 3: pedigree trio
    S, R = 3, 6
    srd = np.full((S, R, 4, 2), np.nan)
    src = np.zeros((S, R), dtype=np.int64)
    for s, n in enumerate((3, 6, 4)):
        srd[s, :n] = rational_reads(rnd, n, 4, [2] * 4)
        src[s, :n] = rnd.randint(1, 4, size=n)

    def f3(seed):
        m = PedigreeCallingMCMC(
            sample_ploidy=np.array([4, 4, 4]), sample_inbreeding=np.zeros(S), sample_parents=np.array([[-1, -1], [-1, -1], [0, 1]]),
            gamete_tau=np.full((S, 2), 2), gamete_lambda=np.zeros((S, 2)), gamete_error=np.full((S, 2), 0.01),
            haplotypes=haps, steps=steps, annealing=steps // 2, chains=2, random_seed=seed, step_type="Gibbs", swap_parental_alleles=True)
        t = m.fit(srd, src)
        return np.asarray(t.genotypes).tobytes()

    inp[3] = ("PedigreeCallingMCMC.fit", f3)
    # 4: de novo, diploid, Metropolis-free small instance with a fixed homozygous site and one chain
    na4 = [2, 2, 2]
    r4 = rational_reads(rnd, 8, 3, na4, gap=0.0)
    r4[:, 1, :] = [0.875, 0.125]

    def f4(seed):
        m = DenovoMCMC(ploidy=2, n_alleles=na4, steps=steps, chains=1, fix_homozygous=0.9, temperatures=(1.0,), random_seed=seed)
        t = m.fit(r4)
        return np.asarray(t.genotypes).tobytes() + np.asarray(t.llks).tobytes()

    inp[4] = ("DenovoMCMC.fit (one chain, homozygous site fixed)", f4)
    # 5: call, Metropolis-Hastings steps
    def f5(seed):
        m = CallingMCMC(ploidy=2, haplotypes=haps, inbreeding=0.0, steps=steps, chains=1, random_seed=seed, step_type="Metropolis-Hastings")
        t = m.fit(r2, read_counts=c2)
        return np.asarray(t.genotypes).tobytes() + np.asarray(t.llks).tobytes()

    inp[5] = ("CallingMCMC.fit (Metropolis-Hastings)", f5)
    return inp


def run(task):
    """task: {"histories": [[[code, x, s], ...], ...], "steps": n}  ->  {"header":.., "events": [...]}"""
    import mchap.assemble.mcmc as AM
    import mchap.calling.classes as CC
    import mchap.pedigree.classes as PC

    steps = task.get("steps", 30)
    key = ("inputs", steps)
    if key not in _INPUTS:
        _INPUTS[key] = build_inputs(steps)
    inputs = _INPUTS[key]
    events = []
    infit = [False]
    real_np_seed = np.random.seed
    real_sn = {m: m.seed_numba for m in (AM, CC, PC)}

    def rec_np_seed(seed=None):
        if not infit[0]:
            return real_np_seed(seed)
        a, b = fp_np(), fp_nb()
        real_np_seed(seed)
        events.append({"op": "seed_np", "x": 0, "seed": SEED_ID.get(seed, 0), "np0": a, "nb0": b, "np1": fp_np(), "nb1": fp_nb(), "out": [0, 0]})

    def make_sn(real):
        def rec_sn(seed):
            if not infit[0]:
                return real(seed)
            a, b = fp_np(), fp_nb()
            real(seed)
            events.append({"op": "seed_nb", "x": 0, "seed": SEED_ID.get(seed, 0), "np0": a, "nb0": b, "np1": fp_np(), "nb1": fp_nb(), "out": [0, 0]})

        return rec_sn

    _nb_draw()  # compile outside any history
    from mchap import jitutils as _J

    _J.seed_numba(1)  # compile seed_numba while np.random.seed is still numpy's own (numba types the global at compile time)
    header = {"np": fp_np(), "nb": fp_nb(), "inputs": {str(k): v[0] for k, v in inputs.items()}, "seeds": SEEDS}
    nfit = 0
    np.random.seed = rec_np_seed
    for m in real_sn:
        m.seed_numba = make_sn(real_sn[m])
    try:
        with np.errstate(all="ignore"):
            for h in task["histories"]:
                for code, x, s in h:
                    a, b = fp_np(), fp_nb()
                    if code == 1:
                        np.random.rand()
                        events.append({"op": "np", "x": 0, "seed": 0, "np0": a, "nb0": b, "np1": fp_np(), "nb1": fp_nb(), "out": [0, 0]})
                    elif code == 2:
                        _nb_draw()
                        events.append({"op": "nb", "x": 0, "seed": 0, "np0": a, "nb0": b, "np1": fp_np(), "nb1": fp_nb(), "out": [0, 0]})
                    else:
                        events.append({"op": "enter", "x": x, "seed": s, "np0": a, "nb0": b, "np1": a, "nb1": b, "out": [0, 0]})
                        infit[0] = True
                        try:
                            out = inputs[x][1](SEEDS[s])
                        finally:
                            infit[0] = False
                        a, b = fp_np(), fp_nb()
                        events.append({"op": "ran", "x": x, "seed": s, "np0": a, "nb0": b, "np1": a, "nb1": b, "out": [0, 0]})
                        events.append({"op": "return", "x": x, "seed": s, "np0": a, "nb0": b, "np1": a, "nb1": b, "out": fp(out)})
                        nfit += 1
    finally:
        np.random.seed = real_np_seed
        for m in real_sn:
            m.seed_numba = real_sn[m]
    return {"header": header, "events": events, "fits": nfit, "histories": len(task["histories"])}
