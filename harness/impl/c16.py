"""Implementation side of C16: LocusPrior.from_variant_record, parse_allele_filter, program runs."""
import math
import os
import tempfile


def setup():
    global pysam, LocusPrior, parse_allele_filter, np
    import numpy as np
    import pysam
    from mchap.io import LocusPrior
    from mchap.io.filter_alleles import parse_allele_filter


_OPNAME = {"equal": "==", "not_equal": "!=", "greater": ">", "greater_equal": ">=", "less": "<", "less_equal": "<="}


def run(task):
    op = task["op"]
    if op == "prior":
        # task: {"text": VCF text (one record per item, same order), "items": [{"tag":..,"filter":..}]}
        fd, p = tempfile.mkstemp(suffix=".vcf", dir=task["dir"])
        os.close(fd)
        out = []
        try:
            with open(p, "w") as fh:
                fh.write(task["text"])
            with pysam.VariantFile(p) as vf:
                recs = list(vf)
                if len(recs) != len(task["items"]):
                    raise RuntimeError("record count mismatch %d/%d" % (len(recs), len(task["items"])))
                for rec, it in zip(recs, task["items"]):
                    try:
                        lp = LocusPrior.from_variant_record(rec, frequency_tag=it["tag"], allele_filter=it["filter"])
                        out.append({
                            "alts": list(lp.alts),
                            "ref": lp.sequence,
                            "mask": bool(lp.mask_reference_allele),
                            "freq": [None if (isinstance(x, float) and math.isnan(x)) else float(x) for x in lp.frequencies.tolist()],
                            "dtype": str(lp.frequencies.dtype),
                        })
                    except Exception as e:
                        out.append({"error": "%s: %s" % (type(e).__name__, str(e)[:200]), "etype": type(e).__name__})
        finally:
            os.remove(p)
        return out
    if op == "parse":
        out = []
        for s in task["strings"]:
            try:
                f, fn, v = parse_allele_filter(s)
                out.append({"field": f, "op": _OPNAME.get(fn.__name__, fn.__name__), "value": float(v), "vtype": type(v).__name__})
            except ValueError as e:
                out.append({"rejected": str(e)[:120]})
            except Exception as e:
                out.append({"error": "%s: %s" % (type(e).__name__, e)})
        return out
    if op == "program":
        from impl import c12prog
        import importlib

        # observe what the program hands to its sampler: per input record (locus name), the number of haplotype alleles
        # every sampler object was built with (call: one per sample; call-pedigree: one per record)
        sampled = {}
        cur = {"name": None}
        undo = []
        if task["name"] in ("call", "call-pedigree"):
            mod = importlib.import_module(c12prog._MODULES[task["name"]])
            cls_name = "CallingMCMC" if task["name"] == "call" else "PedigreeCallingMCMC"
            orig_cls = getattr(mod, cls_name)
            orig_m = mod.program.call_sample_genotypes

            def per_locus(self, data, _o=orig_m):
                cur["name"] = str(data.locus.name)
                return _o(self, data)

            def spy(*a, **k):
                h = k.get("haplotypes")
                if h is not None and cur["name"] is not None:
                    sampled.setdefault(cur["name"], []).append(int(len(h)))
                return orig_cls(*a, **k)

            mod.program.call_sample_genotypes = per_locus
            setattr(mod, cls_name, spy)
            undo = [(mod.program, "call_sample_genotypes", orig_m), (mod, cls_name, orig_cls)]
        try:
            r = c12prog.run_program(task["name"], task["argv"])
        finally:
            for o, n, v in undo:
                setattr(o, n, v)
        r.pop("partial", None)
        r["sampled"] = sampled
        return r
    if op == "cli":
        from impl import c12prog

        return c12prog.run_cli(task["argv"])
    raise ValueError(op)
