"""Implementation side of C10: the same in-process program runner as C07
(stdout of `program.cli(argv).run_stdout()` captured inside a jit-mode worker)."""
from impl.c07 import setup, run  # noqa: F401
