"""Implementation side of X05 (sequence encodings, loci files, record text).

ops
  seq     : replay the history of a TLC state of EncodingAndLoci.tla through the real transcoding functions
  mat     : SeqMatrix.tla states -> argsort / sort / depth / is_gap / is_call / is_valid / character.depth
  loci    : LociFile.tla behaviours -> a targets file on disk (plain and gzip) -> read_bed4, from_region_string
  merge   : SnpMerge.tla behaviours -> _merge_snps (all streams) and Locus.set_variants on an indexed VCF (sorted streams)
  value   : VcfText.tla value states -> vcfstr
  record  : VcfText.tla record behaviours -> format_info_field / format_sample_field / format_record
  random  : recorded direct calls on seeded random arguments -> events for TraceEncodingAndLoci.tla
  program : recorded calls during a real program run -> events
  header  : headermeta lines
"""
import gzip
import os
import random
import warnings

import numpy as np

GAPC = "-"


def setup():
    global INT, CHR, ITR, ISQ, LOCI, VUTIL, VREC, VCF, HM
    from mchap.encoding import integer as INT
    from mchap.encoding import character as CHR
    from mchap.encoding.integer import transcode as ITR
    from mchap.encoding.integer import sequence as ISQ
    from mchap.io import loci as LOCI
    from mchap.io.vcf import util as VUTIL
    from mchap.io.vcf import records as VREC
    from mchap.io import vcf as VCF
    from mchap.io.vcf import headermeta as HM


def codes(s):
    return [ord(c) for c in s]


def text(cs):
    return "".join(chr(c) for c in cs)


def table_for(L, na):
    return [tuple("ACTG"[:na]) if i % 2 == 0 else tuple("GACT"[:na]) for i in range(L)]


def prob_out(arr):
    out = []
    for row in np.asarray(arr, dtype=float):
        out.append([-7 if np.isnan(v) else int(round(float(v) * 1000)) for v in row])
    return out


# ---- (a) sequences -------------------------------------------------------------
def replay_seq(st, na):
    cur = np.array(st["abs"], dtype=np.int8)
    extra = {}
    for h in st["hist"]:
        op = h["op"]
        if op == "Decode":
            s = INT.as_strings(cur)
            s2 = ITR.vector_as_string(cur)
            if s != s2:
                extra["vector_as_string"] = [s, s2]
            cur = s
        elif op == "Encode":
            a = INT.from_strings(cur)
            b = ITR.vector_from_string(cur)
            if a.tolist() != b.tolist():
                extra["vector_from_string"] = [a.tolist(), b.tolist()]
            cur = a
        elif op == "ToProbabilistic":
            nall = np.array(h["nAll"], dtype=int)
            p = h["P"] / 1000.0
            a = INT.as_probabilistic(cur, nall, p=p, error_factor=h["EF"])
            if len(set(h["nAll"])) == 1:
                b = INT.as_probabilistic(cur, h["nAll"][0], p=np.full(len(cur), p), error_factor=h["EF"])
                if prob_out(a) != prob_out(b):
                    extra["scalar_n_alleles"] = [prob_out(a), prob_out(b)]
            cur = a
        elif op == "ToAllelic":
            m = np.asarray(cur)
            out = []
            for row in m:
                if np.isnan(row).any():
                    out.append(-1)
                else:
                    out.append(int(np.argmax(row)))
            cur = np.array(out, dtype=np.int8)
        elif op == "ToChars":
            tb = table_for(len(cur), na)
            a = INT.as_characters(cur, alleles=tb)
            b = ITR.vector_as_characters(cur, alleles=tb)
            if a.tolist() != b.tolist():
                extra["vector_as_characters"] = [a.tolist(), b.tolist()]
            cur = a
        elif op == "FromChars":
            tb = table_for(len(cur), na)
            cur = CHR.as_allelic(cur, alleles=tb)
        else:
            raise ValueError(op)
    rep = st["rep"]
    if rep == "int":
        a = np.asarray(cur)
        val = [int(x) for x in a]
        g, c, v = INT.is_gap(a), INT.is_call(a), INT.is_valid(a)
        extra_int = {"is_gap": [bool(x) for x in g], "is_call": [bool(x) for x in c], "is_valid": [bool(x) for x in v]}
        return {"val": val, "int": extra_int, "extra": extra}
    if rep == "str":
        return {"val": codes(cur), "extra": extra}
    if rep == "chr":
        ch = np.asarray(cur)
        return {"val": [ord(x) for x in ch], "chr_is_gap": [bool(x) for x in CHR.is_gap(ch)], "extra": extra}
    if rep == "prob":
        return {"val": prob_out(cur), "extra": extra}
    raise ValueError(rep)


def run_mat(st):
    m = np.array(st["m"], dtype=np.int8)
    perm = [int(x) + 1 for x in INT.argsort(m)]
    srt = INT.sort(m).tolist()
    dep = [int(x) for x in INT.depth(m)]
    counts = np.arange(1, len(m) + 1)
    depw = [int(x) for x in INT.depth(m, counts=counts)]
    wantw = [int(sum(counts[i] for i in range(len(m)) if m[i][j] >= 0)) for j in range(m.shape[1])]
    g, c, v = INT.is_gap(m), INT.is_call(m), INT.is_valid(m)
    part = bool(np.all(g != c)) and bool(np.all(v)) and bool(np.all(g == (m == -1)))
    chars = INT.as_characters(m)
    cdep = [int(x) for x in CHR.depth(chars)]
    strs = INT.as_strings(m)
    back = INT.from_strings(strs).tolist()
    return {"perm": perm, "sorted": srt, "depth": dep, "depthw": depw, "wantw": wantw, "partition": part,
            "cdepth": cdep, "back": back}


# ---- (b) loci --------------------------------------------------------------------
CONTIG = {1: "chr1", 2: "ctg_2"}
NAME = {1: "locA", 2: "t.7"}


def bed_text(file):
    lines = []
    for ln in file:
        if ln["kind"] == "comment":
            lines.append("#contig\tstart\tstop\tid")
        else:
            cols = [CONTIG[ln["contig"]], str(ln["start"]), str(ln["stop"])]
            if ln["name"]:
                cols.append(NAME[ln["name"]])
            if ln["name"]:  # further (ignored) columns exist only behind the identifier column
                cols += ["0", "+"][: ln["extra"]]
            lines.append("\t".join(cols))
    return "".join(l + "\n" for l in lines)


def loc_out(l):
    return {"contig": l.contig, "start": l.start, "stop": l.stop, "name": l.name,
            "sequence": l.sequence, "variants": l.variants, "type": type(l).__name__}


def run_loci(task):
    wd = task["wd"]
    os.makedirs(wd, exist_ok=True)
    out = []
    for k, file in enumerate(task["files"]):
        txt = bed_text(file)
        p1 = os.path.join(wd, "t%d.bed" % os.getpid())
        p2 = p1 + ".gz"
        with open(p1, "w") as fh:
            fh.write(txt)
        with gzip.open(p2, "wt") as fh:
            fh.write(txt)
        r = {}
        for tag, p in (("plain", p1), ("gzip", p2)):
            try:
                r[tag] = [loc_out(l) for l in LOCI.read_bed4(p)]
            except Exception as e:
                r[tag] = "ERR %s: %s" % (type(e).__name__, e)
        reg = []
        for ln in file:
            if ln["kind"] == "rec":
                s = "%s:%d-%d" % (CONTIG[ln["contig"]], ln["start"], ln["stop"])
                try:
                    reg.append(loc_out(LOCI.Locus.from_region_string(s, NAME.get(ln["name"]))))
                except Exception as e:
                    reg.append("ERR %s: %s" % (type(e).__name__, e))
        r["region"] = reg
        out.append(r)
    return out


def run_merge(task):
    import pysam

    wd = task["wd"]
    os.makedirs(wd, exist_ok=True)
    out = []
    for st in task["states"]:
        recs = st["recs"][: st["taken"]]
        # direct: fold with _merge_snps for repeated positions
        order, byp, err = [], {}, None
        for r in recs:
            snp = LOCI.SNP("chr1", r["pos"], r["pos"] + 1, ".", tuple(chr(c) for c in r["alleles"]))
            if r["pos"] in byp:
                try:
                    byp[r["pos"]] = LOCI._merge_snps(byp[r["pos"]], snp)
                except ValueError as e:
                    err = str(e)
                    break
            else:
                byp[r["pos"]] = snp
                order.append(r["pos"])
        res = {"direct": {"err": err is not None,
                          "variants": [{"pos": p, "alleles": [ord(c) for c in byp[p].alleles],
                                        "name": byp[p].name, "contig": byp[p].contig, "stop": byp[p].stop} for p in order]}}
        # through the file: only position-sorted streams can be in an indexed VCF
        if recs and all(recs[i]["pos"] <= recs[i + 1]["pos"] for i in range(len(recs) - 1)):
            p = os.path.join(wd, "v%d.vcf" % os.getpid())
            with open(p, "w") as fh:
                fh.write("##fileformat=VCFv4.3\n##contig=<ID=chr1,length=100>\n#CHROM\tPOS\tID\tREF\tALT\tQUAL\tFILTER\tINFO\n")
                for r in recs:
                    al = [chr(c) for c in r["alleles"]]
                    fh.write("chr1\t%d\t.\t%s\t%s\t.\t.\t.\n" % (r["pos"] + 1, al[0], ",".join(al[1:])))
            for ext in (".gz", ".gz.tbi"):
                if os.path.exists(p + ext):
                    os.remove(p + ext)
            gz = pysam.tabix_index(p, preset="vcf", force=True)
            loc = LOCI.Locus("chr1", 0, 20, "x", None, None)
            try:
                l2 = loc.set_variants(gz)
                res["file"] = {"err": False, "variants": [{"pos": v.start, "alleles": [ord(c) for c in v.alleles]} for v in l2.variants]}
            except ValueError as e:
                res["file"] = {"err": True, "variants": [], "msg": str(e)}
        out.append(res)
    return out


# ---- (c) text -------------------------------------------------------------------------
def scalar_obj(x):
    k = x["k"]
    if k == "none":
        return None
    if k == "nan":
        return float("nan")
    if k == "int":
        return int(x["n"])
    if k == "flt":
        return x["n"] / 10000.0
    if k == "f32":
        return np.float32(x["n"] / 10000.0)
    if k == "str":
        return text(x["s"])
    raise ValueError(k)


def value_obj(v):
    c = v["c"]
    if c == "scalar":
        return scalar_obj(v["xs"][0])
    if c == "list":
        return [scalar_obj(x) for x in v["xs"]]
    if c == "tuple":
        return tuple(scalar_obj(x) for x in v["xs"])
    if c == "farr":
        return np.array([scalar_obj(x) for x in v["xs"]], dtype=float)
    if c == "iarr":
        return np.array([scalar_obj(x) for x in v["xs"]], dtype=np.int64)
    if c == "nest":
        return [[scalar_obj(x) for x in xs] for xs in v["xs"]]
    raise ValueError(c)


def run_value(states):
    out = []
    for st in states:
        try:
            out.append(codes(VUTIL.vcfstr(value_obj(st["v"]), precision=st["prec"])))
        except Exception as e:
            out.append("ERR %s: %s" % (type(e).__name__, e))
    return out


def run_record(states):
    out = []
    for st in states:
        rec = st["rec"]
        try:
            kw = {}
            for e in rec["info"]:
                kw[text(e["key"])] = bool(e["on"]) if e["flag"] else value_obj(e["v"])
            info = VCF.format_info_field(precision=3, **kw)
            kw = {}
            for k in rec["keys"]:
                if k == "GT":
                    kw[k] = [list(s["gt"]) for s in rec["samples"]]
                elif k == "DP":
                    kw[k] = [value_obj(s["dp"]) for s in rec["samples"]]
                else:
                    kw[k] = [value_obj(s["pr"]) for s in rec["samples"]]
            fmt = VCF.format_sample_field(precision=3, **kw)
            c = rec["cols"]
            line = VCF.format_record(chrom=text(c["chrom"]), pos=c["pos"], id=text(c["id"]) or None, ref=text(c["ref"]),
                                     alt=[text(a) for a in c["alt"]], qual=None, filter=text(c["filter"]) or None,
                                     info=info, format=fmt, precision=3)
            out.append({"info": codes(info), "fmt": codes(fmt), "line": codes(line)})
        except Exception as e:
            out.append("ERR %s: %s" % (type(e).__name__, e))
    return out


# ---- events ------------------------------------------------------------------------------
def abs_scalar(o):
    if o is None:
        return {"k": "none", "n": 0, "s": []}
    if isinstance(o, str):
        return {"k": "str", "n": 0, "s": codes(o)}
    if isinstance(o, (bool, np.bool_)):
        return {"k": "str", "n": 0, "s": codes(str(bool(o)))}
    if isinstance(o, (int, np.integer)):
        v = int(o)
        return {"k": "int", "n": v, "s": []} if abs(v) < 2**31 - 1 else {"k": "big", "n": 0, "s": []}
    if isinstance(o, (float, np.floating)):
        v = float(o)
        if np.isnan(v):
            return {"k": "nan", "n": 0, "s": []}
        if not np.isfinite(v) or abs(v) >= 2000:
            return {"k": "big", "n": 0, "s": []}
        return {"k": "flt", "n": int(round(v * 1e6)), "s": []}
    return None


def abs_value(o):
    """flatten a python value into the list of its scalar members (None if it cannot be described)"""
    s = abs_scalar(o)
    if s is not None:
        return [s]
    if isinstance(o, (list, tuple, np.ndarray)):
        out = []
        for x in o:
            sub = abs_value(x)
            if sub is None:
                return None
            if isinstance(x, (list, tuple, np.ndarray)) and len(sub) == 0:
                sub = [{"k": "none", "n": 0, "s": []}]
            out.extend(sub)
        return out
    return None


class Recorder:
    def __init__(self, cap=300):
        self.ev = []
        self.n = {}
        self.cap = cap
        self.skipped = {}
        self.depth = 0

    def add(self, e):
        k = e["op"]
        self.n[k] = self.n.get(k, 0) + 1
        if self.n[k] <= self.cap:
            self.ev.append(e)

    def skip(self, k):
        self.skipped[k] = self.skipped.get(k, 0) + 1

    # wrappers ---------------------------------------------------------------
    def vcfstr(self, orig):
        def w(obj, precision=3):
            out = orig(obj, precision=precision)
            try:
                if isinstance(obj, str) and ("," in obj or "\t" in obj or len(obj) > 30):
                    self.skip("vcfstr-text")
                else:
                    xs = abs_value(obj)
                    if xs is None or len(xs) > 40 or len(out) > 400:
                        self.skip("vcfstr-other")
                    else:
                        self.add({"op": "vcfstr", "xs": xs, "prec": int(precision), "text": codes(out)})
            except Exception as e:  # recording must never change behaviour
                self.skip("vcfstr-error %s" % type(e).__name__)
            return out
        return w

    def info(self, orig):
        def w(precision=3, **kw):
            out = orig(precision=precision, **kw)
            ent = []
            for k, v in kw.items():
                kind = ("on" if v is True else "off") if isinstance(v, bool) else "value"
                ent.append({"key": codes(k), "kind": kind})
            self.add({"op": "info", "entries": ent, "text": codes(out)})
            return out
        return w

    def sample(self, orig):
        def w(precision=3, **kw):
            gts = [[int(a) for a in g] for g in kw["GT"]]
            keys = [codes(k) for k in kw.keys()]
            gtat = list(kw.keys()).index("GT") + 1
            out = orig(precision=precision, **kw)
            if len(out) < 3000:
                self.add({"op": "sample", "keys": keys, "gts": gts, "gtat": gtat, "text": codes(out)})
            else:
                self.skip("sample-long")
            return out
        return w

    def record(self, orig):
        def w(*a, **kw):
            out = orig(*a, **kw)
            names = ["chrom", "pos", "id", "ref", "alt", "qual", "filter", "info", "format"]
            vals = list(a) + [kw[n] for n in names[len(a):]]
            fields = []
            for v in vals:
                if v is None:
                    fields.append([])
                elif isinstance(v, str):
                    fields.append(codes(v))
                elif isinstance(v, (int, np.integer)) and not isinstance(v, bool):
                    fields.append(codes(str(int(v))))
                elif isinstance(v, (list, tuple)) and all(isinstance(x, str) for x in v):
                    fields.append(codes(",".join(v)))
                else:
                    fields = None
                    break
            if fields is None or len(out) > 4000:
                self.skip("record-other")
            else:
                self.add({"op": "record", "fields": fields, "text": codes(out)})
            return out
        return w

    def as_allelic(self, orig):
        def w(array, alleles=None, **kw):
            out = orig(array, alleles=alleles, **kw)
            try:
                a = np.asarray(array)
                o = np.asarray(out)
                if alleles is not None and a.ndim == 2 and a.shape[1] > 0:
                    tb = [[ord(c) for c in tup] for tup in alleles]
                    for i in range(min(len(a), 4)):
                        self.add({"op": "as_allelic", "chars": [ord(c) for c in a[i]], "table": tb, "out": [int(x) for x in o[i]]})
                else:
                    self.skip("as_allelic-shape")
            except Exception as e:
                self.skip("as_allelic-error %s" % type(e).__name__)
            return out
        return w

    def as_characters(self, orig):
        def w(array, gap="-", alleles=None):
            out = orig(array, gap=gap, alleles=alleles)
            try:
                a = np.asarray(array)
                if alleles is not None and gap == "-" and a.ndim == 2 and a.shape[1] > 0:
                    tb = [[ord(c) for c in tup] for tup in alleles]
                    for i in range(min(len(a), 4)):
                        self.add({"op": "as_characters", "ints": [int(x) for x in a[i]], "table": tb, "chars": [ord(c) for c in out[i]]})
                else:
                    self.skip("as_characters-shape")
            except Exception as e:
                self.skip("as_characters-error %s" % type(e).__name__)
            return out
        return w

    def as_probabilistic(self, orig):
        def w(array, n_alleles=4, p=1.0, error_factor=3, dtype=float):
            out = orig(array, n_alleles=n_alleles, p=p, error_factor=error_factor, dtype=dtype)
            try:
                a = np.asarray(array)
                if a.ndim == 2 and a.shape[1] > 0 and np.ndim(error_factor) == 0 and float(error_factor) == int(error_factor):
                    nall = np.broadcast_to(np.asarray(n_alleles), a.shape)
                    pp = np.broadcast_to(np.asarray(p, dtype=float), a.shape)
                    for i in range(min(len(a), 4)):
                        rows = [[-7 if np.isnan(v) else int(round(float(v) * 1e6)) for v in r] for r in out[i]]
                        self.add({"op": "as_probabilistic", "ints": [int(x) for x in a[i]], "nAll": [int(x) for x in nall[i]],
                                  "P": [int(round(float(x) * 1e6)) for x in pp[i]], "EF": int(error_factor), "rows": rows})
                else:
                    self.skip("as_probabilistic-shape")
            except Exception as e:
                self.skip("as_probabilistic-error %s" % type(e).__name__)
            return out
        return w

    def argsort(self, orig):
        def w(array):
            out = orig(array)
            a = np.asarray(array)
            if a.ndim == 2 and len(a) <= 12:
                self.add({"op": "argsort", "m": [[int(x) for x in r] for r in a], "perm": [int(x) for x in out]})
            else:
                self.skip("argsort-shape")
            return out
        return w

    def cdepth(self, orig):
        def w(array, gap="-"):
            out = orig(array, gap=gap)
            a = np.asarray(array)
            if a.ndim == 2 and len(a) <= 60 and a.shape[1] > 0:
                self.add({"op": "depth", "m": [[-1 if c == gap else 0 for c in r] for r in a], "out": [int(x) for x in out]})
            else:
                self.skip("depth-shape")
            return out
        return w

    def read_bed4(self, orig):
        def w(bed, region=None):
            want = []
            op = gzip.open if open(bed, "rb").read(2) == b"\x1f\x8b" else open
            with op(bed, "rt") as fh:
                for ln in fh:
                    if ln.startswith("#"):
                        continue
                    c = ln.rstrip("\n").split("\t")
                    want.append([codes(c[0]), int(c[1]), int(c[2]), codes(c[3]) if len(c) > 3 else []])
            n = 0
            for l in orig(bed, region=region):
                got = [codes(l.contig), int(l.start), int(l.stop), codes(l.name) if l.name is not None else []]
                self.add({"op": "locus", "idx": n + 1, "want": want[n] if n < len(want) else [], "got": got})
                n += 1
                yield l
            self.add({"op": "loci_end", "count": n, "targets": len(want)})
        return w


def program_events(task):
    import importlib

    prog_name = task["prog"]
    APP = importlib.import_module("mchap.application." + prog_name.replace("-", "_"))
    from mchap.io import bam as BAM
    from mchap.encoding import integer as PINT, character as PCHR

    rec = Recorder(cap=task.get("cap", 300))
    patches = [
        (VUTIL, "vcfstr", rec.vcfstr), (VREC, "vcfstr", rec.vcfstr),
        (VCF, "format_info_field", rec.info), (VCF, "format_sample_field", rec.sample), (VCF, "format_record", rec.record),
        (BAM, "_as_allelic", rec.as_allelic), (BAM, "_as_probabilistic", rec.as_probabilistic),
        (PCHR, "as_allelic", rec.as_allelic), (PINT, "as_characters", rec.as_characters),
        (ISQ, "argsort", rec.argsort), (PCHR, "depth", rec.cdepth),
    ]
    if hasattr(APP, "read_bed4"):
        patches.append((APP, "read_bed4", rec.read_bed4))
    saved = []
    for mod, name, mk in patches:
        orig = getattr(mod, name)
        saved.append((mod, name, orig))
        setattr(mod, name, mk(orig))
    lines = []
    try:
        with warnings.catch_warnings():
            warnings.simplefilter("ignore")
            with np.errstate(all="ignore"):
                prog = APP.program.cli(["mchap", prog_name] + list(task["argv"]))
                header = [str(h) for h in prog.header()]
                for locus in prog.loci():
                    lines.append(prog.call_locus(locus, prog.sample_bams))
    finally:
        for mod, name, orig in saved:
            setattr(mod, name, orig)
    ids = [[l.split("\t")[0], int(l.split("\t")[1]), l.split("\t")[2]] for l in lines]
    return {"events": rec.ev, "counts": rec.n, "skipped": rec.skipped, "records": ids, "header": header}


def random_events(task):
    rnd = random.Random(task["seed"])
    ev = []
    for _ in range(task["n"]):
        L = rnd.randint(1, 9)
        na = rnd.randint(1, 9)
        s = [rnd.choice([-1] + list(range(na))) for _ in range(L)]
        a = np.array(s, dtype=rnd.choice([np.int8, np.int64]))
        t = INT.as_strings(a)
        ev.append({"op": "as_strings", "ints": s, "text": codes(t)})
        gaps = rnd.choice(["-", "-N", "."])
        t2 = "".join(rnd.choice(gaps) if x < 0 else str(x) for x in s)
        o = INT.from_strings(t2, gaps=gaps)
        ev.append({"op": "from_strings", "text": codes(t2.replace("N", "-").replace(".", "-")), "out": [int(x) for x in o]})
        R = rnd.randint(1, 6)
        m = [[rnd.choice([-1, 0, 1, 2]) for _ in range(L)] for _ in range(R)]
        ev.append({"op": "argsort", "m": m, "perm": [int(x) for x in INT.argsort(np.array(m))]})
        ev.append({"op": "depth", "m": m, "out": [int(x) for x in INT.depth(np.array(m))]})
        # value text on floats that are not multiples of 10^-4
        k = rnd.randint(0, 4)
        vals = [rnd.choice([rnd.random(), rnd.random() * 100, float(rnd.randint(0, 30)), float("nan"), rnd.random() * 1e-3]) for _ in range(k)]
        prec = rnd.choice([0, 1, 2, 3, 4])  # below 10^-4 Python switches to exponent notation (legal VCF, not modelled)
        obj = np.array(vals, dtype=float)
        ev.append({"op": "vcfstr", "xs": abs_value(obj), "prec": prec, "text": codes(VUTIL.vcfstr(obj, precision=prec)), "form": "farr"})
        if vals:
            ev.append({"op": "vcfstr", "xs": abs_value(vals[0]), "prec": prec, "text": codes(VUTIL.vcfstr(vals[0], precision=prec)), "form": "float"})
        x = tuple(rnd.sample("ACGT", rnd.randint(2, 4)))
        y = (x[0],) + tuple(rnd.sample("ACGT", rnd.randint(1, 3)))
        y = tuple(dict.fromkeys(y))
        mg = LOCI._merge_snps(LOCI.SNP("c", 5, 6, ".", x), LOCI.SNP("c", 5, 6, ".", y))
        ev.append({"op": "merge", "x": codes(x), "y": codes(y), "out": codes(mg.alleles)})
        tb = [tuple(rnd.sample("ACGT", rnd.randint(1, 4))) for _ in range(L)]
        ints = [rnd.choice([-1] + list(range(len(tb[i])))) for i in range(L)]
        ch = INT.as_characters(np.array(ints), alleles=tb)
        ev.append({"op": "as_characters", "ints": ints, "table": [codes(t) for t in tb], "chars": [ord(c) for c in ch]})
        ch2 = np.array([rnd.choice("ACGTN-") for _ in range(L)])
        ev.append({"op": "as_allelic", "chars": [ord(c) for c in ch2], "table": [codes(t) for t in tb],
                   "out": [int(v) for v in CHR.as_allelic(ch2, alleles=tb)]})
    return ev


def run_header(task):
    import datetime

    out = {}
    out["filedate"] = str(HM.filedate())
    out["today"] = [datetime.date.today().strftime("%Y%m%d"), (datetime.date.today() - datetime.timedelta(days=1)).strftime("%Y%m%d")]
    try:
        out["filedate_given"] = str(HM.filedate(datetime.date(2021, 3, 7)))
    except Exception as e:
        out["filedate_given"] = "ERR %s: %s" % (type(e).__name__, e)
    out["randomseed"] = [str(HM.randomseed(s)) for s in task["seeds"]]
    out["fileformat"] = str(HM.fileformat("v4.3"))
    out["reference"] = str(HM.reference("/a/b.fa"))
    out["phasing"] = str(HM.phasing("None"))
    out["commandline_list"] = str(HM.commandline(["mchap", "call", "--x", "1"]))
    out["commandline_str"] = str(HM.commandline("mchap call"))
    out["columns"] = HM.columns(["s1", "s2"])
    out["contig"] = [str(HM.ContigHeader("chr1", 100)), str(HM.ContigHeader("c2", None))]
    out["source"] = str(HM.source("x v1"))
    return out


def run(task):
    op = task["op"]
    with np.errstate(all="ignore"):
        if op == "seq":
            out = []
            for st in task["states"]:
                try:
                    out.append(replay_seq(st, task["na"]))
                except Exception as e:
                    out.append({"error": "%s: %s" % (type(e).__name__, e)})
            return out
        if op == "mat":
            out = []
            for st in task["states"]:
                try:
                    out.append(run_mat(st))
                except Exception as e:
                    out.append({"error": "%s: %s" % (type(e).__name__, e)})
            return out
        if op == "loci":
            return run_loci(task)
        if op == "merge":
            return run_merge(task)
        if op == "value":
            return run_value(task["states"])
        if op == "record":
            return run_record(task["states"])
        if op == "random":
            return random_events(task)
        if op == "program":
            return program_events(task)
        if op == "header":
            return run_header(task)
    raise ValueError(op)
