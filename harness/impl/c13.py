"""Implementation side of C13: haplotype calling of `mchap assemble`.

op "instances": for every model instance (samples' posteriors as genotype counts out of M, threshold)
  * unit level: PosteriorGenotypeDistribution objects -> call_posterior_haplotypes,
    _genotype_as_alleles, _genotype_posterior_as_array
  * program level: the real assemble.program.call_sample_genotypes is executed in-process on a real
    locus of the repo's test data with DenovoMCMC replaced by a stub whose fit() returns a
    GenotypeMultiTrace whose retained steps have exactly the instance's empirical posterior; the
    record is then summarised and formatted by the real code (REFMASKED / ALT / GT / AFP / AOP / ACP / GP).
op "programs": real assemble runs (real MCMC) with the per-sample traces captured, for TraceHapCalling.tla.
op "wide": impl/c13wide.py, generated loci with 70-140 samples and more than 127 / 255 reported ALT haplotypes.
Only observations are returned; the comparison with the model is made by check_C13.py.
"""
import copy
import os
import random
import warnings
from fractions import Fraction

import numpy as np

UNIVERSE = {
    "CHR2_10_30": [[0, 0], [0, 1], [1, 0], [1, 2]],
    "CHR1_05_25": [[0, 0, 0], [0, 1, 0], [1, 0, 2], [1, 1, 1]],
}
BURN = 2


DATA_DIR = None   # set per task: a private copy of the repo's test data under /verif/work (nothing is written into the repo)


def data_path(name):
    if DATA_DIR:
        return os.path.join(DATA_DIR, name)
    import mchap

    return os.path.join(os.path.dirname(mchap.__file__), "tests", "test_io", "data", name)


def setup():
    global APP, AC, HC, baseclass, CTX
    with warnings.catch_warnings():
        warnings.simplefilter("ignore")
        from mchap.application import assemble as APP
        from mchap.application import baseclass
        from mchap.assemble import classes as AC
        from mchap.assemble import haplotype_calling as HC
    CTX = {}


class StubMCMC:
    """stands in for DenovoMCMC: fit() returns the next prepared trace"""

    queue = []

    def __init__(self, **kwargs):
        self.kwargs = kwargs

    def fit(self, reads, read_counts=None):
        g = StubMCMC.queue.pop(0)
        assert g.shape[2] == self.kwargs["ploidy"], (g.shape, self.kwargs["ploidy"])
        return AC.GenotypeMultiTrace(g, np.zeros(g.shape[:2]))


def hap_string(locus, row):
    seq = list(locus.sequence)
    for v, a in zip(locus.variants, row):
        seq[v.start - locus.start] = v.alleles[a]
    return "".join(seq)


def context(ps, with_gp):
    """a real assemble program object + the encoded reads of one real locus, per sample-ploidy tuple"""
    key = (tuple(ps), with_gp)
    if key in CTX:
        return CTX[key]
    n = len(ps)
    bams = [data_path("simple.sample%d.bam" % i) for i in range(1, n + 1)]
    pf = os.path.join(os.getcwd(), "c13-ploidy-%d-%s.txt" % (os.getpid(), "_".join(map(str, ps))))
    with open(pf, "w") as fh:
        for i, p in enumerate(ps):
            fh.write("SAMPLE%d\t%d\n" % (i + 1, p))
    report = ["AFP", "AOP", "ACP"] + (["GP"] if with_gp else [])
    cmd = ["mchap", "assemble", "--bam"] + bams + [
        "--ploidy", pf, "--targets", data_path("simple.bed.gz"), "--variants", data_path("simple.vcf.gz"),
        "--reference", data_path("simple.fasta"), "--mcmc-burn", str(BURN), "--mcmc-steps", "10",
        "--report"] + report
    with warnings.catch_warnings():
        warnings.simplefilter("ignore")
        prog = APP.program.cli(cmd)
        loci = {}
        for locus in prog.loci():
            if locus.name in UNIVERSE:
                data = prog._locus_data(locus, prog.sample_bams)
                prog.encode_sample_reads(data)
                loci[locus.name] = (locus, data)
    os.remove(pf)
    CTX[key] = (prog, loci)
    return CTX[key]


def fresh_data(prog, locus, base):
    data = prog._locus_data(locus, prog.sample_bams)
    data.read_calls = dict(base.read_calls)
    data.read_dists = dict(base.read_dists)
    data.read_counts = dict(base.read_counts)
    for f, d in base.sampledata.items():
        data.sampledata[f] = dict(d)
    return data


def parse_line(line):
    f = line.rstrip("\n").split("\t")
    info = {}
    for kv in f[7].split(";"):
        k, _, v = kv.partition("=")
        info[k] = v
    keys = f[8].split(":")
    samples = [dict(zip(keys, s.split(":"))) for s in f[9:]]
    alts = [] if f[4] == "." else f[4].split(",")
    return {"ref": f[3], "alts": alts, "filter": f[6], "info": info, "samples": samples}


def sample_fields(d):
    out = {"gt": [(-1 if a == "." else int(a)) for a in d["GT"].split("/")]}
    for k in ("AFP", "AOP", "ACP", "GP"):
        if k in d:
            out[k.lower()] = d[k].split(",")
    return out


def exc_name(e):
    names = []
    while e is not None:
        names.append(type(e).__name__)
        e = e.__cause__
    return ">".join(names)


def run_tail(prog, locus, base, traces, theta):
    prog.haplotype_posterior_threshold = theta
    data = fresh_data(prog, locus, base)
    StubMCMC.queue = [t.copy() for t in traces]
    orig = APP.DenovoMCMC
    APP.DenovoMCMC = StubMCMC
    try:
        with np.errstate(all="ignore"):
            prog.call_sample_genotypes(data)
            prog.sumarise_vcf_record(data)
            line = data.format_vcf_record()
    finally:
        APP.DenovoMCMC = orig
    return line


def observe_instance(inst, rnd):
    ps, K, M = inst["ps"], inst["k"], inst["m"]
    theta = inst["theta"][0] / inst["theta"][1]
    lname = "CHR2_10_30" if (inst["idx"] % 2 == 0) else "CHR1_05_25"
    rows = UNIVERSE[lname]
    obs = {"locus": lname}
    # ---- unit level --------------------------------------------------------------
    posts = []
    for s, p in enumerate(inst["post"]):
        gens = np.array([[rows[h] for h in g] for g, _ in p], dtype=np.int8)
        probs = np.array([c / M for _, c in p], dtype=float)
        posts.append(AC.PosteriorGenotypeDistribution(gens, probs))
    ident = {np.array(r, dtype=np.int8).tobytes(): i for i, r in enumerate(rows)}
    haps, ref_called = HC.call_posterior_haplotypes(posts, threshold=theta)
    order = [ident.get(h.tobytes(), -9) for h in haps]
    obs["unit"] = {"order": order, "ref_called": bool(ref_called), "dtype": str(haps.dtype), "samples": []}
    labels = {h.tobytes(): i for i, h in enumerate(haps)}
    if not ref_called:
        labels.pop(haps[0].tobytes())
    for post in posts:
        sup = post.mode_genotype_support()
        g, _ = sup.mode_genotype()
        u = {"call": sorted(ident[h.tobytes()] for h in g)}
        u["gt"] = [int(x) for x in APP._genotype_as_alleles(g, labels)]
        try:
            arr = APP._genotype_posterior_as_array(post, labels)
            u["gp"] = [float(x) for x in arr]
        except Exception as e:
            u["gp_error"] = exc_name(e)
        obs["unit"]["samples"].append(u)
    # ---- program level -------------------------------------------------------------
    traces = []
    for s, p in enumerate(inst["post"]):
        P = ps[s]
        steps = []
        junk = [[rows[(K - 1 + j) % len(rows)] for j in range(P)]] * BURN   # burnt steps: must not count
        for g, c in p:
            for _ in range(c):
                r = [rows[h] for h in g]
                rnd.shuffle(r)                                             # arbitrary storage order
                steps.append(r)
        rnd.shuffle(steps)                                                 # arbitrary step order
        if M % 2 == 0 and inst["idx"] % 3 == 0:
            half = M // 2                                                  # two chains: the posterior merges them
            traces.append(np.array([junk + steps[:half], junk + steps[half:]], dtype=np.int8))
        else:
            traces.append(np.array([junk + steps], dtype=np.int8))
    prog, loci = context(ps, True)
    locus, base = loci[lname]
    strings = {hap_string(locus, r): i for i, r in enumerate(rows)}
    prog_obs = {}
    try:
        line = run_tail(prog, locus, base, traces, theta)
        prog_obs["line"] = line
    except Exception as e:
        prog_obs["error"] = exc_name(e)
        prog2, loci2 = context(ps, False)
        locus2, base2 = loci2[lname]
        try:
            line = run_tail(prog2, locus2, base2, traces, theta)
            prog_obs["line"] = line
        except Exception as e2:
            prog_obs["error2"] = exc_name(e2)
            line = None
    if line is not None:
        rec = parse_line(line)
        prog_obs["alt"] = [strings.get(a, -9) for a in rec["alts"]]
        prog_obs["ref_ok"] = rec["ref"] == hap_string(locus, rows[0])
        prog_obs["masked"] = "REFMASKED" in rec["info"]
        prog_obs["filter"] = rec["filter"]
        prog_obs["samples"] = [sample_fields(d) for d in rec["samples"]]
    obs["program"] = prog_obs
    return obs


def run(task):
    global DATA_DIR
    if task.get("data_dir") and DATA_DIR != task["data_dir"]:
        DATA_DIR = task["data_dir"]
        CTX.clear()
    op = task["op"]
    if op == "instances":
        rnd = random.Random(task["seed"])
        out = []
        for inst in task["instances"]:
            try:
                out.append(observe_instance(inst, rnd))
            except Exception as e:
                import traceback

                out.append({"harness_error": "%s: %s" % (type(e).__name__, e), "tb": traceback.format_exc()[-1500:]})
        return out
    if op == "programs":
        return run_programs(task)
    if op == "wide":
        from impl import c13wide          # loci with more than 127 / 255 reported ALT haplotypes

        return c13wide.run(task)
    raise ValueError(op)


# ---- code -> spec: real assemble runs --------------------------------------------------------------
CONFIGS = [(48, 16), (40, 8), (24, 8), (20, 4), (36, 4), (12, 4), (80, 16)]   # retained 32 32 16 16 32 8 64
THETAS = ["0", "0.05", "0.2", "0.25", "0.5", "0.75", "0.9", "1.0", "0.125", "0.01"]


def milli(x):
    return -1 if x in (".", "") else int(round(float(x) * 1000))


def run_programs(task):
    rnd = random.Random(task["seed"])
    steps, burn = rnd.choice(CONFIGS)
    chains = rnd.choice([1, 2, 2, 4])
    n = chains * (steps - burn)
    while True:
        theta = rnd.choice(THETAS)
        th = Fraction(theta)
        # the code decides the boundary in floating point: n is a power of two, so occurrence
        # probabilities are exact; a non-dyadic threshold can then never be hit exactly
        if (th * n).denominator != 1 or th.denominator & (th.denominator - 1) == 0:
            break
    dataset = rnd.choice(["repo", "pop", "pop"])
    seed = rnd.randrange(1, 10 ** 6)
    cleanup = []
    if dataset == "repo":
        ploidy = rnd.choice(["4", "2", "4", "pools"])
        deep = rnd.random() < 0.4
        nb = rnd.choice([1, 2, 3, 3])
        bams = [data_path("simple.sample%d%s.bam" % (i, ".deep" if deep else "")) for i in range(1, nb + 1)]
        names = ["SAMPLE%d" % i for i in range(1, nb + 1)]
        ploidies = [2, 4, 6][:nb] if ploidy == "pools" else [int(ploidy)] * nb
        files = (data_path("simple.bed.gz"), data_path("simple.vcf.gz"), data_path("simple.fasta"))
    else:
        # generated population (vlib/datasets.py): includes loci whose reference haplotype is absent from every sample
        from vlib import datasets

        pdir = os.path.join(os.getcwd(), "c13-pop-%d-%d" % (os.getpid(), task["seed"]))
        nb = rnd.choice([1, 2, 3])
        ploidies = [rnd.choice([2, 4]) for _ in range(nb)]
        man = datasets.make_population(pdir, seed=task["seed"], n_samples=nb, ploidies=tuple(ploidies),
                                       depth=rnd.choice([6, 12, 20]), name="C13")
        bams = [sm["bam"] for sm in man["samples"]]
        names = [sm["name"] for sm in man["samples"]]
        ploidies = [sm["ploidy"] for sm in man["samples"]]
        files = (man["bed"], man["snv_vcf"], man["ref"])
        cleanup.append(pdir)
    cmd = ["mchap", "assemble", "--bam"] + bams
    pf = os.path.join(os.getcwd(), "c13-rp-%d.txt" % os.getpid())
    with open(pf, "w") as fh:
        for nm, pl in zip(names, ploidies):
            fh.write("%s\t%d\n" % (nm, pl))
    cmd += ["--ploidy", pf]
    cmd += ["--targets", files[0], "--variants", files[1],
            "--reference", files[2], "--haplotype-posterior-threshold", theta,
            "--mcmc-steps", str(steps), "--mcmc-burn", str(burn), "--mcmc-seed", str(seed),
            "--mcmc-chains", str(chains)]
    events = []
    captured = []
    with warnings.catch_warnings():
        warnings.simplefilter("ignore")
        progs = {True: APP.program.cli(cmd + ["--report", "AFP", "AOP", "GP"]),
                 False: APP.program.cli(cmd + ["--report", "AFP", "AOP"])}
        orig = APP.DenovoMCMC.fit

        def fit(self, *a, **k):
            t = orig(self, *a, **k)
            captured.append(np.array(t.genotypes).copy())
            return t

        APP.DenovoMCMC.fit = fit
        try:
            for locus in progs[True].loci():
                err = None
                line = None
                for with_gp in (True, False):
                    del captured[:]
                    try:
                        with np.errstate(all="ignore"):
                            line = progs[with_gp].call_locus(locus, progs[with_gp].sample_bams)
                        break
                    except Exception as e:
                        err = exc_name(e)
                if line is None:
                    events.append({"program": "assemble", "locus": locus.name, "fatal": err})
                    continue
                if not captured or captured[0].shape[-1] == 0:
                    continue            # locus without variants: nothing to call
                events.append(make_event(progs[True], locus, captured, burn, th, line, err, cmd))
        finally:
            APP.DenovoMCMC.fit = orig
    os.remove(pf)
    import shutil

    for d in cleanup:
        shutil.rmtree(d, ignore_errors=True)
    return events


def make_event(prog, locus, captured, burn, th, line, err, cmd):
    rec = parse_line(line)
    npos = captured[0].shape[-1]
    rows = {tuple([0] * npos)}
    for g in captured:
        rows |= {tuple(int(x) for x in r) for r in g[:, burn:].reshape(-1, npos)}
    rows = sorted(rows)                       # the all-zero reference row sorts first -> number 0
    ident = {r: i for i, r in enumerate(rows)}
    strings = {hap_string(locus, r): i for i, r in enumerate(rows)}
    posts, ploidies = [], []
    m = None
    for g in captured:
        cnt = {}
        ret = g[:, burn:]
        for gen in ret.reshape(-1, ret.shape[2], npos):
            key = tuple(sorted(ident[tuple(int(x) for x in r)] for r in gen))
            cnt[key] = cnt.get(key, 0) + 1
        posts.append([[list(k), v] for k, v in sorted(cnt.items())])
        ploidies.append(int(g.shape[2]))
        m = int(ret.shape[0] * ret.shape[1])
    samples = []
    for d in rec["samples"]:
        f = sample_fields(d)
        samples.append({"gt": f["gt"], "afp": [milli(x) for x in f.get("afp", [])],
                        "aop": [milli(x) for x in f.get("aop", [])], "gp": [milli(x) for x in f.get("gp", [])]})
    return {
        "program": "assemble", "locus": locus.name, "k": len(rows), "m": m, "ps": ploidies,
        "theta": [th.numerator, th.denominator], "post": posts,
        "out": {"alt": [strings.get(a, -9) for a in rec["alts"]], "masked": "REFMASKED" in rec["info"],
                "samples": samples, "gperror": err or ""},
        "argv": " ".join(os.path.basename(a) if "/" in a else a for a in cmd[1:]),
    }
