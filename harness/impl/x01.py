"""Implementation side of X01 (sampler start states and per-sample quality fields); runs inside a worker
process importing the tree under test.

ops
  mec            minimum_error_correction / read_assignment on model states (reads x genotype)
  qual_sweep     qual_of_prob on every probability m / 10^prec (and sub-unit inputs) of a range, compared with the
                 model's threshold table; returns mismatches only
  qual_misc      prob_of_qual, qual_of_char (scalar and array forms), qual_of_prob array/scalar agreement
  greedy         greedy_caller on model instances (compiled, or interpreted with every candidate score recorded)
  meandist       _read_mean_dist on model instances
  start          DenovoMCMC.fit with the homozygous-fix decision driven by the model; captures what reaches the
                 sampler (start genotype, n_alleles, reads, temperatures) and, interpreted, every random_choice row
  call_greedy    `mchap call` / `call-pedigree` in-process, interpreted: every greedy_caller invocation recorded
  prog           a calling program in-process (compiled): per sample the read calls and genotype given to
                 minimum_error_correction, the probabilities given to qual_of_prob, the posterior, the printed line
"""
import contextlib
import io
import math
import os
import sys
import warnings
from fractions import Fraction

import numpy as np

PY = os.environ.get("NUMBA_DISABLE_JIT") == "1"
S = U = CM = AM = JU = None


def setup():
    global S, U, CM, AM, JU
    import mchap.encoding.integer.stats as S
    import mchap.io.util as U
    import mchap.calling.mcmc as CM
    import mchap.assemble.mcmc as AM
    import mchap.jitutils as JU


# ---------------------------------------------------------------------------------------------- MEC
def mec_states(states, dtype):
    out = []
    for s in states:
        n = len(s["geno"][0])
        reads = np.array(s["reads"], dtype=dtype).reshape(len(s["reads"]), n)
        geno = np.array(s["geno"], dtype=dtype).reshape(len(s["geno"]), n)
        r0, g0 = reads.copy(), geno.copy()
        per = S.minimum_error_correction(reads, geno)
        asg = S.read_assignment(reads, geno)
        o = {"per": [int(x) for x in per], "sum": int(np.sum(per)),
             "asg": [[float(x) for x in row] for row in asg],
             "pure": bool(np.array_equal(reads, r0) and np.array_equal(geno, g0)),
             "shape": list(np.shape(per)), "ashape": list(np.shape(asg))}
        out.append(o)
    return out


# ---------------------------------------------------------------------------------------------- phred
def qual_from_thr(thr, e):
    """quality of error units e read off the model's threshold table: least q with thr[q] <= e"""
    lo, hi = 0, len(thr) - 1          # thr is non-increasing in q
    while lo < hi:
        mid = (lo + hi) // 2
        if thr[mid] <= e:
            hi = mid
        else:
            lo = mid + 1
    return lo


def qual_sweep(task):
    prec, thr = task["prec"], task["thr"]
    scale = 10 ** prec
    a, b = task["lo"], task["hi"]
    ms = list(range(a, b + 1))
    bad = []
    n = 0
    for kind in ("unit", "half"):
        if kind == "unit":
            probs = [m / scale for m in ms]
        else:
            probs = [(m + 0.5) / scale for m in ms if m < scale]
        if prec == 6:       # the programs rely on the default precision
            arr = U.qual_of_prob(np.array(probs, dtype=float))
        else:
            arr = U.qual_of_prob(np.array(probs, dtype=float), precision=prec)
        for p, q in zip(probs, arr):
            n += 1
            xf = Fraction(p) * scale
            fl = xf.numerator // xf.denominator
            cands = {fl}
            if xf - fl > 1 - Fraction(1, 10**9):
                cands.add(fl + 1)           # the double sits a hair below m / 10^prec; the product may round up to m
            exp = set()
            for m in cands:
                m = min(m, scale - 1)       # documented cap: a probability of 1 is treated as 1 - 10^-prec
                exp.add(qual_from_thr(thr, scale - m))
            if int(q) not in exp:
                bad.append({"prob": p, "impl": int(q), "model": sorted(exp), "kind": kind, "precision": prec})
    # scalar form on a sample of the range (same inputs as the array form)
    step = max(1, len(ms) // 400)
    for m in ms[::step] + ms[-3:]:
        p = m / scale
        qs = U.qual_of_prob(p, precision=prec)
        qa = U.qual_of_prob(np.array([p]), precision=prec)[0]
        n += 1
        if int(qs) != int(qa):
            bad.append({"prob": p, "impl_scalar": int(qs), "impl_array": int(qa), "kind": "scalar-vs-array", "precision": prec})
    return {"n": n, "bad": bad[:50], "nbad": len(bad)}


def qual_misc(task):
    out = {}
    out["prob_of_qual"] = [float(U.prob_of_qual(q)) for q in task["quals"]]
    arr = U.prob_of_qual(np.array(task["quals"], dtype=np.int16))
    out["prob_of_qual_array"] = [float(x) for x in arr]
    out["qual_of_char"] = [int(U.qual_of_char(c)) for c in task["chars"]]
    ca = np.array(list(task["chars"]), dtype="<U1")
    c0 = ca.copy()
    out["qual_of_char_array"] = [int(x) for x in U.qual_of_char(ca)]
    out["char_array_pure"] = bool(np.array_equal(ca, c0))
    out["types"] = {"scalar": type(U.qual_of_prob(0.5)).__name__, "array": str(U.qual_of_prob(np.array([0.5, 0.9])).dtype)}
    return out


# ---------------------------------------------------------------------------------------------- greedy
def build(inst):
    from impl.c03 import build as b

    return b(inst)


def greedy_jit(insts):
    out = []
    for inst in insts:
        P, K, H, reads, counts, freqs, F = build(inst)
        r = CM.greedy_caller(H, P, reads, counts, F, freqs)
        o = {"freq": [int(x) for x in r], "dtype": str(r.dtype)}
        if len(set(inst["w"])) == 1:
            r2 = CM.greedy_caller(H, P, reads, counts, F, None)
            o["none"] = [int(x) for x in r2]
        out.append(o)
    return out


def dense_ranks(vals):
    """dense ranks of floats (bit-exact equality = same rank); nan never wins: rank 0; -inf rank 1 if present"""
    fin = sorted({v for v in vals if not math.isnan(v)})
    pos = {v: i + 1 for i, v in enumerate(fin)}
    return [0 if math.isnan(v) else pos[v] for v in vals]


class GreedyRecorder:
    """interpreted mode: wraps the two module-level callables greedy_caller looks up in mchap.calling.mcmc and the name
    `greedy_caller` in the modules that call it; one trace per greedy_caller invocation"""

    def __init__(self):
        self.traces = []
        self.calls = None

    def __enter__(self):
        import mchap.calling.classes as CC
        import mchap.pedigree.classes as PC

        self.mods = (CC, PC)
        if PY:
            # compiled lgamma(0) is +inf (zero-frequency allele: prior -inf); math.lgamma raises instead
            import mchap.calling.prior as PR

            def safe_lgamma(x, _l=math.lgamma):
                try:
                    return _l(x)
                except ValueError:
                    return float("inf")

            PR.lgamma = safe_lgamma
        self.o = (CM.log_likelihood_alleles, CM.log_genotype_prior, CM.greedy_caller, CC.greedy_caller, PC.greedy_caller)
        CM.log_likelihood_alleles = self.llk
        CM.log_genotype_prior = self.lprior
        CM.greedy_caller = CC.greedy_caller = PC.greedy_caller = self.greedy
        return self

    def __exit__(self, *exc):
        CM.log_likelihood_alleles, CM.log_genotype_prior, CM.greedy_caller = self.o[0:3]
        self.mods[0].greedy_caller, self.mods[1].greedy_caller = self.o[3:5]
        return False

    def llk(self, **kw):
        v = self.o[0](**kw)
        if self.calls is not None:
            self.calls.append(["llk", [int(x) for x in kw["genotype_alleles"]], float(v)])
        return v

    def lprior(self, **kw):
        v = self.o[1](**kw)
        if self.calls is not None:
            self.calls.append(["lprior", [int(x) for x in kw["genotype"]], float(v)])
        return v

    def greedy(self, *a, **kw):
        names = ("haplotypes", "ploidy", "reads", "read_counts", "inbreeding", "frequencies")
        args = dict(zip(names, a))
        args.update(kw)
        self.calls = []
        try:
            res = self.o[2](*a, **kw)
        finally:
            calls, self.calls = self.calls, None
        self.traces.append({"args": args, "calls": calls, "result": [int(x) for x in res]})
        return res


def decode_instance(args):
    """exact-family description (CallModel instance) of the arrays a greedy_caller call received, or a reason string"""
    H = np.asarray(args["haplotypes"])
    reads = np.asarray(args["reads"], dtype=float)
    counts = args.get("read_counts")
    K, N = H.shape
    R = reads.shape[0]
    counts = np.ones(R, dtype=int) if counts is None else np.asarray(counts)
    rows = []
    for r in range(R):
        cells = []
        for j in range(N):
            v = reads[r, j]
            if np.isnan(v).any():
                if not (np.isnan(v) | (v == 0)).all():
                    return "mixed nan cell"
                cells.append(-1)
                continue
            c = int(np.argmax(v))
            if v[c] != 0.875:
                return "call probability %r is not 7/8" % float(v[c])
            for x in range(len(v)):
                if x != c and not (v[x] == 0.125 / 3 or v[x] == 0.0):
                    return "error probability %r is not 1/24" % float(v[x])
            cells.append(c)
        if int(counts[r]) > 0:
            rows.append({"cells": cells, "cnt": int(counts[r])})
    F = Fraction(float(args.get("inbreeding", 0.0))).limit_denominator(1024)
    if float(F) != float(args.get("inbreeding", 0.0)):
        return "inbreeding is not a small rational"
    fr = args.get("frequencies")
    if fr is None:
        w = [1] * K
    else:
        fs = [Fraction(float(x)).limit_denominator(100000) for x in fr]
        if any(abs(float(f) - float(x)) > 1e-12 for f, x in zip(fs, fr)):
            return "frequencies are not small rationals"
        den = 1
        for f in fs:
            den = den * f.denominator // math.gcd(den, f.denominator)
        w = [int(f * den) for f in fs]
        if max(w) > 100000:
            return "frequency weights too large"
    if N > 6 or K > 12:
        return "instance too large for 32-bit read numerators"
    return {"P": int(args["ploidy"]), "Fn": F.numerator, "Fd": F.denominator, "K": K, "N": N,
            "H": [[int(x) for x in row] for row in H], "w": w, "reads": rows, "freq_given": fr is not None}


def greedy_events(rec, inst, tag=""):
    """begin / step / end events of one recorded greedy_caller invocation"""
    K, P = inst["K"], inst["P"]
    ev = [{"op": "begin", "P": P, "Fn": inst["Fn"], "Fd": inst["Fd"], "K": K, "N": inst["N"], "H": inst["H"], "w": inst["w"],
           "reads": inst["reads"], "tag": tag}]
    calls = rec["calls"]
    # pair (llk, lprior) per candidate, in call order
    pairs = []
    i = 0
    while i + 1 < len(calls):
        a, b = calls[i], calls[i + 1]
        if a[0] == "llk" and b[0] == "lprior" and a[1] == b[1]:
            pairs.append((a[1], a[2] + b[2]))
            i += 2
        else:
            pairs.append((a[1], float("nan")))
            i += 1
    steps = {}
    for g, lp in pairs:
        steps.setdefault(len(g), []).append((g, lp))
    final_choice = []
    for k in sorted(steps):
        cand = steps[k]
        prefix = cand[0][0][:-1]
        alleles = [g[-1] for g, _ in cand]
        same_prefix = all(g[:-1] == prefix for g, _ in cand)
        ev.append({"op": "step", "i": k - 1, "prefix": prefix, "cands": alleles, "sameprefix": 1 if same_prefix else 0,
                   "rank": dense_ranks([lp for _, lp in cand])})
    ev.append({"op": "end", "result": rec["result"]})
    return ev


def greedy_py(insts, tags=None):
    out = []
    for n, inst in enumerate(insts):
        P, K, H, reads, counts, freqs, F = build(inst)
        with GreedyRecorder() as rec:
            CM.greedy_caller(H, P, reads, counts, F, freqs)
        out.append(greedy_events(rec.traces[0], inst, tag=(tags[n] if tags else "")))
    return out


def call_greedy(task):
    """interpreted `mchap call` / `call-pedigree` in-process; every greedy_caller invocation as an event trace"""
    if task["prog"] == "call":
        import mchap.application.call as A
    else:
        import mchap.application.call_pedigree as A
    buf = io.StringIO()
    with GreedyRecorder() as rec:
        with contextlib.redirect_stdout(buf), warnings.catch_warnings():
            warnings.simplefilter("ignore")
            A.program.cli(["mchap", task["prog"]] + task["argv"]).run_stdout()
    traces, skipped = [], []
    for n, t in enumerate(rec.traces):
        inst = decode_instance(t["args"])
        if isinstance(inst, str):
            skipped.append(inst)
            continue
        ev = greedy_events(t, inst, tag="%s#%d" % (task.get("tag", task["prog"]), n))
        ev[0]["freq_given"] = 1 if inst["freq_given"] else 0
        traces.append(ev)
    return {"traces": traces, "skipped": skipped, "calls": len(rec.traces), "stdout": buf.getvalue()}


# ---------------------------------------------------------------------------------------------- assemble start
def start_arrays(inst, mock_gap=False):
    A = inst["A"]
    N, maxA = len(A), max(A)
    rows = inst["reads"]
    reads = np.zeros((len(rows), N, maxA), dtype=float)
    for r, cells in enumerate(rows):
        for j, c in enumerate(cells):
            for x in range(A[j]):
                reads[r, j, x] = np.nan if c < 0 else (0.875 if x == c else 0.125 / 3)
    return reads


def meandist(insts):
    out = []
    for inst in insts:
        reads = start_arrays(inst)
        het = [j for j, f in enumerate(inst["fixed"]) if not f]
        sub = reads[:, het]
        r0 = sub.copy()
        if sub.shape[0] == 0 or not het:
            out.append(None)
            continue
        with np.errstate(all="ignore"), warnings.catch_warnings():
            warnings.simplefilter("ignore")
            d = AM._read_mean_dist(sub)
        out.append({"dist": [[float(x) for x in row] for row in d],
                    "pure": bool(np.array_equal(sub, r0, equal_nan=True))})
    return out


class StartRecorder:
    """wraps the Python-level names DenovoMCMC._mcmc looks up in mchap.assemble.mcmc.  The homozygous-fix decision can
    be driven (`fixed`), the sampler itself is replaced by a stub that records what it is given unless run_sampler."""

    def __init__(self, fixed=None, run_sampler=False, record_draws=False):
        self.fixed, self.run_sampler, self.record_draws = fixed, run_sampler, record_draws
        self.starts = []
        self.draws = []
        self.hom = []

    def __enter__(self):
        self.o = (AM._denovo_assembler, AM._homozygosity_probabilities, JU.random_choice)
        AM._denovo_assembler = self.sampler
        AM._homozygosity_probabilities = self.homp
        if self.record_draws and PY:
            JU.random_choice = self.choice
        return self

    def __exit__(self, *exc):
        AM._denovo_assembler, AM._homozygosity_probabilities, JU.random_choice = self.o
        return False

    def homp(self, reads, n_alleles, ploidy, inbreeding=0, read_counts=None):
        if self.fixed is None:
            hp = self.o[1](reads, n_alleles, ploidy, inbreeding=inbreeding, read_counts=read_counts)
        else:
            hp = np.zeros((reads.shape[1], reads.shape[2]))
            for j, f in enumerate(self.fixed):
                if f:
                    hp[j, 0] = 1.0
        self.hom.append(np.array(hp))
        return hp

    def choice(self, p):
        x = self.o[2](p)
        self.draws.append({"p": [float(v) for v in p], "x": int(x)})
        return x

    def sampler(self, **kw):
        g = np.array(kw["genotype"])
        self.starts.append({"geno": [[int(x) for x in row] for row in g], "n_alleles": [int(x) for x in kw["n_alleles"]],
                            "temps": [float(t) for t in kw["temperatures"]], "reads_shape": list(kw["reads"].shape),
                            "reads": np.array(kw["reads"]), "draws": self.draws})
        self.draws = []
        if self.run_sampler:
            return self.o[0](**kw)
        steps = kw["steps"]
        return (np.zeros((1, steps) + g.shape, dtype=np.int8), np.zeros((1, steps)))


def start_runs(task):
    """for each instance: `seeds` fits of one chain each; returns what reached the sampler"""
    out = []
    for inst in task["insts"]:
        A, P = inst["A"], inst["P"]
        reads = start_arrays(inst)
        temps = tuple(t / 4.0 for t in inst["temps"])
        res = {"starts": [], "error": None, "allfixed": 0}
        for seed in task["seeds"]:
            m = AM.DenovoMCMC(ploidy=P, n_alleles=list(A), steps=3, chains=1, random_seed=seed, temperatures=temps,
                              fix_homozygous=0.999)
            with StartRecorder(fixed=inst["fixed"], run_sampler=task.get("run_sampler", False),
                               record_draws=task.get("draws", False)) as rec:
                try:
                    with np.errstate(all="ignore"), warnings.catch_warnings():
                        warnings.simplefilter("ignore")
                        tr = m.fit(reads)
                except AssertionError:
                    res["error"] = "AssertionError"
                    tr = None
            het = [j for j, f in enumerate(inst["fixed"]) if not f]
            for s in rec.starts:
                sub = reads[:, het] if reads.shape[0] else None
                s["reads_match"] = bool(sub is None or np.array_equal(s.pop("reads"), sub, equal_nan=True))
                s.pop("reads", None)
                s["seed"] = seed
                res["starts"].append(s)
            if tr is not None and not rec.starts:
                res["allfixed"] += 1
                res["trace_shape"] = list(tr.genotypes.shape)
                res["trace_zero"] = bool((tr.genotypes == 0).all())
        out.append(res)
    return out


# ---------------------------------------------------------------------------------------------- programs
_PCAP = None


def prog_setup():
    """wrap, once, the names the four application modules look up: minimum_error_correction, qual_of_prob, and
    LocusAssemblyData.format_vcf_record"""
    global _PCAP
    if _PCAP is not None:
        return
    _PCAP = {"mec": [], "qual": [], "records": [], "starts": []}
    from mchap.application import assemble, call, call_exact, call_pedigree, baseclass

    for mod in (assemble, call, call_exact, call_pedigree):
        o_mec, o_q = mod.minimum_error_correction, mod.qual_of_prob

        def mec(read_calls, genotype, _o=o_mec):
            r = _o(read_calls, genotype)
            _PCAP["mec"].append({"reads": np.array(read_calls), "geno": np.array(genotype), "per": np.array(r)})
            return r

        def qual(prob, *a, _o=o_q, **kw):
            r = _o(prob, *a, **kw)
            _PCAP["qual"].append({"prob": float(prob), "qual": int(r) if np.isfinite(prob) else None})
            return r

        mod.minimum_error_correction = mec
        mod.qual_of_prob = qual
    orig = baseclass.LocusAssemblyData.format_vcf_record

    def wrapped(self):
        line = orig(self)
        try:
            _PCAP["records"].append(capture_record(self, line))
        except Exception as e:
            _PCAP["records"].append({"line": line, "capture_error": "%s: %s" % (type(e).__name__, e)})
        _PCAP["mec"], _PCAP["qual"] = [], []
        return line

    baseclass.LocusAssemblyData.format_vcf_record = wrapped
    o_den = AM._denovo_assembler

    def den(**kw):
        _PCAP["starts"].append({"geno": [[int(x) for x in row] for row in kw["genotype"]],
                                "n_alleles": [int(x) for x in kw["n_alleles"]],
                                "temps": [float(t) for t in kw["temperatures"]]})
        return o_den(**kw)

    AM._denovo_assembler = den


def uniq_rows(a):
    rows = {}
    for r in a.tolist():
        rows[tuple(r)] = rows.get(tuple(r), 0) + 1
    return [{"cells": list(k), "cnt": v} for k, v in sorted(rows.items())]


def capture_record(data, line):
    fmt = {f.id: d for f, d in data.sampledata.items()}
    samples = []
    mecs, quals = _PCAP["mec"], _PCAP["qual"]
    per_sample_mec = len(mecs) == len(data.samples)
    per_sample_q = len(quals) == 2 * len(data.samples)
    loc = data.locus
    for i, s in enumerate(data.samples):
        o = {"name": s, "ploidy": int(data.sample_ploidy[s])}
        rc = np.asarray(data.read_calls[s])
        o["read_calls"] = uniq_rows(rc) if rc.ndim == 2 and rc.shape[0] > 0 else []
        o["n_pos"] = int(rc.shape[1]) if rc.ndim == 2 else 0
        gt = fmt["GT"].get(s)
        o["gt"] = [int(a) for a in gt] if gt is not None else None
        for k in ("GPM", "SPM", "MEC", "MECP", "GQ", "SQ"):
            v = fmt.get(k, {}).get(s)
            o["i" + k] = None if v is None or (isinstance(v, float) and math.isnan(v)) else float(v)
        if per_sample_mec:
            m = mecs[i]
            o["mec_reads_same"] = bool(np.array_equal(m["reads"], rc))
            o["mec_geno"] = [[int(x) for x in row] for row in m["geno"]]
            o["mec_per_sum"] = int(np.sum(m["per"]))
        if per_sample_q:
            o["quals"] = quals[2 * i: 2 * i + 2]
        gp = fmt.get("GP", {}).get(s)
        if gp is not None and "GP" in [f.id for f in data.formatfields]:
            o["gp"] = [float(x) for x in np.asarray(gp).ravel()]
        samples.append(o)
    alleles = [list(a) for a in loc.alleles] if hasattr(loc, "alleles") else None
    return {"line": line, "samples": samples, "mec_calls": len(mecs), "qual_calls": len(quals),
            "snv_alleles": alleles, "positions": [int(p) - int(loc.start) for p in loc.positions],
            "n_samples": len(data.samples), "fields": [f.id for f in data.formatfields]}


def run_prog(task):
    prog_setup()
    from mchap.application import assemble, call, call_exact, call_pedigree

    mod = {"assemble": assemble, "call": call, "call-exact": call_exact, "call-pedigree": call_pedigree}[task["prog"]]
    for k in _PCAP:
        _PCAP[k] = []
    buf = io.StringIO()
    err = None
    try:
        with contextlib.redirect_stdout(buf), warnings.catch_warnings():
            warnings.simplefilter("ignore", UserWarning)
            with np.errstate(divide="warn", over="warn", invalid="warn", under="ignore"):
                mod.program.cli(["mchap", task["prog"]] + task["argv"]).run_stdout()
    except BaseException as e:  # noqa
        chain = []
        x = e
        while x is not None and len(chain) < 6:
            chain.append("%s: %s" % (type(x).__name__, str(x)[:300]))
            x = x.__cause__ or x.__context__
        err = chain
    return {"records": _PCAP["records"], "starts": _PCAP["starts"], "error": err, "stdout": buf.getvalue()}


def run(task):
    op = task["op"]
    if op == "mec":
        return mec_states(task["states"], task.get("dtype", "int8"))
    if op == "qual_sweep":
        return qual_sweep(task)
    if op == "qual_misc":
        return qual_misc(task)
    if op == "greedy":
        return greedy_jit(task["insts"])
    if op == "greedy_py":
        return greedy_py(task["insts"], task.get("tags"))
    if op == "call_greedy":
        return call_greedy(task)
    if op == "meandist":
        return meandist(task["insts"])
    if op == "start":
        return start_runs(task)
    if op == "prog":
        return run_prog(task)
    raise ValueError(op)
