"""Implementation side of C07 (and reused by C10): run one of the four calling
programs in-process on a dataset, capture stdout and, per emitted record, the
internal values held by LocusAssemblyData just before formatting.

Runs inside a jit-mode worker process importing the tree under test.
"""
import io
import math
import os
import sys
import tempfile
import traceback
import warnings

import numpy as np

WINDOW = 2000.0
# the real CLI runs with numpy's default error state and RuntimeWarning -> error
# (mchap.application.baseclass); the worker bootstrap silences numpy, so restore
# the defaults around every program run to see what a user would see
NP_DEFAULT = dict(divide="warn", over="warn", invalid="warn", under="ignore")
_CAP = []
_MODS = {}


def setup():
    from mchap.application import assemble, call, call_exact, call_pedigree, baseclass

    _MODS.update(
        {
            "assemble": assemble,
            "call": call,
            "call-exact": call_exact,
            "call-pedigree": call_pedigree,
        }
    )
    orig = baseclass.LocusAssemblyData.format_vcf_record

    def wrapped(self):
        line = orig(self)
        try:
            _CAP.append(capture(self, line))
        except Exception as e:  # capture must never change behaviour
            _CAP.append({"line": line, "capture_error": "%s: %s" % (type(e).__name__, e)})
        return line

    baseclass.LocusAssemblyData.format_vcf_record = wrapped


# ---- internal values -> IVal ------------------------------------------------
def ival(x, f32=False):
    if x is None:
        return {"k": "nan", "m": 0, "tol": 0}
    if isinstance(x, (bool, np.bool_)):
        return {"k": "int", "m": int(x), "tol": 0}
    if isinstance(x, (int, np.integer)):
        v = int(x)
        if abs(v) >= 2**31 - 1:
            return {"k": "big", "m": 0, "tol": 0}
        return {"k": "int", "m": v, "tol": 0}
    if isinstance(x, (float, np.floating)):
        f32 = f32 or isinstance(x, np.float32)
        v = float(x)
        if math.isnan(v):
            return {"k": "nan", "m": 0, "tol": 0}
        if math.isinf(v):
            return {"k": "inf", "m": 1 if v > 0 else -1, "tol": 0}
        if abs(v) >= WINDOW:
            return {"k": "big", "m": 0, "tol": 0}
        m = round(v * 1000000)
        # float bridge (DESIGN 2.4): half a unit of the third decimal (+1 micro-unit);
        # float32 arrays additionally get the relative 2e-6 of their magnitude
        tol = 501 + (int(math.ceil(2e-6 * abs(m))) if f32 else 0)
        return {"k": "dec", "m": m, "tol": tol}
    return {"k": "str", "m": 0, "tol": 0}


def ivals(x):
    if isinstance(x, np.ndarray):
        f32 = x.dtype == np.float32
        return [ival(v, f32) for v in x.reshape(-1)]
    if isinstance(x, str):
        return [ival(x)]
    if hasattr(x, "__iter__"):
        return [ival(v) for v in x]
    return [ival(x)]


def capture(data, line):
    iinfo = []
    for f in data.infofields:
        v = data.infodata[f]
        if isinstance(v, bool):
            iinfo.append({"k": f.id, "isflag": True, "flag": bool(v), "v": []})
        else:
            iinfo.append({"k": f.id, "isflag": False, "flag": False, "v": ivals(v)})
    reported = {f.id for f in data.formatfields}
    ifmt = []
    igt = []
    for s in data.samples:
        row = []
        for f, d in data.sampledata.items():
            if f.id == "GT":
                continue
            if s in d:
                row.append({"k": f.id, "reported": f.id in reported, "v": ivals(d[s])})
            elif f.id in reported:
                row.append({"k": f.id, "reported": True, "v": [ival(None)]})
        ifmt.append(row)
        gt = None
        for f, d in data.sampledata.items():
            if f.id == "GT":
                gt = d.get(s)
        igt.append([int(a) if a >= 0 else -1 for a in gt] if gt is not None else [])
    loc = data.locus
    return {
        "line": line,
        "iinfo": iinfo,
        "ifmt": ifmt,
        "igt": igt,
        "samples": list(data.samples),
        "ploidy": [int(data.sample_ploidy[s]) for s in data.samples],
        "ploidy_map_sum": int(sum(data.sample_ploidy.values())),
        "locus": [loc.contig, int(loc.start), int(loc.stop), loc.name],
    }


def cause_chain(e):
    out = []
    while e is not None and len(out) < 6:
        out.append("%s: %s" % (type(e).__name__, str(e)[:300]))
        e = e.__cause__ or e.__context__
    return out


def root_site(e):
    """(file:function of the innermost mchap frame of the root cause, root exception type)."""
    root = e
    seen = 0
    while (root.__cause__ or root.__context__) and seen < 10:
        root = root.__cause__ or root.__context__
        seen += 1
    tb = traceback.extract_tb(root.__traceback__)
    frames = [f for f in tb if "/mchap/" in f.filename.replace(os.sep, "/")]
    f = frames[-1] if frames else (tb[-1] if tb else None)
    site = "%s:%s" % (os.path.basename(f.filename), f.name) if f else "unknown"
    return site, type(root).__name__


def pysam_opinion(text):
    """Second opinion only: does htslib parse the file and every field?"""
    import pysam

    fd, path = tempfile.mkstemp(suffix=".vcf", dir=os.getcwd())
    os.close(fd)
    try:
        with open(path, "w") as fh:
            fh.write(text)
        n = 0
        save = pysam.set_verbosity(0)
        try:
            with pysam.VariantFile(path) as vf:
                for r in vf:
                    n += 1
                    dict(r.info)
                    for s in r.samples.values():
                        for k in r.format.keys():
                            s[k]
        finally:
            pysam.set_verbosity(save)
        return {"ok": True, "records": n}
    except Exception as e:
        return {"ok": False, "error": "%s: %s" % (type(e).__name__, str(e)[:300])}
    finally:
        os.unlink(path)


def run_program(prog, argv, want_pysam=False):
    mod = _MODS[prog]
    del _CAP[:]
    out = io.StringIO()
    old = sys.stdout
    err = None
    try:
        with warnings.catch_warnings():
            warnings.simplefilter("ignore", UserWarning)
            p = mod.program.cli(["mchap", prog] + list(argv))
        sys.stdout = out
        p.run_stdout()
    except SystemExit as e:
        err = {"chain": ["SystemExit: %s" % e.code], "tb": "", "site": "cli", "exc": "SystemExit"}
    except Exception as e:
        site, exc = root_site(e)
        err = {"chain": cause_chain(e), "tb": traceback.format_exc()[-2500:], "site": site, "exc": exc}
    finally:
        sys.stdout = old
    text = out.getvalue()
    res = {"stdout": text, "captured": list(_CAP), "error": err}
    if want_pysam and err is None:
        res["pysam"] = pysam_opinion(text)
    return res


def run(task):
    op = task.get("op", "run")
    if op == "run":
        with np.errstate(**NP_DEFAULT):
            return run_program(task["prog"], task["argv"], task.get("pysam", False))
    if op == "runs":  # several runs in one task (keeps worker start-up amortised)
        out = []
        for t in task["runs"]:
            with np.errstate(**NP_DEFAULT):
                out.append(run_program(t["prog"], t["argv"], t.get("pysam", False)))
        return out
    raise ValueError(op)
