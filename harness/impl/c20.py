"""Implementation side of C20: run `atomize_vcf` on rendered / pipeline haplotype VCFs."""
import os
import shutil
import tempfile


def setup():
    global P
    from impl import c12prog as P

    # compile nothing: atomize is plain numpy/pandas


def run(task):
    op = task["op"]
    if op == "atomize":
        # items: [{"id":.., "text": <VCF text>}]  -> [{"id":.., "out"| "error"..}]
        d = tempfile.mkdtemp(prefix="c20-", dir=task["dir"])
        out = []
        try:
            for it in task["items"]:
                p = os.path.join(d, "in.vcf")
                with open(p, "w") as fh:
                    fh.write(it["text"])
                r = P.run_atomize(p)
                r["id"] = it["id"]
                r.pop("partial", None)
                out.append(r)
        finally:
            shutil.rmtree(d, ignore_errors=True)
        return out
    if op == "program":
        return P.run_program(task["name"], task["argv"])
    if op == "read_data":
        with open(os.path.join(P.data_dir(), task["name"])) as fh:
            return fh.read()
    if op == "cli":
        from impl import c12prog

        return c12prog.run_cli(task["argv"])
    raise ValueError(op)
