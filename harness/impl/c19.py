"""Implementation side of C19 (find-snvs), runs inside a worker importing the tree under test.

ops
  replay : TLC states (stream, model depth per read-filter class, model records per threshold class)
           -> one generated BAM per sample -> write_vcf_block (depth array observed at its
           bam_region_depths call, records parsed from stdout by an independent reader) for every
           read-filter configuration, and `find_snvs.main(argv)` for a subset.  Compared here with the
           model output carried in the task; mismatches are returned.
  record : code -> spec.  The repository's BAMs (and seeded random ones, and seeded random deep tables with near-tied
           ALT frequencies and thresholds on observed values) through find-snvs, and, independently, through the
           SAM-text walker; returns trace events for TraceFindSnvs.tla.
"""
import contextlib
import io
import os
import shutil
from fractions import Fraction

import numpy as np

BASES = "ACGT"


def setup():
    global pysam, bamgen, samwalk, FS
    import pysam
    from vlib import bamgen, samwalk
    from mchap.application import find_snvs as FS


def decode_fc(i):
    return {"minq": (0, 20, 30)[i >> 3], "kd": bool(i & 4), "kq": bool(i & 2), "ks": bool(i & 1)}


def parse_records(text):
    """Independent reader of find-snvs record lines -> {(chrom, pos0): record}"""
    out = {}
    for line in text.splitlines():
        if not line or line.startswith("#"):
            continue
        f = line.split("\t")
        info = {}
        flags = set()
        for item in f[7].split(";"):
            if "=" in item:
                k, v = item.split("=", 1)
                info[k] = v
            else:
                flags.add(item)
        fmt = f[8].split(":")
        samples = [dict(zip(fmt, col.split(":"))) for col in f[9:]]
        out[(f[0], int(f[1]) - 1)] = {
            "ref": f[3],
            "alt": [] if f[4] in (".", "") else f[4].split(","),
            "raw_alt": f[4],
            "masked": "REFMASKED" in flags,
            "AD": [int(x) for x in info["AD"].split(",")],
            "ADMF": info["ADMF"].split(","),
            "sAD": [[int(x) for x in s["AD"].split(",")] for s in samples],
            "GT": [s.get("GT") for s in samples],
            "line": line,
        }
    return out


class DepthSpy:
    """Observe the array write_vcf_block obtains from bam_region_depths (call site included)."""

    def __init__(self):
        self.orig = FS.bam_region_depths
        self.last = None

    def __enter__(self):
        def spy(*a, **k):
            r = self.orig(*a, **k)
            self.last = np.array(r)
            return r

        FS.bam_region_depths = spy
        return self

    def __exit__(self, *a):
        FS.bam_region_depths = self.orig


def run_block(contig, start, stop, fasta, paths, fc, th):
    """write_vcf_block with the given options -> (depth array [pos, sample, 4], records dict)"""
    buf = io.StringIO()
    with DepthSpy() as spy, contextlib.redirect_stdout(buf):
        FS.write_vcf_block(contig, start, stop, fasta, np.array(paths),
                           maf=float(Fraction(*th["maf"])), mad=th["mad"], ind_maf=float(Fraction(*th["imaf"])),
                           ind_mad=th["imad"], min_ind=th["mind"], mapping_quality=fc["minq"],
                           skip_duplicates=not fc["kd"], skip_qcfail=not fc["kq"], skip_supplementary=not fc["ks"])
    return spy.last, parse_records(buf.getvalue())


def check_record(rec, got, ref, depth_sp, all_covered):
    """rec: model <<keep, masked, {<<b, num, den>>}, ambiguous>> for one position; got: parsed record or None;
    depth_sp: depth[s] -> [A,C,G,T] at this position.  -> list of (clause, impl, model)"""
    keep, masked, mfs, ambiguous = rec
    if ambiguous:
        return None
    if not keep:
        return [("EmitIffTwo", got["line"], "no record")] if got is not None else []
    if got is None:
        return [("EmitIffTwo", "no record", {"keep": keep})]
    out = []
    mf = {b: Fraction(n, d) for b, n, d in mfs}
    if got["ref"] != ref:
        out.append(("RefFirst", got["ref"], ref))
    if got["masked"] != masked:
        out.append(("RefMasked", got["masked"], masked))
    want_alts = sorted(b for b in keep if b != ref)
    if sorted(got["alt"]) != want_alts:
        out.append(("AllelesListed", got["raw_alt"], want_alts))
        return out
    for x, y in zip(got["alt"], got["alt"][1:]):
        if mf[x] < mf[y]:
            out.append(("AltOrdered", got["raw_alt"], {b: str(mf[b]) for b in got["alt"]}))
            break
    order = [ref] + got["alt"]
    idx = [BASES.index(b) for b in order]
    want_s = [[d[i] for i in idx] for d in depth_sp]
    if got["sAD"] != want_s:
        out.append(("SampleAD", got["sAD"], want_s))
    want_pop = [sum(d[i] for d in depth_sp) for i in idx]
    if got["AD"] != want_pop:
        out.append(("InfoAD", got["AD"], want_pop))
    if all_covered:
        for b, t in zip(order, got["ADMF"]):
            if b == ref and masked:
                continue  # frequency of a masked reference: zeroed by the program, not a stated clause
            if abs(float(t) - float(mf[b])) > 0.0005 + 1e-9:
                out.append(("ADMF", got["ADMF"], {x: str(mf[x]) for x in order}))
                break
    return out


def explain(code_depth, classes):
    """Which model class (set of filter configurations) has exactly the depth the code used?"""
    for ci, c in enumerate(classes):
        if c["depth"] == code_depth:
            return ci
    return None


OPTS = (("minq", "mapping-quality"), ("kd", "keep-duplicate-reads"), ("kq", "keep-qcfail-reads"), ("ks", "keep-supplementary-reads"))


def ignored_options(fc, cls_fcs):
    """Smallest set of options in which fc differs from a configuration of the class."""
    best = None
    for j in cls_fcs:
        o = decode_fc(j)
        diff = tuple(name for k, name in OPTS if o[k] != fc[k])
        if best is None or len(diff) < len(best):
            best = diff
    return list(best)


AMBIG_CODES = "NnRYKMSWBDHVr"


def _chunk_no(task):
    try:
        return int(str(task["chunk"]).split("-")[-1])
    except ValueError:
        return 0


def ambiguate(g, rng, before_first=False, inside=None):
    """g.ref with one or two bases replaced by codes outside ACGT -> (sequence, positions).  By default one position strictly
    between the first two sites (and one 2 - 5 bases before the first site); `inside` = (start, stop, k): k positions anywhere there."""
    ref = list(g.ref)
    pos = []
    if inside is not None:
        lo, hi, k = inside
        pos = rng.sample(range(lo, hi), min(k, hi - lo))
    else:
        if len(g.sites) >= 2 and g.sites[1] - g.sites[0] >= 2:
            pos.append(g.sites[0] + 1 + rng.randrange(g.sites[1] - g.sites[0] - 1))
        if before_first and g.sites[0] >= 6:
            pos.append(g.sites[0] - rng.randint(2, 5))
    for q in pos:
        ref[q] = rng.choice(AMBIG_CODES)
    return "".join(ref), sorted(pos)


def replay(task):
    wd = os.path.join(task["wd"], "chunk-%s" % task["chunk"])
    shutil.rmtree(wd, ignore_errors=True)
    os.makedirs(wd)
    rng0 = bamgen.seeded("c19", task["seed"], task["chunk"])
    ths = task["thresholds"]  # index (1-based) -> dict
    nS = task["samples"]
    refbase = ["A", "C"]
    # every third chunk uses ONE long target (> 10 kb) whose 10 000th position is the first site, instead of two
    # 1-bp targets: "for every target position" also holds deep inside whole-chromosome style targets
    try:
        long_target = int(str(task["chunk"]).split("-")[-1]) % 3 == 0
    except ValueError:
        long_target = False
    g = bamgen.Geometry.build(rng0, refbase, flank=(10020, 10030)) if long_target else bamgen.Geometry.build(rng0, refbase)
    contigs = {g.contig: len(g.ref)}
    # every second chunk: the FASTA spells a reference base BETWEEN the two sites (and, in a long target, one shortly
    # before the first site) as N / an IUPAC code / lower-case n.  The reads are unchanged.  FindSnvs!PositionLocal: the
    # records of the two sites are what they are with a plain reference.
    fasta_ref, ambig = ambiguate(g, bamgen.seeded("c19amb", task["seed"], task["chunk"]), long_target) if _chunk_no(task) % 2 == 1 else (g.ref, [])
    fasta = bamgen.write_fasta(os.path.join(wd, "ref.fa"), {g.contig: fasta_ref})
    if long_target:
        bed = bamgen.write_bed(os.path.join(wd, "targets.bed"), [(g.contig, g.sites[0] - 9999, g.sites[1] + 1)])
    else:
        bed = bamgen.write_bed(os.path.join(wd, "targets.bed"), [(g.contig, p, p + 1) for p in g.sites])
    res = {"evals": 0, "states": 0, "mismatch": [], "nontrivial": 0, "ambiguous": 0, "cli": 0, "ambig_ref_chunks": 1 if ambig else 0}

    def report(kind, key, detail):
        if len(res["mismatch"]) < 60:
            res["mismatch"].append({"kind": kind, "key": key, "detail": detail})
        else:
            res.setdefault("more", {})
            k = kind + "|" + "|".join("%s=%s" % kv for kv in sorted(key.items()))
            res["more"][k] = res["more"].get(k, 0) + 1

    # deep instances: the state's table = a seed of n identical plain reads per entry (the model's BulkPile) + the
    # single reads of hist.  The seed reads are realised once per chunk (one geometry per chunk).
    seed_per = {k: [] for k in range(1, nS + 1)}
    rngs = bamgen.seeded("c19seed", task["seed"], task["chunk"])
    for ei, e in enumerate(task.get("bulk") or []):
        for i in range(e["n"]):
            ab = {"qname": "z%d_%d" % (ei, i), "rg": "g%d" % e["s"], "flags": ["reverse"] if rngs.random() < 0.5 else [], "mapq": 60,
                  "cells": e["cells"], "overlap": True}
            seed_per[e["s"]].append(bamgen.realise(ab, g, rngs, min_qual=30, max_qual=41))
    n_seed = sum(len(v) for v in seed_per.values())

    for si, s in enumerate(task["states"]):
        rng = bamgen.seeded("c19", task["seed"], task["chunk"], si)
        hist = s["hist"]
        res["states"] += 1
        per = {k: list(seed_per[k]) for k in range(1, nS + 1)}
        for i, a in enumerate(hist):
            deco = ["reverse"] if rng.random() < 0.5 else []
            ab = {"qname": "r%d" % i, "rg": "g%d" % a["s"], "flags": list(a["flags"]) + deco, "mapq": a["mapq"],
                  "cells": a["cells"], "overlap": rng.random() < 0.7}
            per[a["s"]].append(bamgen.realise(ab, g, rng, min_qual=30, max_qual=41))
        paths = []
        sams = {}
        for k in range(1, nS + 1):
            p = os.path.join(wd, "s%d.bam" % k)
            bamgen.write_bam(p, contigs, [{"ID": "g%d" % k, "SM": "S%d" % k}], per[k])
            paths.append(p)
            sams["S%d" % k] = [x.sam() for x in per[k][len(seed_per[k]):]]  # (the seed reads are described by "bulk")
        classes = s["cls"]
        for c in classes:
            c["depth"] = [[list(c["depth"][k][p]) for p in range(2)] for k in range(nS)]
        cls_of = {j: ci for ci, c in enumerate(classes) for j in c["fc"]}
        ctx = {"hist": hist, "sam": sams, "sites": g.sites, "ref": fasta_ref, "ambiguous_reference_positions": ambig}
        if n_seed:
            ctx["bulk"] = task["bulk"]
        flagged = any(a["flags"] or a["mapq"] < 30 for a in hist)
        # which (fc, th) pairs to run: every fc with one threshold set (depths), every threshold class of one fc per class
        jobs = []
        th_any = 1 + rng.randrange(len(ths))
        for j in sorted(cls_of):
            jobs.append((j, th_any))
        for ci, c in enumerate(classes):
            j = c["fc"][rng.randrange(len(c["fc"]))]
            for o in c["outs"]:
                for t in (o["th"] if task.get("all_th") else [o["th"][rng.randrange(len(o["th"]))]]):
                    if (j, t) not in jobs:
                        jobs.append((j, t))
        for j, t in jobs:
            fc = decode_fc(j)
            th = ths[t - 1]
            res["evals"] += 1
            code_depth = None
            recs = {}
            err = None
            try:
                d, recs = run_block(g.contig, g.sites[0], g.sites[1] + 1, fasta, paths, fc, th)
                dd = [d[0].tolist(), d[g.sites[1] - g.sites[0]].tolist()]  # [site][sample][4]
                code_depth = [[dd[pi][k] for pi in range(2)] for k in range(nS)]
            except Exception as e:  # noqa
                err = "%s: %s" % (type(e).__name__, e)
            mc = classes[cls_of[j]]
            if err:
                report("impl-error", {"site": "find_snvs.write_vcf_block", "error": err.split(":")[0]},
                       dict(ctx, fc=fc, th=th, error=err))
                continue
            use = mc
            if code_depth != mc["depth"]:
                ci = explain(code_depth, classes)
                if ci is None:
                    report("depth-mismatch", {"site": "find_snvs.write_vcf_block->bam_region_depths", "flagged_reads": flagged},
                           dict(ctx, fc=fc, impl_depth=code_depth, model_depth=mc["depth"]))
                    continue
                ign = ignored_options(fc, classes[ci]["fc"])
                report("filter-option-ignored", {"site": "find_snvs.write_vcf_block->bam_region_depths", "ignored": "+".join(ign)},
                       dict(ctx, fc=fc, impl_depth=code_depth, model_depth=mc["depth"],
                            behaves_as=[decode_fc(x) for x in classes[ci]["fc"]][:4]))
                use = classes[ci]  # the records are judged against the depths the program actually used
            out = next(o for o in use["outs"] if t in o["th"])
            for pi, p in enumerate(g.sites):
                rec = out["rec"][pi]
                dsp = [use["depth"][k][pi] for k in range(nS)]
                allcov = all(sum(x) > 0 for x in dsp)
                mm = check_record(rec, recs.get((g.contig, p)), refbase[pi], dsp, allcov)
                if mm is None:
                    res["ambiguous"] += 1
                    continue
                for clause, a, b in mm:
                    report("record-mismatch", {"site": "find_snvs.write_vcf_block", "clause": clause},
                           dict(ctx, fc=fc, th=th, pos=p, impl=a, model=b, depth=dsp))
        # the command line entry point for one configuration
        if task.get("cli", True):
            j = sorted(cls_of)[rng.randrange(len(cls_of))]
            t = 1 + rng.randrange(len(ths))
            fc, th = decode_fc(j), ths[t - 1]
            argv = ["mchap", "find-snvs", "--targets", bed, "--reference", fasta, "--bam"] + paths + [
                "--maf", str(float(Fraction(*th["maf"]))), "--mad", str(th["mad"]), "--ind-maf", str(float(Fraction(*th["imaf"]))),
                "--ind-mad", str(th["imad"]), "--min-ind", str(th["mind"]), "--mapping-quality", str(fc["minq"])]
            for k, name in OPTS[1:]:
                if fc[k]:
                    argv.append("--" + name)
            buf = io.StringIO()
            res["cli"] += 1
            res["evals"] += 1
            try:
                with DepthSpy() as spy, contextlib.redirect_stdout(buf):
                    FS.main(argv)
                recs = parse_records(buf.getvalue())
                text = buf.getvalue()
                cols = [l for l in text.splitlines() if l.startswith("#CHROM")]
                if not cols or cols[0].split("\t")[9:] != ["S%d" % k for k in range(1, nS + 1)]:
                    report("record-mismatch", {"site": "mchap find-snvs", "clause": "SampleColumns"}, dict(ctx, argv=argv, impl=cols))
                # judge against the class whose depth the program used (the depth defect is reported above)
                use = classes[cls_of[j]]
                d, _ = run_block(g.contig, g.sites[0], g.sites[1] + 1, fasta, paths, fc, th)
                probe = [d[0].tolist(), d[g.sites[1] - g.sites[0]].tolist()]
                cd = [[probe[pi][k] for pi in range(2)] for k in range(nS)]
                ci = explain(cd, classes)
                if ci is not None:
                    use = classes[ci]
                    out = next(o for o in use["outs"] if t in o["th"])
                    for pi, p in enumerate(g.sites):
                        dsp = [use["depth"][k][pi] for k in range(nS)]
                        mm = check_record(out["rec"][pi], recs.get((g.contig, p)), refbase[pi], dsp, all(sum(x) > 0 for x in dsp))
                        for clause, a, b in mm or []:
                            report("record-mismatch", {"site": "mchap find-snvs", "clause": clause},
                                   dict(ctx, argv=argv, pos=p, impl=a, model=b, depth=dsp))
                    extra = [k for k in recs if k[1] not in g.sites]
                    if extra and not long_target:   # a long target legitimately contains the reads' other positions
                        report("record-mismatch", {"site": "mchap find-snvs", "clause": "OnlyTargets"}, dict(ctx, argv=argv, impl=extra))
            except Exception as e:  # noqa
                report("impl-error", {"site": "mchap find-snvs", "error": type(e).__name__}, dict(ctx, argv=argv, error=str(e)))
        if len(hist) + n_seed >= 2:
            res["nontrivial"] += 1
    shutil.rmtree(wd, ignore_errors=True)
    return res


# ----------------------------------------------------------------------------
# code -> spec
# ----------------------------------------------------------------------------
def _trace(tid, contig, start, stop, fasta, paths, fc, th, refseq):
    """begin, every record of every BAM abstracted by the walker, then what find-snvs used/printed."""
    n = stop - start
    sites = list(range(start, stop))
    ev = [{"op": "begin", "tid": tid, "n": n, "samples": len(paths), "ref": list(refseq.upper()), "fc": fc,
           "th": {"imaf": list(th["imaf"]), "imad": th["imad"], "mind": th["mind"], "maf": list(th["maf"]), "mad": th["mad"]}}]
    for k, p in enumerate(paths):
        for w in samwalk.walk_bam(p, reference_filename=fasta):
            if w.rname != contig or w.has("unmapped"):
                continue
            a = samwalk.abstract(w, contig, start, stop, sites)
            if not a["overlap"]:
                continue
            ev.append({"op": "aln", "tid": tid, "s": k + 1, "flags": a["flags"], "mapq": a["mapq"], "cells": [c.upper() for c in a["cells"]],
                       "minbq": min([q for q, c in zip(a["quals"], a["cells"]) if c != "none"] or [99]), "qname": a["qname"]})
    depth, recs = run_block(contig, start, stop, fasta, paths, fc, th)
    for pi in range(n):
        ev.append({"op": "depth", "tid": tid, "p": pi + 1, "d": depth[pi].tolist()})
        r = recs.get((contig, start + pi))
        if r is None:
            ev.append({"op": "norecord", "tid": tid, "p": pi + 1})
        else:
            ev.append({"op": "record", "tid": tid, "p": pi + 1, "ref": r["ref"], "alt": r["alt"], "masked": r["masked"], "AD": r["AD"],
                       "sAD": r["sAD"], "ADMF": [_micro(x) for x in r["ADMF"]]})
    return ev


def _micro(x):
    """ADMF text -> integer millionths (-1: not a number, e.g. the 0/0 frequency of a position without reads)"""
    try:
        v = float(x)
    except ValueError:
        return -1
    return int(round(v * 1000000)) if v == v and abs(v) < 2000 else -1


def rand_th(rng, n_samples=3):
    # --min-ind over its boundary values 0 (population thresholds only), 1, n_samples, n_samples + 1 (nothing can be listed)
    return {"imaf": rng.choice([[0, 1], [1, 10], [1, 4], [1, 2]]), "imad": rng.choice([0, 1, 2, 3]),
            "mind": rng.choice([1, 1, 2, n_samples, 0, n_samples + 1]),
            "maf": rng.choice([[0, 1], [0, 1], [1, 8], [1, 4]]), "mad": rng.choice([0, 0, 2, 10])}


def record_repo(task):
    import random

    data = task["data"]  # a copy of the repository's test data under work/ (never read /repo in place: pysam may write indexes)
    fasta = os.path.join(data, "simple.fasta")
    rng = random.Random(task["seed"])
    out = []
    tid = task["tid0"]
    with pysam.FastaFile(fasta) as fa:
        for bams in task["bam_sets"]:
            paths = [os.path.join(data, b) for b in bams]
            for contig, start, stop in task["regions"]:
                refseq = fa.fetch(contig, start, stop)
                for k in range(task["cfgs"]):
                    fc = {"minq": 20, "kd": False, "kq": False, "ks": False} if k == 0 else {
                        "minq": rng.choice([0, 20, 30]), "kd": rng.random() < 0.5, "kq": rng.random() < 0.5, "ks": rng.random() < 0.5}
                    th = {"imaf": [1, 10], "imad": 3, "mind": 1, "maf": [0, 1], "mad": 0} if k == 0 else rand_th(rng, len(paths))
                    tid += 1
                    out.append(_trace(tid, contig, start, stop, fasta, paths, fc, th, refseq))
    return out


def record_random(task):
    """Seeded random BAMs (free-form CIGARs, flags, MAPQ), unpaired, base quality >= 30, no secondary."""
    out = []
    wd = os.path.join(task["wd"], "rand-%s" % task["chunk"])
    shutil.rmtree(wd, ignore_errors=True)
    os.makedirs(wd)
    tid = task["tid0"]
    for it in range(task["n"]):
        rng = bamgen.seeded("c19rand", task["seed"], task["chunk"], it)
        g = bamgen.Geometry.build(rng, [rng.choice(BASES) for _ in range(4)])
        contigs = {g.contig: len(g.ref)}
        # half of the iterations: one to three reference bases of the target (sites included) spelled N / IUPAC / n
        fref = ambiguate(g, bamgen.seeded("c19randamb", task["seed"], task["chunk"], it), inside=(g.start, g.stop, 1 + it % 3))[0] if it % 2 == 1 else g.ref
        fasta = bamgen.write_fasta(os.path.join(wd, "ref%d.fa" % it), {g.contig: fref})
        nS = rng.choice([2, 3])
        snp = {p: [g.ref[p]] * 3 + [b for b in BASES if b != g.ref[p]] for p in g.sites}
        paths = []
        for k in range(nS):
            alns = [bamgen.random_alignment(rng, g, "r%d_%d" % (k, i), "g%d" % k, length=(15, 45),
                                            flag_probs={"paired": 0.0, "secondary": 0.0, "dup": 0.15, "qcfail": 0.15, "supp": 0.15},
                                            min_qual=30, max_qual=41, snp_bases=snp) for i in range(rng.randint(6, 22))]
            p = os.path.join(wd, "r%d_s%d.bam" % (it, k))
            bamgen.write_bam(p, contigs, [{"ID": "g%d" % k, "SM": "R%d" % k}], alns)
            paths.append(p)
        for k in range(task.get("cfgs", 3)):
            fc = {"minq": rng.choice([0, 20, 30]), "kd": rng.random() < 0.5, "kq": rng.random() < 0.5, "ks": rng.random() < 0.5}
            th = rand_th(rng, nS)
            if th["maf"][0] > 0:
                th["maf"] = [0, 1] if rng.random() < 0.5 else th["maf"]
            tid += 1
            out.append(_trace(tid, g.contig, g.start, g.stop, fasta, paths, fc, th, fref[g.start:g.stop]))
    shutil.rmtree(wd, ignore_errors=True)
    return out


def _frac(a, b):
    f = Fraction(a, b)
    return [f.numerator, f.denominator]


def record_deep(task):
    """Seeded random DEEP tables: 2-3 samples of 30-60 plain reads covering 3 nearby sites; at every site two ALT alleles whose
    counts differ by at most one between the samples (near-tied, mostly unequal mean sample frequencies), sometimes a third.
    Thresholds at boundary values: --min-ind 0 / 1 / n / n+1, the others at 0, at a default, or exactly on a value observed
    in the table (a sample's allele frequency / depth, a population depth).  Validated by TraceFindSnvs in exact arithmetic."""
    out = []
    wd = os.path.join(task["wd"], "deep-%s" % task["chunk"])
    shutil.rmtree(wd, ignore_errors=True)
    os.makedirs(wd)
    tid = task["tid0"]
    for it in range(task["n"]):
        rng = bamgen.seeded("c19deep", task["seed"], task["chunk"], it)
        refs = [rng.choice(BASES) for _ in range(3)]
        g = bamgen.Geometry.build(rng, refs, spacing=(1, 3), margin=(3, 5))
        contigs = {g.contig: len(g.ref)}
        fasta = bamgen.write_fasta(os.path.join(wd, "ref%d.fa" % it), {g.contig: g.ref})
        nS = rng.choice([2, 2, 3])
        t0 = rng.randint(30, 58)
        tots = [min(60, max(30, t0 + rng.choice([0, 1, 1, 2, 3, -1]))) for _ in range(nS)]
        cols = [[None] * 3 for _ in range(nS)]      # cols[k][site] = list of bases, one per read
        table = []                                  # (site, sample, base, depth, total)
        for j in range(3):
            alts = [b for b in BASES if b != refs[j]]
            rng.shuffle(alts)
            a = rng.randint(6, min(13, (min(tots) - 8) // 2 - 1))
            third = rng.choice([0, 0, 1, 4])
            # mostly the crossed pattern: one sample has one more read of the first ALT, another one more of the second
            # (means differ by |1/t - 1/t'| / n: unequal unless the two depths are equal); otherwise independent +0/+1
            crossed = rng.random() < 0.65
            k0, k1 = rng.sample(range(nS), 2)
            for k in range(nS):
                if crossed:
                    cnt = {alts[0]: a + (k == k0), alts[1]: a + (k == k1), alts[2]: min(third, 2 + k)}
                else:
                    cnt = {alts[0]: a + rng.choice([0, 1]), alts[1]: a + rng.choice([0, 1]), alts[2]: min(third, 2 + k)}
                cnt[refs[j]] = tots[k] - sum(cnt.values())
                col = [b for b, n in cnt.items() for _ in range(n)]
                rng.shuffle(col)
                cols[k][j] = col
                table.extend((j, k, b, n, tots[k]) for b, n in cnt.items() if n > 0)
        paths = []
        for k in range(nS):
            alns = []
            for i in range(tots[k]):
                ab = {"qname": "d%d_%d" % (k, i), "rg": "g%d" % k, "flags": ["reverse"] if rng.random() < 0.5 else [], "mapq": 60,
                      "cells": [cols[k][j][i] for j in range(3)], "overlap": True}
                alns.append(bamgen.realise(ab, g, rng, min_qual=30, max_qual=41))
            p = os.path.join(wd, "d%d_s%d.bam" % (it, k))
            bamgen.write_bam(p, contigs, [{"ID": "g%d" % k, "SM": "D%d" % k}], alns)
            paths.append(p)
        start, stop = g.sites[0], g.sites[-1] + 1
        for c in range(task.get("cfgs", 4)):
            j, k, b, n, t = rng.choice(table)
            popd = sum(x[3] for x in table if x[0] == j and x[2] == b)
            th = {"imaf": rng.choice([[0, 1], [1, 10], _frac(n, t), _frac(n, t)]), "imad": rng.choice([0, 3, n, n]),
                  "mind": rng.choice([0, 1, nS, nS + 1, 1, 0]),
                  "maf": rng.choice([[0, 1], [0, 1], [1, 10], _frac(n, t)]), "mad": rng.choice([0, 0, popd, popd + 1])}
            if c == 0:
                th = {"imaf": [1, 10], "imad": 3, "mind": 1, "maf": [0, 1], "mad": 0}
            if c == 1:
                # --ind-maf exactly on one sample's frequency k/n, with --min-ind set to the number of samples that reach it:
                # the allele is listed iff that sample counts as reaching its own frequency (prefer pairs for which
                # k * (1/n) differs from k/n in double arithmetic)
                cand = [x for x in table if x[3] * (1.0 / x[4]) < x[3] / x[4]] or table
                j, k, b, n, t = rng.choice(cand)
                reach = sum(1 for x in table if x[0] == j and x[2] == b and Fraction(x[3], x[4]) >= Fraction(n, t))
                th = {"imaf": _frac(n, t), "imad": 0, "mind": reach, "maf": [0, 1], "mad": 0}
            fc = {"minq": 20, "kd": False, "kq": False, "ks": False}
            tid += 1
            out.append(_trace(tid, g.contig, start, stop, fasta, paths, fc, th, g.ref[start:stop]))
    shutil.rmtree(wd, ignore_errors=True)
    return out


def run(task):
    op = task["op"]
    if op == "replay":
        return replay(task)
    if op == "record_repo":
        return record_repo(task)
    if op == "record_random":
        return record_random(task)
    if op == "record_deep":
        return record_deep(task)
    raise ValueError(op)
