"""Implementation side of C18: gibbs_probabilities, metropolis_hastings_probabilities (jit),
pair_allele_swap_step (py-mode with the index draws forced; jit where the draw does not
matter) and recorded py-mode mcmc_sampler runs.

The pedigrees are the records printed by PedigreeSampler.tla (DumpPeds); the arrays are
built from them exactly as `mchap call-pedigree` lays them out: genotypes padded with -1 to
the maximum ploidy, reads padded to the largest read count with count 0 / NaN rows.
"""
import math

import numpy as np

P_OK = 7.0 / 8.0


def setup():
    global M, PR
    from mchap.pedigree import mcmc as M
    from mchap.pedigree import prior as PR


def fl(x):
    return x[0] / x[1]


class PedArrays:
    def __init__(self, ped):
        self.ped = ped
        n = ped["n"]
        self.n = n
        self.K = ped["K"]
        self.ploidy = np.array(ped["ploidy"], dtype=np.int64)
        self.maxp = int(self.ploidy.max())
        self.parents = np.array([[p - 1 for p in pq] for pq in ped["par"]], dtype=np.int64)
        self.tau = np.array(ped["tau"], dtype=np.int64)
        self.lam = np.array([[fl(x) for x in pq] for pq in ped["lam"]], dtype=np.float64)
        self.err = np.array([[fl(x) for x in pq] for pq in ped["err"]], dtype=np.float64)
        self.haps = np.array(ped["haps"], dtype=np.int8)
        npos = self.haps.shape[1]
        nr = max(1, max(len(r) for r in ped["reads"]))
        self.dists = np.full((n, nr, npos, 2), np.nan, dtype=np.float64)
        self.counts = np.zeros((n, nr), dtype=np.int64)
        for i, rs in enumerate(ped["reads"]):
            for m, r in enumerate(rs):
                self.counts[i, m] = r["n"]
                for j, c in enumerate(r["c"]):
                    if c >= 0:
                        self.dists[i, m, j, c] = P_OK
                        self.dists[i, m, j, 1 - c] = 1.0 - P_OK
        with np.errstate(all="ignore"):
            self.logf = np.log(np.array([fl(x) for x in ped["f"]], dtype=np.float64))
        self.children = M.sample_children_matrix(self.parents)
        self.pairs, self.blankets = M.parental_pair_markov_blankets(self.parents, self.children)
        self.scratch = [np.zeros(self.maxp, dtype=np.int64) for _ in range(7)] + [np.zeros(self.maxp, dtype=np.float64)]

    def genotypes(self, s, dtype=np.int16):
        g = np.full((self.n, self.maxp), -1, dtype=dtype)
        for i, x in enumerate(s):
            g[i, : len(x)] = x
        return g

    def kernel_args(self, g, cache=None):
        return (g, self.ploidy, self.parents, self.children, self.tau, self.lam, self.err,
                self.dists, self.counts, self.haps, self.logf, cache) + tuple(self.scratch)

    def swap_args(self, j, g, cache=None):
        return (int(self.pairs[j, 0]), int(self.pairs[j, 1]), self.blankets[j], g, self.ploidy, self.parents,
                self.tau, self.lam, self.err, self.dists, self.counts, self.haps, self.logf, cache) + tuple(self.scratch)


_peds = {}


def get_ped(ped):
    k = ped["name"]
    if k not in _peds:
        _peds[k] = PedArrays(ped)
    return _peds[k]


def vec(a):
    return [float(x) for x in a]


class ForcedDraws:
    """py-mode only: np.random.randint / np.random.rand inside pair_allele_swap_step return
    the queued values."""

    def __init__(self, ints, u):
        self.ints = list(ints)
        self.u = u

    def __enter__(self):
        self._ri, self._ra = np.random.randint, np.random.rand
        np.random.randint = lambda *a, **k: self.ints.pop(0)
        np.random.rand = lambda *a, **k: self.u
        return self

    def __exit__(self, *exc):
        np.random.randint, np.random.rand = self._ri, self._ra


def run(task):
    op = task["op"]
    if op == "pairs":
        A = get_ped(task["ped"])
        return {"pairs": [[int(x) + 1 for x in r] for r in A.pairs],
                "blankets": [[int(x) + 1 for x in r if x >= 0] for r in A.blankets],
                "children": [[int(x) + 1 for x in r if x >= 0] for r in A.children]}
    if op == "allele_kernels":
        A = get_ped(task["ped"])
        out = []
        for s in task["states"]:
            g = A.genotypes(s)
            g0 = g.copy()
            rows = []
            for i in range(A.n):
                for k in range(int(A.ploidy[i])):
                    gb = M.gibbs_probabilities(i, k, *A.kernel_args(g))
                    mh = M.metropolis_hastings_probabilities(i, k, *A.kernel_args(g))
                    rows.append({"i": i + 1, "k": k + 1, "gibbs": vec(gb), "mh": vec(mh)})
            out.append({"rows": rows, "restored": bool((g == g0).all())})
        return out
    if op == "swap_py":
        # every (pair, ip, iq) of every state with the index draws forced
        A = get_ped(task["ped"])
        out = []
        for s in task["states"]:
            rows = []
            for j in range(len(A.pairs)):
                p, q = int(A.pairs[j, 0]), int(A.pairs[j, 1])
                for ip in range(int(A.ploidy[p])):
                    for iq in range(int(A.ploidy[q])):
                        g = A.genotypes(s)
                        with ForcedDraws([ip, iq], task.get("u", 0.5)):
                            pr, acc = M.pair_allele_swap_step(*A.swap_args(j, g))
                        rows.append({"p": p + 1, "q": q + 1, "ip": ip + 1, "iq": iq + 1, "prob": float(pr),
                                     "accept": bool(acc),
                                     "after": [[int(a) for a in g[i, : int(A.ploidy[i])]] for i in range(A.n)]})
            out.append(rows)
        return out
    if op == "swap_jit":
        # compiled: states in which both parents are homozygous, so that every index draw
        # proposes the same exchange
        A = get_ped(task["ped"])
        out = []
        for s in task["states"]:
            rows = []
            for j in range(len(A.pairs)):
                g = A.genotypes(s)
                pr, acc = M.pair_allele_swap_step(*A.swap_args(j, g))
                rows.append({"p": int(A.pairs[j, 0]) + 1, "q": int(A.pairs[j, 1]) + 1, "prob": float(pr)})
            out.append(rows)
        return out
    if op == "sampler_trace":
        return sampler_trace(task)
    raise ValueError(op)


def sampler_trace(task):
    """py-mode: run mcmc_sampler with recorders on allele_step / pair_allele_swap_step."""
    A = get_ped(task["ped"])
    np.random.seed(task["seed"])
    ev = []
    orig_allele, orig_swap = M.allele_step, M.pair_allele_swap_step

    import inspect

    sig_allele = inspect.signature(orig_allele)
    sig_swap = inspect.signature(orig_swap)

    def rec_allele(*a, **k):
        r = orig_allele(*a, **k)
        b = sig_allele.bind(*a, **k).arguments
        ev.append({"op": "allele", "i": int(b["target_index"]) + 1, "k": int(b["allele_index"]) + 1,
                   "b": int(b["sample_genotypes"][b["target_index"], b["allele_index"]])})
        return r

    def rec_swap(*a, **k):
        r = orig_swap(*a, **k)
        b = sig_swap.bind(*a, **k).arguments
        p, q, g, pl = int(b["p"]), int(b["q"]), b["sample_genotypes"], b["sample_ploidy"]
        ev.append({"op": "swap", "p": p + 1, "q": q + 1,
                   "xp": [int(x) for x in g[p, : pl[p]]], "xq": [int(x) for x in g[q, : pl[q]]]})
        return r

    M.allele_step, M.pair_allele_swap_step = rec_allele, rec_swap
    try:
        g = A.genotypes(task["start"])
        ev.append({"op": "start", "ped": task["ped"]["name"], "s": task["start"], "swap": bool(task["swap"])})
        # mcmc_sampler records the state after every iteration; recover the iteration
        # boundaries by wrapping compound_step
        orig_compound = M.compound_step

        def rec_compound(*a, **k):
            ev.append({"op": "iter"})
            return orig_compound(*a, **k)

        M.compound_step = rec_compound
        try:
            trace = M.mcmc_sampler(g, A.ploidy, A.parents, A.tau, A.lam, A.err, A.dists, A.counts, A.haps, A.logf,
                                   n_steps=task["steps"], annealing=0, step_type=task["step_type"],
                                   swap_parental_alleles=bool(task["swap"]))
        finally:
            M.compound_step = orig_compound
    finally:
        M.allele_step, M.pair_allele_swap_step = orig_allele, orig_swap
    # interleave the recorded rows: one "record" after the events of each iteration
    out = []
    it = -1
    for e in ev:
        if e["op"] == "iter":
            if it >= 0:
                out.append({"op": "record", "rows": [[int(x) for x in trace[it, i]] for i in range(A.n)]})
            it += 1
        else:
            out.append(e)
    out.append({"op": "record", "rows": [[int(x) for x in trace[it, i]] for i in range(A.n)]})
    return out
