"""Implementation side of C18: gibbs_probabilities, metropolis_hastings_probabilities (jit),
pair_allele_swap_step (py-mode with the index draws forced; jit where the draw does not
matter) and recorded py-mode mcmc_sampler runs.

The pedigrees are the records printed by PedigreeSampler.tla (DumpPeds); the arrays are
built from them exactly as `mchap call-pedigree` lays them out: genotypes padded with -1 to
the maximum ploidy, reads padded to the largest read count with count 0 / NaN rows.

A task may carry a `layout`: for every individual the list of read slots, each entry the
index of one of its model read rows or -1 for an unused slot (count 0, NaN).  The model's
read set is a bag (PedigreeSampler!ReadOrderIrrelevant, ZeroCountNeutral), so every layout
of the same pedigree has the same kernels.  Model rows with count 0 are laid out as masked
reads (count 0, real probabilities).

Shared likelihood cache: `cached_walk` (py-mode) evaluates the kernels of a sequence of
joint states with ONE cache dictionary shared by all individuals, moves and states, as
mcmc_sampler shares it; `sampler_trace` records, for every update of a real mcmc_sampler
run, the probability vector the update drew from (computed with the sampler's own cache).
"""
import math

import numpy as np

P_OK = 7.0 / 8.0


def setup():
    global M, PR
    from mchap.pedigree import mcmc as M
    from mchap.pedigree import prior as PR


def fl(x):
    return x[0] / x[1]


class PedArrays:
    def __init__(self, ped, layout=None, pad=0):
        """pad: number of unrelated diploid founders without reads listed BEFORE the pedigree's individuals (the joint
        posterior factorises over them, so every conditional of the real individuals is unchanged); the real individuals
        then have sample indices pad .. pad + n - 1"""
        self.ped = ped
        n = ped["n"]
        self.n = n
        self.pad = pad
        self.K = ped["K"]
        self.ploidy = np.array(ped["ploidy"], dtype=np.int64)
        self.maxp = int(self.ploidy.max())
        self.parents = np.array([[p - 1 for p in pq] for pq in ped["par"]], dtype=np.int64)
        self.tau = np.array(ped["tau"], dtype=np.int64)
        self.lam = np.array([[fl(x) for x in pq] for pq in ped["lam"]], dtype=np.float64)
        self.err = np.array([[fl(x) for x in pq] for pq in ped["err"]], dtype=np.float64)
        self.haps = np.array(ped["haps"], dtype=np.int8)
        npos = self.haps.shape[1]
        if layout is None:
            layout = [list(range(len(rs))) for rs in ped["reads"]]
        for i, sl in enumerate(layout):
            if sorted(x for x in sl if x >= 0) != list(range(len(ped["reads"][i]))):
                raise ValueError("layout of individual %d is not a permutation of its read rows" % (i + 1))
        nr = max(1, max(len(sl) for sl in layout))
        self.dists = np.full((n, nr, npos, 2), np.nan, dtype=np.float64)
        self.counts = np.zeros((n, nr), dtype=np.int64)
        for i, sl in enumerate(layout):
            for m, x in enumerate(sl):
                if x < 0:
                    continue
                r = ped["reads"][i][x]
                self.counts[i, m] = r["n"]
                for j, c in enumerate(r["c"]):
                    if c >= 0:
                        self.dists[i, m, j, c] = P_OK
                        self.dists[i, m, j, 1 - c] = 1.0 - P_OK
        with np.errstate(all="ignore"):
            self.logf = np.log(np.array([fl(x) for x in ped["f"]], dtype=np.float64))
        if pad:
            self.n = n + pad
            self.ploidy = np.concatenate([np.full(pad, 2, dtype=np.int64), self.ploidy])
            self.parents = np.concatenate([np.full((pad, 2), -1, dtype=np.int64), np.where(self.parents >= 0, self.parents + pad, -1)])
            self.tau = np.concatenate([np.ones((pad, 2), dtype=np.int64), self.tau])
            self.lam = np.concatenate([np.zeros((pad, 2)), self.lam])
            self.err = np.concatenate([np.zeros((pad, 2)), self.err])
            self.dists = np.concatenate([np.full((pad,) + self.dists.shape[1:], np.nan), self.dists])
            self.counts = np.concatenate([np.zeros((pad, nr), dtype=np.int64), self.counts])
        self.children = M.sample_children_matrix(self.parents)
        self.pairs, self.blankets = M.parental_pair_markov_blankets(self.parents, self.children)
        self.scratch = [np.zeros(self.maxp, dtype=np.int64) for _ in range(7)] + [np.zeros(self.maxp, dtype=np.float64)]

    def genotypes(self, s, dtype=np.int16):
        g = np.full((self.n, self.maxp), -1, dtype=dtype)
        g[: self.pad, :2] = 0
        for i, x in enumerate(s):
            g[self.pad + i, : len(x)] = x
        return g

    def kernel_args(self, g, cache=None):
        return (g, self.ploidy, self.parents, self.children, self.tau, self.lam, self.err,
                self.dists, self.counts, self.haps, self.logf, cache) + tuple(self.scratch)

    def swap_args(self, j, g, cache=None):
        return (int(self.pairs[j, 0]), int(self.pairs[j, 1]), self.blankets[j], g, self.ploidy, self.parents,
                self.tau, self.lam, self.err, self.dists, self.counts, self.haps, self.logf, cache) + tuple(self.scratch)


_peds = {}


def get_ped(ped, layout=None, pad=0):
    k = (ped["name"], repr(layout), pad)
    if k not in _peds:
        _peds[k] = PedArrays(ped, layout, pad)
    return _peds[k]


def micro(v):
    """float probability -> round(10^6 v) (-1 for NaN: no proposal)"""
    v = float(v)
    return -1 if math.isnan(v) else int(round(v * 1e6))


def vec(a):
    return [float(x) for x in a]


class ForcedDraws:
    """py-mode only: np.random.randint / np.random.rand inside pair_allele_swap_step return
    the queued values."""

    def __init__(self, ints, u):
        self.ints = list(ints)
        self.u = u

    def __enter__(self):
        self._ri, self._ra = np.random.randint, np.random.rand
        np.random.randint = lambda *a, **k: self.ints.pop(0)
        np.random.rand = lambda *a, **k: self.u
        return self

    def __exit__(self, *exc):
        np.random.randint, np.random.rand = self._ri, self._ra


def run(task):
    op = task["op"]
    if op == "pairs":
        A = get_ped(task["ped"])
        return {"pairs": [[int(x) + 1 for x in r] for r in A.pairs],
                "blankets": [[int(x) + 1 for x in r if x >= 0] for r in A.blankets],
                "children": [[int(x) + 1 for x in r if x >= 0] for r in A.children]}
    if op == "allele_kernels":
        A = get_ped(task["ped"], task.get("layout"), task.get("pad", 0))
        out = []
        for s in task["states"]:
            g = A.genotypes(s)
            g0 = g.copy()
            rows = []
            for i in range(A.pad, A.n):
                for k in range(int(A.ploidy[i])):
                    gb = M.gibbs_probabilities(i, k, *A.kernel_args(g))
                    mh = M.metropolis_hastings_probabilities(i, k, *A.kernel_args(g))
                    rows.append({"i": i - A.pad + 1, "k": k + 1, "gibbs": vec(gb), "mh": vec(mh)})
            out.append({"rows": rows, "restored": bool((g == g0).all())})
        return out
    if op == "swap_py":
        # every (pair, ip, iq) of every state with the index draws forced
        A = get_ped(task["ped"], task.get("layout"))
        out = []
        for s in task["states"]:
            rows = []
            for j in range(len(A.pairs)):
                p, q = int(A.pairs[j, 0]), int(A.pairs[j, 1])
                for ip in range(int(A.ploidy[p])):
                    for iq in range(int(A.ploidy[q])):
                        g = A.genotypes(s)
                        with ForcedDraws([ip, iq], task.get("u", 0.5)):
                            pr, acc = M.pair_allele_swap_step(*A.swap_args(j, g))
                        rows.append({"p": p + 1, "q": q + 1, "ip": ip + 1, "iq": iq + 1, "prob": float(pr),
                                     "accept": bool(acc),
                                     "after": [[int(a) for a in g[i, : int(A.ploidy[i])]] for i in range(A.n)]})
            out.append(rows)
        return out
    if op == "swap_jit":
        # compiled: states in which both parents are homozygous, so that every index draw
        # proposes the same exchange
        A = get_ped(task["ped"])
        out = []
        for s in task["states"]:
            rows = []
            for j in range(len(A.pairs)):
                g = A.genotypes(s)
                pr, acc = M.pair_allele_swap_step(*A.swap_args(j, g))
                rows.append({"p": int(A.pairs[j, 0]) + 1, "q": int(A.pairs[j, 1]) + 1, "prob": float(pr)})
            out.append(rows)
        return out
    if op == "cached_walk":
        return cached_walk(task)
    if op == "sampler_trace":
        return sampler_trace(task)
    raise ValueError(op)


def cached_walk(task):
    """py-mode: the kernels of a sequence of joint states with one likelihood cache shared by
    every individual, move type and state (the way mcmc_sampler shares it).  The individuals
    are visited in ascending order in one state and descending order in the next, so that a
    lower-ploidy sample is evaluated after a higher-ploidy one and vice versa."""
    A = get_ped(task["ped"], task.get("layout"))
    cache = {}
    out = []
    for num, s in enumerate(task["states"]):
        g = A.genotypes(s)
        g0 = g.copy()
        order = list(range(A.n))
        if (num + task.get("flip", 0)) % 2:
            order.reverse()
        rows = []
        for i in order:
            for k in range(int(A.ploidy[i])):
                gb = M.gibbs_probabilities(i, k, *A.kernel_args(g, cache))
                mh = M.metropolis_hastings_probabilities(i, k, *A.kernel_args(g, cache))
                gb0 = M.gibbs_probabilities(i, k, *A.kernel_args(g.copy(), None))
                mh0 = M.metropolis_hastings_probabilities(i, k, *A.kernel_args(g.copy(), None))
                rows.append({"i": i + 1, "k": k + 1, "gibbs": vec(gb), "mh": vec(mh), "gibbs0": vec(gb0), "mh0": vec(mh0)})
        restored = bool((g == g0).all())
        swaps = []
        for j in range(len(A.pairs)):
            p, q = int(A.pairs[j, 0]), int(A.pairs[j, 1])
            for ip in range(int(A.ploidy[p])):
                for iq in range(int(A.ploidy[q])):
                    g = A.genotypes(s)
                    with ForcedDraws([ip, iq], 0.5):
                        pr, acc = M.pair_allele_swap_step(*A.swap_args(j, g, cache))
                    g1 = A.genotypes(s)
                    with ForcedDraws([ip, iq], 0.5):
                        pr0, _ = M.pair_allele_swap_step(*A.swap_args(j, g1, None))
                    swaps.append({"p": p + 1, "q": q + 1, "ip": ip + 1, "iq": iq + 1, "prob": float(pr),
                                  "prob0": float(pr0), "accept": bool(acc),
                                  "after": [[int(a) for a in g[i, : int(A.ploidy[i])]] for i in range(A.n)]})
        out.append({"rows": rows, "restored": restored, "swaps": swaps})
    return out


def sampler_trace(task):
    """py-mode: run mcmc_sampler with recorders on allele_step / pair_allele_swap_step."""
    A = get_ped(task["ped"], task.get("layout"))
    np.random.seed(task["seed"])
    ev = []
    rows_on = bool(task.get("rows"))
    orig_allele, orig_swap = M.allele_step, M.pair_allele_swap_step
    orig_gibbs, orig_mh = M.gibbs_probabilities, M.metropolis_hastings_probabilities
    pending = []

    import inspect

    sig_allele = inspect.signature(orig_allele)
    sig_swap = inspect.signature(orig_swap)

    def rec_kernel(orig, kind):
        # the vector allele_step draws from, computed with the sampler's own shared cache,
        # and the same call without a cache
        sig = inspect.signature(orig)

        def f(*a, **k):
            r = orig(*a, **k)
            b = dict(sig.bind(*a, **k).arguments)
            r0 = orig(**dict(b, sample_genotypes=b["sample_genotypes"].copy(), llk_cache=None))
            pending.append({"kind": kind, "pr": [micro(x) for x in r], "pr0": [micro(x) for x in r0]})
            return r

        return f

    def rec_allele(*a, **k):
        del pending[:]
        r = orig_allele(*a, **k)
        b = sig_allele.bind(*a, **k).arguments
        e = {"op": "allele", "i": int(b["target_index"]) + 1, "k": int(b["allele_index"]) + 1,
             "b": int(b["sample_genotypes"][b["target_index"], b["allele_index"]])}
        if rows_on and len(pending) == 1:
            e.update(pending[0])
        ev.append(e)
        return r

    def rec_swap(*a, **k):
        b = dict(sig_swap.bind(*a, **k).arguments)
        g = b["sample_genotypes"]
        before = g.copy()
        draws = []
        real_randint = np.random.randint

        def spy(*aa, **kk):
            draws.append(int(real_randint(*aa, **kk)))
            return draws[-1]

        np.random.randint = spy
        try:
            r = orig_swap(*a, **k)
        finally:
            np.random.randint = real_randint
        p, q, pl = int(b["p"]), int(b["q"]), b["sample_ploidy"]
        e = {"op": "swap", "p": p + 1, "q": q + 1,
             "xp": [int(x) for x in g[p, : pl[p]]], "xq": [int(x) for x in g[q, : pl[q]]]}
        if rows_on and len(draws) == 2:
            with ForcedDraws(draws, 0.5):
                r0 = orig_swap(**dict(b, sample_genotypes=before, llk_cache=None))
            e.update({"ip": draws[0] + 1, "iq": draws[1] + 1, "acc": micro(r[0]), "acc0": micro(r0[0])})
        ev.append(e)
        return r

    M.allele_step, M.pair_allele_swap_step = rec_allele, rec_swap
    if rows_on:
        M.gibbs_probabilities = rec_kernel(orig_gibbs, "gibbs")
        M.metropolis_hastings_probabilities = rec_kernel(orig_mh, "mh")
    try:
        g = A.genotypes(task["start"])
        ev.append({"op": "start", "ped": task["ped"]["name"], "s": task["start"], "swap": bool(task["swap"])})
        # mcmc_sampler records the state after every iteration; recover the iteration
        # boundaries by wrapping compound_step
        orig_compound = M.compound_step

        def rec_compound(*a, **k):
            ev.append({"op": "iter"})
            return orig_compound(*a, **k)

        M.compound_step = rec_compound
        try:
            trace = M.mcmc_sampler(g, A.ploidy, A.parents, A.tau, A.lam, A.err, A.dists, A.counts, A.haps, A.logf,
                                   n_steps=task["steps"], annealing=0, step_type=task["step_type"],
                                   swap_parental_alleles=bool(task["swap"]))
        finally:
            M.compound_step = orig_compound
    finally:
        M.allele_step, M.pair_allele_swap_step = orig_allele, orig_swap
        M.gibbs_probabilities, M.metropolis_hastings_probabilities = orig_gibbs, orig_mh
    # interleave the recorded rows: one "record" after the events of each iteration
    out = []
    it = -1
    for e in ev:
        if e["op"] == "iter":
            if it >= 0:
                out.append({"op": "record", "rows": [[int(x) for x in trace[it, i]] for i in range(A.n)]})
            it += 1
        else:
            out.append(e)
    out.append({"op": "record", "rows": [[int(x) for x in trace[it, i]] for i in range(A.n)]})
    return out
