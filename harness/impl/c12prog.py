"""In-process runs of the MCHap programs (jit-mode workers only: importing
mchap.application.* turns RuntimeWarning into errors process-wide, which is the
programs' real behaviour and must not be combined with NUMBA_DISABLE_JIT).

    run_program("assemble", ["--bam", ..., "--targets", ...]) -> {"out": text} | {"error": "Type: msg", "tb": ...}

Used by C12 (assemble -> call / call-exact pipelines), C16 (CLI subset) and C20
(haplotype VCFs for the atomizer).
"""
import contextlib
import importlib
import io
import os
import traceback

DATA = None


def data_dir():
    global DATA
    if DATA is None:
        import mchap

        DATA = os.path.join(os.path.dirname(os.path.abspath(mchap.__file__)), "tests", "test_io", "data")
    return DATA


def expand(argv):
    """'@name' -> path of the repo's test data file `name`."""
    return [os.path.join(data_dir(), a[1:]) if isinstance(a, str) and a.startswith("@") else a for a in argv]


_MODULES = {
    "assemble": "mchap.application.assemble",
    "call": "mchap.application.call",
    "call-exact": "mchap.application.call_exact",
    "call-pedigree": "mchap.application.call_pedigree",
}


def run_program(name, argv):
    import numpy as np

    argv = expand(argv)
    buf = io.StringIO()
    try:
        mod = importlib.import_module(_MODULES[name])
        prog = mod.program.cli(["mchap", name] + list(argv))
        # numpy's floating-point error handling as in a fresh interpreter (the worker boot code silences it for the
        # function-level jobs): with the programs' RuntimeWarning -> error filter a 0/0 aborts the run, as on the command line
        with contextlib.redirect_stdout(buf), np.errstate(divide="warn", over="warn", under="ignore", invalid="warn"):
            prog.run_stdout()
    except SystemExit as e:
        return {"error": "SystemExit: %s" % e.code, "tb": "", "partial": buf.getvalue()}
    except BaseException as e:  # the programs raise LocusAssemblyError etc.
        chain = []
        x = e
        while x is not None and len(chain) < 5:
            chain.append("%s: %s" % (type(x).__name__, str(x)[:300]))
            x = x.__cause__ or x.__context__
        return {"error": chain[-1], "chain": chain, "tb": traceback.format_exc()[-3000:], "partial": buf.getvalue()}
    return {"out": buf.getvalue()}


def run_atomize(path):
    from mchap.application.atomize import atomize_vcf

    buf = io.StringIO()
    try:
        with contextlib.redirect_stdout(buf):
            atomize_vcf(path)
    except BaseException as e:
        tb = traceback.extract_tb(e.__traceback__)
        where = [f for f in tb if "mchap" in f.filename]
        fn = where[-1].name if where else ""
        return {"error": "%s: %s" % (type(e).__name__, str(e)[:200]), "etype": type(e).__name__, "where": fn,
                "partial": buf.getvalue()}
    return {"out": buf.getvalue()}


def run_cli(argv, timeout=600):
    """The real command line in a fresh interpreter: `mchap <argv...>` -> {"rc":, "out":, "err": tail}."""
    import subprocess
    import sys

    code = "import sys; from mchap.application.cli import main; sys.argv = ['mchap'] + sys.argv[1:]; main()"
    p = subprocess.run([sys.executable, "-c", code] + expand(argv), capture_output=True, text=True, timeout=timeout)
    return {"rc": p.returncode, "out": p.stdout, "err": p.stderr[-1500:]}
