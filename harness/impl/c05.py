"""Implementation side of C05: the three genotype prior functions.

Runs inside a worker process that imports the tree under test (jit or py mode).
"""
import math
import random

import numpy as np


def setup():
    global CP, AP
    from mchap.calling import prior as CP
    from mchap.assemble import prior as AP


def _call(f, *a, **k):
    """float result, or a string describing the exception"""
    try:
        with np.errstate(all="ignore"):
            return float(f(*a, **k))
    except Exception as e:  # noqa
        return "ERR %s: %s" % (type(e).__name__, e)


def _perm(rnd, xs):
    xs = list(xs)
    rnd.shuffle(xs)
    return xs


def eval_state(s, rnd):
    P, K = s["P"], s["K"]
    F = s["fn"] / s["fd"]
    freq = np.array([x / s["m"] for x in s["n"]], dtype=np.float64)
    g = np.array(s["g"], dtype=np.int64)
    perm = _perm(rnd, range(P))
    gp = g[perm]
    out = {"perm": perm}
    # genotype prior (explicit frequencies), sorted / permuted order / int8 alleles
    out["gp"] = _call(CP.log_genotype_prior, g, K, F, freq)
    out["gp_perm"] = _call(CP.log_genotype_prior, gp, K, F, freq)
    out["gp_i8"] = _call(CP.log_genotype_prior, g.astype(np.int8), K, F, freq)
    # single-allele conditional at every position (sorted order), and at the image
    # of each position in the permuted order
    out["cond"] = [_call(CP.log_genotype_allele_prior, g, t, K, F, freq) for t in range(P)]
    out["cond_perm"] = [_call(CP.log_genotype_allele_prior, gp, t, K, F, freq) for t in range(P)]
    if s["flat"]:
        out["gp_none"] = _call(CP.log_genotype_prior, g, K, F, None)
        out["gp_none_perm"] = _call(CP.log_genotype_prior, gp, K, F, None)
        out["cond_none"] = [_call(CP.log_genotype_allele_prior, g, t, K, F, None) for t in range(P)]
        d = np.array(s["dosage"], dtype=np.int8)
        lu = math.log(K)
        out["asm"] = _call(AP.log_genotype_prior, d, lu, F)
        out["asm_perm"] = _call(AP.log_genotype_prior, d[perm].astype(np.int64), lu, F)
        if F == 0:
            out["asm_null"] = _call(AP.log_genotype_null_prior, d, lu)
        else:
            ldisp = math.log((1 - F) / F) - lu
            out["asm_dm"] = _call(AP.log_dirichlet_multinomial_pmf, d, ldisp, lu)
    return out


SATURATE = 2 * 10**9


def quantise(lp):
    """log-probability -> (q, e): q = round(p * 10^(9+e)), 10^8 <= q < 10^9 (or q = e = 0 for p = 0)"""
    if isinstance(lp, str) or math.isnan(lp):
        return None
    if lp == -math.inf:
        return 0, 0
    p = math.exp(min(lp, 5.0))
    if p <= 0.0:
        return None
    e = 0
    while p * 10 ** (9 + e) < 1e8 and e < 60:
        e += 1
    q = int(round(p * 10 ** (9 + e)))
    if q >= 10**9 and e > 0:  # rounding pushed it over the decade
        e -= 1
        q = int(round(p * 10 ** (9 + e)))
    return min(q, SATURATE), e   # "probabilities" above 2 are recorded saturated (TLC integers are 32-bit)


def quantise_wide(lp):
    """as quantise, for probabilities down to 1e-300 (exponent computed in the log domain)"""
    if isinstance(lp, str) or math.isnan(lp):
        return None
    if lp == -math.inf:
        return 0, 0
    l10 = lp / math.log(10.0)
    e = max(0, int(math.floor(-l10)))
    q = int(round(10.0 ** (l10 + 9 + e)))
    if q >= 10**9 and e > 0:
        e -= 1
        q = int(round(10.0 ** (l10 + 9 + e)))
    if q < 10**8 and l10 < 0:
        e += 1
        q = int(round(10.0 ** (l10 + 9 + e)))
    return min(q, SATURATE), e


def composition(rnd, total, k, p_zero):
    """random composition of `total` into k naturals; entries are zero with prob p_zero
    (at least one is positive)"""
    while True:
        mask = [0 if rnd.random() < p_zero else 1 for _ in range(k)]
        if sum(mask):
            break
    live = [i for i in range(k) if mask[i]]
    cuts = sorted(rnd.randint(0, total) for _ in range(len(live) - 1))
    parts = [b - a for a, b in zip([0] + cuts, cuts + [total])]
    out = [0] * k
    for i, v in zip(live, parts):
        out[i] = v
    return out


def succ(g):
    """successor of a sorted genotype in VCF order (harness-side, only to drive the walk;
    the walk order is validated by TracePriors)"""
    g = list(g)
    p = len(g)
    for i in range(p):
        if i == p - 1 or g[i] < g[i + 1]:
            g[i] += 1
            for k in range(i):
                g[k] = 0
            return g


def random_trace(task):
    """code -> spec: recorded calls with exactly representable random parameters
    (F = fn/64, frequencies n_i/64)."""
    rnd = random.Random(task["seed"])
    ev = []
    n_inst = task["n"]
    max_walk = task.get("max_walk", 400)
    for _ in range(n_inst):
        P = rnd.randint(1, 8)
        K = rnd.randint(1, 6)
        fn = 0 if rnd.random() < 0.15 else rnd.randint(1, 63)
        flat = rnd.random() < 0.25
        if flat:
            # flat prior over K haplotypes; 64 is not divisible by every K -> use m = K
            m, n = K, [1] * K
        else:
            m, n = 64, composition(rnd, 64, K, 0.2)
        F = fn / 64
        freq = None if flat else np.array([x / m for x in n], dtype=np.float64)
        total = math.comb(K + P - 1, P)
        walk = total <= max_walk
        ev.append({"op": "begin", "P": P, "K": K, "fn": fn, "fd": 64, "m": m, "n": n, "walk": 1 if walk else 0})
        if walk:
            gs = []
            g = [0] * P
            for _i in range(total):
                gs.append(list(g))
                g = succ(g)
        else:
            gs = [sorted(rnd.randrange(K) for _ in range(P)) for _ in range(40)]
        for g in gs:
            ga = np.array(g, dtype=np.int64)
            lp = _call(CP.log_genotype_prior, ga, K, F, freq)
            qe = quantise(lp)
            if qe is None:
                ev.append({"op": "error", "what": "genotype_prior", "g": g, "value": str(lp)})
            else:
                rec = {"op": "geno", "g": g, "q": qe[0], "e": qe[1]}
                if walk:
                    rec["q0"] = min(int(round(math.exp(min(lp, 1.0)) * 10**9)), 10**9 + 1) if lp != -math.inf else 0
                ev.append(rec)
        if walk:
            ev.append({"op": "end"})
        # conditionals at random positions of random genotypes with positive-probability rest
        for _j in range(12):
            g = sorted(rnd.randrange(K) for _ in range(P))
            t = rnd.randrange(P)
            rest = g[:t] + g[t + 1 :]
            if any(n[a] == 0 for a in rest):
                continue
            lp = _call(CP.log_genotype_allele_prior, np.array(g, dtype=np.int64), t, K, F, freq)
            qe = quantise(lp)
            if qe is None:
                ev.append({"op": "error", "what": "allele_prior", "g": g, "t": t, "value": str(lp)})
            else:
                ev.append({"op": "cond", "g": g, "t": t + 1, "q": qe[0], "e": qe[1]})
        # assemble prior on random dosage layouts, U possible haplotypes
        for _j in range(6):
            U = rnd.choice([2, 3, 4, 6, 8, 9, 12, 16, 27, 32, 64])
            parts = [x for x in composition(rnd, P, P, 0.5)]
            rnd.shuffle(parts)
            if sum(1 for x in parts if x > 0) > U:
                continue
            lp = _call(AP.log_genotype_prior, np.array(parts, dtype=np.int8), math.log(U), F)
            qe = quantise(lp)
            if qe is None:
                ev.append({"op": "error", "what": "assemble_prior", "d": parts, "U": U, "value": str(lp)})
            else:
                ev.append({"op": "asm", "d": parts, "U": U, "q": qe[0], "e": qe[1]})
        # ... high (pooled) ploidies, recorded as "genobig" (no walk)
        if rnd.random() < 0.35:
            P2 = rnd.choice([9, 11, 12, 13, 16, 20])
            K2 = rnd.randint(1, 3)
            fn2 = 0 if rnd.random() < 0.5 else rnd.randint(1, 63)
            n2 = composition(rnd, 64, K2, 0.15)
            ev.append({"op": "begin", "P": P2, "K": K2, "fn": fn2, "fd": 64, "m": 64, "n": n2, "walk": 0})
            fr2 = np.array([x / 64 for x in n2], dtype=np.float64)
            for _j in range(6):
                g = sorted(rnd.randrange(K2) for _ in range(P2))
                if _j == 0:
                    g = [0] * P2
                lp = _call(CP.log_genotype_prior, np.array(g, dtype=np.int64), K2, fn2 / 64, fr2)
                qe = quantise_wide(lp)
                if qe is None:
                    ev.append({"op": "error", "what": "genotype_prior", "g": g, "value": str(lp)})
                else:
                    ev.append({"op": "genobig", "g": g, "q": qe[0], "e": qe[1]})
                d = [g.count(a) for a in range(K2)]
                lp = _call(AP.log_genotype_prior, np.array(d, dtype=np.int8), math.log(8), fn2 / 64)
                qe = quantise_wide(lp)
                if qe is not None:
                    ev.append({"op": "asmbig", "d": d, "Uk": 3, "q": qe[0], "e": qe[1]})
            continue
        # ... and for loci with many SNVs: U = 2^k possible haplotypes (k up to 70), U carried as limbs in the spec
        for _j in range(3):
            k = rnd.choice([20, 33, 40, 52, 55, 60, 70])
            parts = [x for x in composition(rnd, P, P, 0.5)]
            rnd.shuffle(parts)
            lp = _call(AP.log_genotype_prior, np.array(parts, dtype=np.int8), k * math.log(2), F)
            qe = quantise_wide(lp)
            if qe is None:
                ev.append({"op": "error", "what": "assemble_prior", "d": parts, "U": "2^%d" % k, "value": str(lp)})
            else:
                ev.append({"op": "asmbig", "d": parts, "Uk": k, "q": qe[0], "e": qe[1]})
    return ev


def float_instances(task):
    """Arbitrary float parameters (not on the rational grid): properness and the
    conditional identity are checked numerically by the harness from these raw values."""
    rnd = random.Random(task["seed"])
    out = []
    for _ in range(task["n"]):
        P = rnd.randint(1, 6)
        K = rnd.randint(1, 5)
        F = 0.0 if rnd.random() < 0.1 else rnd.random() * 0.98 + 0.001
        # the ends of (0, 1) every time (dispersion (1 - F) / F of several hundred to ten thousand; nearly complete inbreeding)
        if _ % 3 == 0:
            F = (0.004, 0.001, 0.0001, 0.995, 0.0055, 0.02)[(_ // 3) % 6]
            P = (4, 6, 2, 4, 8, 5)[(_ // 3) % 6]
            K = min(K, 4) if P >= 6 else K
        x = [rnd.gammavariate(0.7, 1.0) if rnd.random() > 0.15 else 0.0 for _ in range(K)]
        if sum(x) == 0:
            x[0] = 1.0
        freq = np.array(x) / sum(x)
        gs = []
        g = [0] * P
        for _i in range(math.comb(K + P - 1, P)):
            gs.append(list(g))
            g = succ(g)
        lps = [_call(CP.log_genotype_prior, np.array(g, dtype=np.int64), K, F, freq) for g in gs]
        conds = []
        for g in rnd.sample(gs, min(len(gs), 8)):
            t = rnd.randrange(P)
            row = []
            for b in range(K):
                h = list(g)
                h[t] = b
                row.append(
                    [
                        _call(CP.log_genotype_allele_prior, np.array(h, dtype=np.int64), t, K, F, freq),
                        _call(CP.log_genotype_prior, np.array(h, dtype=np.int64), K, F, freq),
                        h.count(b),
                    ]
                )
            conds.append({"g": g, "t": t, "rows": row})
        out.append({"P": P, "K": K, "F": F, "freq": [float(v) for v in freq], "gs": gs, "lps": lps, "conds": conds})
    return out


def run(task):
    op = task["op"]
    if op == "states":
        rnd = random.Random(task.get("seed", 0))
        return [eval_state(s, rnd) for s in task["states"]]
    if op == "random_trace":
        return random_trace(task)
    if op == "float_instances":
        return float_instances(task)
    raise ValueError(op)
