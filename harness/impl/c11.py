"""Implementation side of C11: index maps, enumerator, binomials."""
import numpy as np


def limbs(n):
    n = int(n)
    if n < 0:
        return ["negative", str(n)]
    out = []
    while n:
        out.append(n % 10000)
        n //= 10000
    return out


def setup():
    global J, U
    from mchap import jitutils as J
    from mchap.calling import utils as U


def run(task):
    op = task["op"]
    if op == "states":
        out = []
        for s in task["states"]:
            g = np.array(s["g"], dtype=np.int64)
            r = {}
            r["index"] = int(J.genotype_alleles_as_index(g))
            r["index_i8"] = int(J.genotype_alleles_as_index(g.astype(np.int8)))
            r["unrank"] = [int(x) for x in J.index_as_genotype_alleles(s["idx"], s["p"])]
            if s["prev"]:
                h = np.array(s["prev"], dtype=np.int64)
                J.increment_genotype(h)
                r["inc"] = [int(x) for x in h]
            # placement in a G-length array
            N = s["N"]
            if N <= 4000:
                arr = U.posterior_as_array(g.reshape(1, -1), np.array([0.625]), N)
                nz = np.nonzero(arr)[0]
                r["place"] = [int(x) for x in nz]
                r["len"] = int(len(arr))
            out.append(r)
        return out
    if op == "pascal":
        out = []
        for n, k in task["nk"]:
            r = {}
            for name, f in (("comb", J.comb), ("_comb", J._comb)):
                try:
                    r[name] = limbs(f(n, k))
                except Exception as e:
                    r[name] = "ERR %s" % e
            out.append(r)
        return out
    if op == "combr":
        out = []
        for n, k in task["nk"]:
            r = {}
            for name, f in (("combr", J.comb_with_replacement), ("_combr", J._comb_with_replacement)):
                r[name] = limbs(f(n, k))
            out.append(r)
        return out
    if op == "ngenotypes":
        # N = number of genotypes of `a` alleles at ploidy k, as the programs size G-length fields and the streaming
        # enumeration of call-exact (mchap/combinatorics.py:count_unique_genotypes)
        from mchap.combinatorics import count_unique_genotypes

        return [{"ngen": limbs(int(count_unique_genotypes(n, k)))} for n, k in task["nk"]]
    if op == "random_trace":
        # code -> spec: calls on large random arguments, recorded as limb lists
        import random
        from math import comb as mcomb

        rnd = random.Random(task["seed"])
        ev = []
        # structured edge cases: genotypes over alleles around the 100-row lookup-table edge, all ploidies;
        # their ranks are exactly the block boundaries of the inverse map
        import itertools
        edge = [0, 1, 2, 98, 99, 100, 101, 102, 150, 199]
        for p in (1, 2, 3, 4, 5, 12, 13):
            combos = itertools.combinations_with_replacement(edge, p) if p <= 3 else (
                tuple(sorted(rnd.choice(edge) for _ in range(p))) for _ in range(150))
            for g in combos:
                if mcomb(g[-1] + p, p) >= 2**53:
                    continue
                g = list(g)
                idx = int(J.genotype_alleles_as_index(np.array(g, dtype=np.int64)))
                ev.append({"op": "index", "alleles": g, "limbs": limbs(idx)})
                for j in (idx - 1, idx, idx + 1):
                    if j >= 0:
                        a = [int(x) for x in J.index_as_genotype_alleles(j, p)]
                        ev.append({"op": "unrank", "alleles": a, "limbs": limbs(j), "ploidy": p})
        # the forward map on the compact integer types the programs store genotypes in (alleles up to the type's maximum)
        for dt, hi in ((np.int8, 127), (np.uint8, 255), (np.int16, 260), (np.int32, 260), (np.uint16, 260)):
            for p in (1, 2, 3, 4, 6):
                for _ in range(10):
                    g = sorted(rnd.choice([0, 1, hi - 1, hi, hi // 2, rnd.randrange(hi + 1)]) for _ in range(p))
                    if mcomb(g[-1] + p, p) >= 2**53:
                        continue
                    idx = int(J.genotype_alleles_as_index(np.array(g, dtype=dt)))
                    ev.append({"op": "index", "alleles": [int(x) for x in g], "limbs": limbs(idx), "dtype": np.dtype(dt).name})
        # binomials with k > n are zero (also through the lookup table and any symmetry shortcut)
        for n in list(range(0, 30)) + [98, 99, 100, 101, 128]:
            for k in (n + 1, n + 2, 11, 12, 13, 14):
                if k > n and k <= 14:
                    ev.append({"op": "comb", "n": n, "k": k, "limbs": limbs(J.comb(n, k))})
                    ev.append({"op": "comb", "n": n, "k": k, "limbs": limbs(J._comb(n, k))})
        base = len(ev)
        task = dict(task, n=task["n"] + base)
        while len(ev) < task["n"]:
            p = rnd.randint(1, 12)
            na = rnd.choice([2, 3, 5, 17, 40, 100, 200])
            if mcomb(na + p - 1, p) >= 2**53:
                continue
            g = sorted(rnd.randrange(na) for _ in range(p))
            idx = int(J.genotype_alleles_as_index(np.array(g, dtype=np.int64)))
            ev.append({"op": "index", "alleles": g, "limbs": limbs(idx)})
            j = rnd.randrange(mcomb(na + p - 1, p))
            a = [int(x) for x in J.index_as_genotype_alleles(j, p)]
            ev.append({"op": "unrank", "alleles": a, "limbs": limbs(j), "ploidy": p})
            n = rnd.randint(0, 220)
            k = rnd.randint(0, 14)
            if mcomb(n, k) < 2**53:
                ev.append({"op": "comb", "n": n, "k": k, "limbs": limbs(J.comb(n, k))})
            n = rnd.randint(1, 200)
            k = rnd.randint(1, 13)
            if mcomb(n + k - 1, k) < 2**53:
                ev.append({"op": "combr", "n": n, "k": k, "limbs": limbs(J.comb_with_replacement(n, k))})
                if n >= 1 and k >= 1:
                    from mchap.combinatorics import count_unique_genotypes

                    ev.append({"op": "combr", "n": n, "k": k, "limbs": limbs(int(count_unique_genotypes(n, k)))})
        return ev
    raise ValueError(op)
