"""Implementation side of C01 (assemble sampler moves)."""
import itertools
import math
import os
import numpy as np

PY = os.environ.get("NUMBA_DISABLE_JIT") == "1"


def setup():
    global J, S, MU, L, PR, T, M
    from mchap import jitutils as J
    from mchap.assemble import structural as S
    from mchap.assemble import mutation as MU
    from mchap.assemble import likelihood as L
    from mchap.assemble import prior as PR
    from mchap.assemble import tempering as T
    from mchap.assemble import mcmc as M


def weights(A):
    w = [1]
    for a in A[:-1]:
        w.append(w[-1] * a)
    return w


def decode(codes, A):
    w = weights(A)
    return np.array([[(c // w[j]) % A[j] for j in range(len(A))] for c in codes], dtype=np.int8)


def encode(g, A):
    w = weights(A)
    return tuple(sorted(int(sum(int(row[j]) * w[j] for j in range(len(A)))) for row in g))


def orderings(codes):
    return sorted(set(itertools.permutations(codes)))


def intervals(N):
    return [(lo, hi) for lo in range(N) for hi in range(lo + 1, N + 1)]


def code_options(g, A, kind, iv):
    """option classes and return counts exactly as interval_step derives them"""
    labels = S.haplotype_segment_labels(g, iv)
    if kind == "rec":
        opts = S.recombination_step_options(labels)
        nf = S.recombination_step_n_options(labels)
    else:
        opts = S.dosage_step_options(labels)
        nf = S.dosage_step_n_options(labels)
    out = []
    for o in opts:
        g2 = g.copy()
        J.structural_change(g2, o[:, 0], iv)
        nr = S.recombination_step_n_options(o) if kind == "rec" else S.dosage_step_n_options(o)
        # return count recomputed from scratch on the rearranged matrix
        lab2 = S.haplotype_segment_labels(g2, iv)
        nr2 = S.recombination_step_n_options(lab2) if kind == "rec" else S.dosage_step_n_options(lab2)
        out.append((encode(g2, A), int(nr), int(nr2)))
    return out, int(nf)


def options(task):
    """spec -> code (compiled): every ordering of every class x interval x kind"""
    A = task["A"]
    N = len(A)
    bad = []
    n = 0
    dup_states = 0
    for st in task["states"]:
        want = {}
        for kind, lo, hi, lst in st["moves"]:
            want[(kind, lo, hi)] = sorted((tuple(c), nr) for c, nr in lst)
        ords = orderings(st["g"])
        if len(set(st["g"])) < len(st["g"]):
            dup_states += 1
        for o in ords:
            g = decode(o, A)
            # copy counts / dosage helpers
            dosage = np.zeros(len(o), dtype=np.int8)
            J.get_haplotype_dosage(dosage, g)
            for h in range(len(o)):
                if J.count_haplotype_copies(g, h) != o.count(o[h]):
                    bad.append({"g": list(o), "what": "count_haplotype_copies", "h": h})
            if sorted(int(x) for x in dosage if x > 0) != sorted(o.count(c) for c in set(o)):
                bad.append({"g": list(o), "what": "get_haplotype_dosage", "impl": [int(x) for x in dosage]})
            for kind in ("rec", "dos"):
                for iv in intervals(N):
                    n += 1
                    got, nf = code_options(g, A, kind, np.array(iv))
                    w = want[(kind, iv[0], iv[1])]
                    if nf != len(w):
                        bad.append({"g": list(o), "kind": kind, "iv": iv, "what": "n_options", "impl": nf, "model": len(w)})
                    if sorted((c, nr) for c, nr, _ in got) != w:
                        bad.append({"g": list(o), "kind": kind, "iv": iv, "what": "options", "impl": sorted((c, nr) for c, nr, _ in got), "model": w})
                    if any(nr != nr2 for _, nr, nr2 in got):
                        bad.append({"g": list(o), "kind": kind, "iv": iv, "what": "return_count_relabelled_vs_recomputed", "impl": got})
            if len(bad) > 8:
                return {"n": n, "bad": bad[:8], "dup_states": dup_states}
    return {"n": n, "bad": bad, "dup_states": dup_states}


def make_reads(rnd, N, A, n_reads, sparse=False):
    """sparse: one SNV that no read covers and two reads without any base call (not the last rows), with unequal counts"""
    mx = max(A)
    reads = np.zeros((n_reads, N, mx))
    for r in range(n_reads):
        for j in range(N):
            if r != j % n_reads and rnd.rand() < 0.2:
                reads[r, j, :] = np.nan
            else:
                p = rnd.dirichlet(np.ones(A[j]) * 0.7)
                reads[r, j, : A[j]] = p
    counts = rnd.randint(1, 4, size=n_reads).astype(np.int64)
    if sparse:
        reads[:, rnd.randint(N), :] = np.nan
        reads[0, :, :] = np.nan
        if n_reads > 3:
            reads[2, :, :] = np.nan
        counts = (np.arange(n_reads) % 3 + 1 + rnd.randint(0, 2, size=n_reads) * 3).astype(np.int64)
    return reads, counts


def perms(codes):
    p = math.factorial(len(codes))
    for c in set(codes):
        p //= math.factorial(codes.count(c))
    return p


def kernel(task):
    """interpreted base_step / interval_step with random_choice replaced by a recorder: the probability vector of
    every (ordered state, site / interval) is captured and compared with the model kernel row instantiated with
    real factors u(G) = llk + lprior; the extracted kernel is also checked for detailed balance directly."""
    assert PY
    A = task["A"]
    N = len(A)
    P = task["P"]
    rnd = np.random.RandomState(task["seed"])
    reads, counts = make_reads(rnd, N, A, task.get("n_reads", 5), sparse=task.get("sparse", False))
    if not task.get("counts", True):
        counts = None
    F = task["F"]
    temp = task["temp"]
    luh = float(np.sum(np.log(A)))
    classes = {tuple(st["g"]): st for st in task["states"]}

    def u_of(codes):
        g = decode(sorted(codes), A)
        dosage = np.zeros(P, dtype=np.int8)
        J.get_haplotype_dosage(dosage, g)
        return L.log_likelihood(reads, g, read_counts=counts) + PR.log_genotype_prior(dosage, luh, F), L.log_likelihood(reads, g, read_counts=counts)

    U = {c: u_of(c) for c in classes}
    captured = {}

    def rc(p):
        captured["p"] = np.array(p, dtype=float).copy()
        return captured["force"]

    o_mu, o_s = MU.random_choice, S.random_choice
    MU.random_choice = rc
    S.random_choice = rc
    bad = []
    n = 0
    maxres = 0.0
    # lumped structural kernel rows per class (from the first ordering) for the direct detailed-balance check
    Kst = {}
    Kmut = {}
    try:
        for cls, st in classes.items():
            want_moves = {(k, lo, hi): lst for k, lo, hi, lst in st["moves"]}
            u, llk = U[cls]
            for oi, o in enumerate(orderings(list(cls))):
                g0 = decode(o, A)
                # ---- mutation
                for h in range(P):
                    for j in range(N):
                        n += 1
                        cur = int(g0[h, j])
                        expect = np.zeros(A[j])
                        c = o.count(o[h])
                        for a in range(A[j]):
                            if a == cur:
                                continue
                            g2 = g0.copy()
                            g2[h, j] = a
                            cls2 = encode(g2, A)
                            c2 = sum(1 for r in g2 if (r == g2[h]).all())
                            mh = (U[cls2][0] - u) * temp + math.log(c2 / c)
                            expect[a] = math.exp(min(0.0, mh)) / (A[j] - 1)
                            if oi >= 0:
                                Kmut[(o, h, j, a)] = (cls2, expect[a])
                        expect[cur] = 1 - expect.sum()
                        g = g0.copy()
                        captured["force"] = (cur + 1) % A[j]
                        llk2, _ = MU.base_step(g, reads, llk, h, j, A[j], luh, F, temp, counts, None)
                        p = captured["p"]
                        if len(p) != A[j] or np.max(np.abs(p - expect)) > 1e-9:
                            bad.append({"g": list(o), "what": "base_step-probabilities", "h": h, "j": j, "impl": p.tolist(), "model": expect.tolist()})
                        cls2 = encode(g, A)
                        if g[h, j] != captured["force"] or abs(llk2 - U[cls2][1]) > 1e-9 * max(1, abs(llk2)):
                            bad.append({"g": list(o), "what": "base_step-forced-choice", "h": h, "j": j, "llk_returned": float(llk2), "llk_fresh": U[cls2][1]})
                # ---- structural
                for kind, stype in (("rec", 0), ("dos", 1)):
                    for iv in intervals(N):
                        n += 1
                        lst = want_moves[(kind, iv[0], iv[1])]
                        nf = len(lst)
                        exp_by_cls = {}
                        for c2, nr in lst:
                            c2 = tuple(c2)
                            mh = (U[c2][0] - u) * temp + math.log(nf / nr)
                            exp_by_cls[c2] = math.exp(min(0.0, mh)) / nf
                        if oi == 0:
                            Kst[(cls, kind, iv)] = exp_by_cls
                        g = g0.copy()
                        captured.pop("p", None)
                        captured["force"] = 0
                        llk2, _ = S.interval_step(g, reads, llk, luh, F, np.array(iv), stype, temp, counts, None)
                        if nf == 0:
                            if "p" in captured or encode(g, A) != cls:
                                bad.append({"g": list(o), "what": "interval_step-no-options-but-moved", "kind": kind, "iv": iv})
                            continue
                        p = captured.get("p")
                        if p is None or len(p) != nf + 1:
                            bad.append({"g": list(o), "what": "interval_step-vector-length", "kind": kind, "iv": iv, "impl": None if p is None else p.tolist(), "model_n": nf})
                            continue
                        # identify which class each option index leads to, by forcing it
                        got = {}
                        for i in range(nf):
                            gi = g0.copy()
                            captured["force"] = i
                            l_i, _ = S.interval_step(gi, reads, llk, luh, F, np.array(iv), stype, temp, counts, None)
                            ci = encode(gi, A)
                            got[ci] = got.get(ci, 0.0) + p[i]
                            if abs(l_i - U[ci][1]) > 1e-9 * max(1, abs(l_i)):
                                bad.append({"g": list(o), "what": "interval_step-forced-llk", "kind": kind, "iv": iv, "llk_returned": float(l_i), "llk_fresh": U[ci][1]})
                        if set(got) != set(exp_by_cls) or any(abs(got[c] - exp_by_cls[c]) > 1e-9 for c in got):
                            bad.append({"g": list(o), "what": "interval_step-probabilities", "kind": kind, "iv": iv, "temp": temp, "F": F,
                                        "impl": {str(k): v for k, v in got.items()}, "model": {str(k): v for k, v in exp_by_cls.items()}})
                        if abs(p[-1] - (1 - sum(exp_by_cls.values()))) > 1e-9:
                            bad.append({"g": list(o), "what": "interval_step-stay-probability", "kind": kind, "iv": iv, "impl": float(p[-1])})
                if len(bad) > 6:
                    return {"n": n, "bad": bad[:6], "maxres": maxres}
        # direct detailed balance of the model-instantiated kernel == extracted kernel (equal within 1e-9 above)
        for (cls, kind, iv), row in Kst.items():
            for c2, k12 in row.items():
                k21 = Kst[(c2, kind, iv)].get(cls)
                if k21 is None:
                    bad.append({"what": "not-reversible", "from": cls, "to": c2, "kind": kind, "iv": iv})
                    continue
                a = math.exp(temp * (U[cls][0] - U[c2][0])) * k12
                res = abs(a - k21) / max(a, k21, 1e-300)
                maxres = max(maxres, res)
                if res > 1e-8:
                    bad.append({"what": "detailed-balance-structural", "from": cls, "to": c2, "kind": kind, "iv": iv, "lhs": a, "rhs": k21})
        for (o, h, j, a), (cls2, k12) in Kmut.items():
            g2 = decode(o, A)
            back_a = int(g2[h, j])
            g2[h, j] = a
            w = weights(A)
            o2 = tuple(int(sum(int(r[jj]) * w[jj] for jj in range(N))) for r in g2)
            k21 = Kmut[(o2, h, j, back_a)][1]
            cls = tuple(sorted(o))
            lhs = math.exp(temp * (U[cls][0] - U[cls2][0])) * perms(list(cls2)) / perms(list(cls)) * k12
            res = abs(lhs - k21) / max(lhs, k21, 1e-300)
            maxres = max(maxres, res)
            if res > 1e-8:
                bad.append({"what": "detailed-balance-mutation", "g": list(o), "h": h, "j": j, "a": a, "lhs": lhs, "rhs": k21})
    finally:
        MU.random_choice, S.random_choice = o_mu, o_s
    return {"n": n, "bad": bad[:8], "maxres": maxres, "params": {"F": F, "temp": temp, "seed": task["seed"]}}


def run(task):
    return {"options": options, "kernel": kernel, "exchange": exchange, "fit_trace": fit_trace, "choice": choice, "exchange_step": exchange_step, "init_state": init_state}[task["op"]](task)


def exchange_step(task):
    """chain_swap_step (interpreted) on every pair of bags of a small instance: with np.random.rand forced just below /
    above the model acceptance min(1, (pi_j/pi_i)^(t_i-t_j)), pi = exp(llk + lprior(F)), the swap must / must not happen,
    and an accepted swap exchanges the matrices and returns the exchanged likelihoods"""
    assert PY
    A = task["A"]
    P = task["P"]
    N = len(A)
    rnd = np.random.RandomState(task["seed"])
    reads, counts = make_reads(rnd, N, A, 4)
    F, ti, tj = task["F"], task["ti"], task["tj"]
    luh = float(np.sum(np.log(A)))
    cls = [tuple(st["g"]) for st in task["states"]]

    def parts(codes):
        g = decode(list(codes), A)
        dosage = np.zeros(P, dtype=np.int8)
        J.get_haplotype_dosage(dosage, g)
        return L.log_likelihood(reads, g, read_counts=counts), PR.log_genotype_prior(dosage, luh, F)

    U = {c: parts(c) for c in cls}
    bad = []
    n = 0
    orig = np.random.rand
    try:
        for ci in cls:
            for cj in cls:
                ui, uj = sum(U[ci]), sum(U[cj])
                acc = min(1.0, math.exp((uj - ui) * (ti - tj)))
                for val, want in ((acc * (1 - 1e-7), True), (acc * (1 + 1e-7), False)):
                    if not want and val >= 1.0:
                        continue
                    if acc < 1e-300:
                        continue
                    n += 1
                    gi, gj = decode(list(ci), A), decode(list(cj)[::-1], A)
                    np.random.rand = lambda _v=val: _v
                    li, lj = T.chain_swap_step(genotype_i=gi, llk_i=U[ci][0], temp_i=ti, genotype_j=gj, llk_j=U[cj][0], temp_j=tj,
                                               log_unique_haplotypes=luh, inbreeding=F)
                    swapped = encode(gi, A) == tuple(sorted(cj)) and encode(gj, A) == tuple(sorted(ci))
                    stayed = encode(gi, A) == tuple(sorted(ci)) and encode(gj, A) == tuple(sorted(cj))
                    if ci == cj:
                        swapped = stayed = True
                    okl = (li, lj) == ((U[cj][0], U[ci][0]) if want else (U[ci][0], U[cj][0]))
                    if (want and not swapped) or (not want and not stayed) or not okl:
                        bad.append({"gi": list(ci), "gj": list(cj), "F": F, "ti": ti, "tj": tj, "model_acceptance": acc, "u_drawn": val,
                                    "model_swaps": want, "impl_swapped": bool(swapped and not (stayed and ci != cj)), "llks_ok": bool(okl)})
                        if len(bad) > 5:
                            return {"n": n, "bad": bad}
    finally:
        np.random.rand = orig
    return {"n": n, "bad": bad}


def init_state(task):
    """the chain starts (and stays) inside the genotype space: with SNVs that no read covers and differing allele counts,
    every allele of the initial genotype handed to the sampler and of every trace row must be < n_alleles[j]"""
    rnd = np.random.RandomState(task["seed"])
    bad = []
    n = 0
    orig = M._denovo_assembler
    try:
        for rep in range(task["n"]):
            P = int(rnd.choice([2, 3, 4]))
            N = int(rnd.randint(2, 5))
            A = [int(x) for x in rnd.choice([2, 2, 3, 4], size=N)]
            if len(set(A)) == 1:
                A[0] = 2
                A[-1] = 3
            reads, counts = make_reads(rnd, N, A, 4)
            uncovered = [j for j in range(N) if rnd.rand() < 0.4]
            for j in uncovered:
                reads[:, j, :] = np.nan
            seen = {}

            def wrap(**kw):
                seen["init"] = np.array(kw["genotype"]).copy()
                seen["na"] = np.array(kw["n_alleles"]).copy()
                return orig(**kw)

            M._denovo_assembler = wrap
            with np.errstate(all="ignore"):
                m = M.DenovoMCMC(ploidy=P, n_alleles=A, steps=task.get("steps", 30), chains=1, fix_homozygous=0.999, random_seed=task["seed"] * 1000 + rep,
                                 inbreeding=float(rnd.choice([0.0, 0.3, 0.6])), temperatures=tuple([[1.0], [0.2, 1.0], [0.1, 0.4, 1.0]][int(rnd.randint(3))]))
                try:
                    tr = m.fit(reads, read_counts=counts)
                except Exception as e:  # noqa
                    bad.append({"what": "fit-raised", "A": A, "uncovered": uncovered, "error": "%s: %s" % (type(e).__name__, e)})
                    continue
            n += 1
            if "init" in seen and (seen["init"] >= seen["na"][None, :]).any():
                bad.append({"what": "InitialGenotypeInRange", "A": A, "uncovered": uncovered, "initial": seen["init"].astype(int).tolist(),
                            "n_alleles_sampled": seen["na"].astype(int).tolist()})
            g = tr.genotypes[0]
            over = (g >= np.array(A)[None, None, :]).any(axis=(1, 2))
            if over.any():
                bad.append({"what": "TraceGenotypeInRange", "A": A, "uncovered": uncovered, "steps_out_of_range": int(over.sum()), "first": g[over][0].astype(int).tolist()})
            if len(bad) > 6:
                break
    finally:
        M._denovo_assembler = orig
    return {"n": n, "bad": bad[:6]}


def choice(task):
    """random_choice draws index i with probability p[i]: inverse-CDF semantics against the same uniform draw"""
    import numba

    bad = []
    n = 0
    rnd = np.random.RandomState(task["seed"])
    if PY:
        orig = np.random.random
        try:
            for _ in range(task["n"]):
                k = rnd.randint(2, 6)
                p = rnd.dirichlet(np.ones(k))
                if rnd.rand() < 0.3:
                    p[rnd.randint(k)] = 0.0
                    p /= p.sum()
                cs = np.cumsum(p)
                for u in list(rnd.rand(3)) + [0.0, float(cs[0]) * 0.999999, min(0.999999, float(cs[0]) * 1.000001)]:
                    np.random.random = lambda _u=u: _u
                    got = int(J.random_choice(p))
                    want = int(sum(1 for c in cs if c <= u))
                    n += 1
                    if got != want or p[min(got, k - 1)] == 0.0:
                        bad.append({"p": p.tolist(), "u": float(u), "impl": got, "model": want})
        finally:
            np.random.random = orig
    else:
        @numba.njit
        def draw():
            return np.random.random()

        for i in range(task["n"]):
            k = rnd.randint(2, 6)
            p = rnd.dirichlet(np.ones(k))
            J.seed_numba(task["seed"] * 7919 + i)
            got = int(J.random_choice(p))
            J.seed_numba(task["seed"] * 7919 + i)
            u = draw()
            want = int(sum(1 for c in np.cumsum(p) if c <= u))
            n += 1
            if got != want:
                bad.append({"p": p.tolist(), "u": float(u), "impl": got, "model": want})
    return {"n": n, "bad": bad[:5]}


def exchange(task):
    """chain_swap_acceptance (compiled) vs the model formula min(1, (pi_j/pi_i)^(t_i - t_j))"""
    rnd = np.random.RandomState(task["seed"])
    bad = []
    n = 0
    for _ in range(task["n"]):
        li, lj, pi, pj = rnd.uniform(-30, -1, size=4)
        ti, tj = sorted(rnd.uniform(0.05, 1.0, size=2), reverse=True)
        if ti == tj:
            continue
        n += 1
        a = T.chain_swap_acceptance(li, pi, ti, lj, pj, tj)
        want = min(1.0, math.exp(((lj + pj) - (li + pi)) * (ti - tj)))
        if abs(a - want) > 1e-9:
            bad.append({"args": [li, pi, ti, lj, pj, tj], "impl": float(a), "model": want})
    return {"n": n, "bad": bad[:5]}


def fit_trace(task):
    """code -> spec: a full interpreted DenovoMCMC.fit recorded as Mutate / Interval / Exchange / Record events"""
    assert PY
    A = task["A"]
    N = len(A)
    P = task["P"]
    rnd = np.random.RandomState(task["seed"])
    reads0, counts = make_reads(rnd, N, A, task.get("n_reads", 5))
    w = weights(A)

    def codes(g):
        return [int(sum(int(r[j]) * w[j] for j in range(N))) for r in g]

    def q(v):
        return int(round(float(v) * 1e6))

    ev = []
    o_base, o_int, o_swap = MU.base_step, S.interval_step, M.chain_swap_step
    o_cs_m, o_cs_s = MU.compound_step, S.compound_step

    def base(genotype, reads, llk, h, j, n_alleles, log_unique_haplotypes, inbreeding=0, temp=1, read_counts=None, cache=None):
        before = codes(genotype)
        r = o_base(genotype, reads, llk, h, j, n_alleles, log_unique_haplotypes, inbreeding, temp, read_counts, cache)
        ev.append({"op": "Mutate", "h": int(h) + 1, "j": int(j) + 1, "t": q(temp), "before": before, "after": codes(genotype), "llk0": q(llk), "llk1": q(r[0]),
                   "luh": q(log_unique_haplotypes), "inb": q(inbreeding)})
        return r

    def istep(genotype, reads, llk, log_unique_haplotypes, inbreeding=0, interval=None, step_type=0, temp=1, read_counts=None, cache=None):
        before = codes(genotype)
        r = o_int(genotype, reads, llk, log_unique_haplotypes, inbreeding, interval, step_type, temp, read_counts, cache)
        ev.append({"op": "Interval", "kind": "rec" if step_type == 0 else "dos", "lo": int(interval[0]), "hi": int(interval[1]), "t": q(temp),
                   "before": before, "after": codes(genotype), "llk0": q(llk), "llk1": q(r[0]),
                   "luh": q(log_unique_haplotypes), "inb": q(inbreeding)})
        return r

    def swap(**k):
        bi, bj = codes(k["genotype_i"]), codes(k["genotype_j"])
        r = o_swap(**k)
        ev.append({"op": "Exchange", "inb": q(k.get("inbreeding", 0.0)), "luh": q(k.get("log_unique_haplotypes", 0.0)),
                   "ti": q(k["temp_i"]), "tj": q(k["temp_j"]), "bi": bi, "bj": bj, "ai": codes(k["genotype_i"]), "aj": codes(k["genotype_j"]),
                   "li0": q(k["llk_i"]), "lj0": q(k["llk_j"]), "li1": q(r[0]), "lj1": q(r[1])})
        return r

    tmin = min(task["temps"])

    def mcs(genotype, reads, llk, n_alleles, log_unique_haplotypes, inbreeding=0, temp=1, read_counts=None, cache=None):
        if temp == tmin and ev:
            ev.append({"op": "IterEnd"})
        return o_cs_m(genotype, reads, llk, n_alleles, log_unique_haplotypes, inbreeding, temp, read_counts, cache)

    MU.base_step, S.interval_step, M.chain_swap_step, MU.compound_step = base, istep, swap, mcs
    try:
        with np.errstate(all="ignore"):
            init = np.array([decode([int(rnd.randint(int(np.prod(A)))) for _ in range(P)], A)])
            m = M.DenovoMCMC(ploidy=P, n_alleles=list(A), steps=task["steps"], chains=1, fix_homozygous=1.0, temperatures=tuple(task["temps"]),
                             random_seed=task["seed"], inbreeding=task.get("F", 0.0), llk_cache_threshold=task.get("cache", -1))
            tr = m.fit(reads0, read_counts=counts, initial=init)
        ev.append({"op": "IterEnd"})
        recs = [{"op": "Record", "g": codes(g), "llk": q(llk)} for g, llk in zip(tr.genotypes[0], tr.llks[0])]
        k = 0
        for i, e in enumerate(ev):
            if e["op"] == "IterEnd":
                ev[i] = recs[k] if k < len(recs) else {"op": "Record", "g": [], "llk": 0}
                k += 1
        if k != len(recs):
            ev.append({"op": "RecordCountMismatch", "iterations": k, "rows": len(recs)})
    finally:
        MU.base_step, S.interval_step, M.chain_swap_step, MU.compound_step = o_base, o_int, o_swap, o_cs_m
    return {"header": {"P": P, "N": N, "A": list(A), "temps": [q(t) for t in sorted(task["temps"])], "init": codes(init[0]), "steps": task["steps"],
                       "inb": q(task.get("F", 0.0)), "luh": q(float(np.sum(np.log(A))))}, "events": ev}
