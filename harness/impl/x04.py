"""Implementation side of X04 (counting, dosage, log-space arithmetic, gametes).

ops
  count_states : TLC states of CountingAndDosage.tla -> get_haplotype_dosage / ln_equivalent_permutations /
                 count_genotype_permutations / the four instance counts of mchap.combinatorics
  count_steps  : TLC transitions (mutate / copy / swap / set) replayed on real haplotype arrays
  log_states   : TLC states of LogSpace.tla (exact rational weights) -> add_log_prob / sum_log_probs /
                 normalise_log_probs / natural_log_to_log10 / greedy_choice / sample_snv_alleles
  gam_states   : TLC parents states of Gametes.tla -> gamete_probabilities / cross_probabilities
  designed     : recorded calls on designed and seeded random inputs (events for TraceCountingAndDosage.tla)
  program      : every call of the functions made by a real program run (interpreted), as events
"""
import itertools
import math
import signal
import warnings
from fractions import Fraction

import numpy as np

REL = 1e-9


def limbs(n):
    n = int(n)
    if n < 0:
        return [-1]
    out = []
    while n:
        out.append(n % 10000)
        n //= 10000
    return out


def setup():
    global J, C, INH
    from mchap import jitutils as J
    from mchap import combinatorics as C
    from mchap.assemble import inheritence as INH


def pyf(f):
    return getattr(f, "py_func", f)


def hap_rows(ua):
    return [list(h) for h in itertools.product(*[range(a) for a in ua])]


def rows_of(ids, haps):
    return np.array([haps[i - 1] for i in ids], dtype=np.int8)


def close(x, want, rel=REL):
    if isinstance(want, Fraction):
        want = float(want)
    if math.isnan(x):
        return False
    if math.isinf(want) or math.isinf(x):
        return x == want
    return abs(x - want) <= rel * max(1.0, abs(want))


def logf(q):
    q = Fraction(q)
    if q == 0:
        return -math.inf
    return math.log(q.numerator) - math.log(q.denominator)


class Timeout(Exception):
    pass


def _alarm(*a):
    raise Timeout()


# ---------------------------------------------------------------------------------------------- (a)
def count_states(task):
    bad, n = [], 0
    seen_inst = set()
    for s in task["states"]:
        haps = hap_rows(s["ua"])
        g = rows_of(s["g"], haps)
        p = s["p"]
        n += 1
        for dt in (np.int8, np.int64):
            d = np.full(p, -7, dtype=np.int64)
            J.get_haplotype_dosage(d, g.astype(dt))
            if [int(x) for x in d] != s["d"]:
                bad.append({"fn": "get_haplotype_dosage", "g": s["g"], "ua": s["ua"], "impl": [int(x) for x in d], "model": s["d"]})
        dv = np.array(s["d"], dtype=np.int64)
        ln = float(J.ln_equivalent_permutations(dv))
        if not close(ln, math.log(s["perms"])):
            bad.append({"fn": "ln_equivalent_permutations", "d": s["d"], "impl": ln, "model_perms": s["perms"]})
        # the same value for any arrangement of the dosage vector (a genotype is an unsorted multiset)
        ln2 = float(J.ln_equivalent_permutations(dv[::-1].copy()))
        if not close(ln2, math.log(s["perms"])):
            bad.append({"fn": "ln_equivalent_permutations", "d": s["d"][::-1], "impl": ln2, "model_perms": s["perms"]})
        cp = C.count_genotype_permutations(dv)
        if int(cp) != s["perms"]:
            bad.append({"fn": "count_genotype_permutations", "d": s["d"], "impl": int(cp), "model": s["perms"]})
        key = (tuple(s["ua"]), p)
        if key not in seen_inst:
            seen_inst.add(key)
            u = s["u"]
            c = s["cnt"]
            got = {
                "count_unique_haplotypes": int(C.count_unique_haplotypes(np.array(s["ua"]))),
                "count_unique_genotypes": int(C.count_unique_genotypes(u, p)),
                "count_unique_genotype_permutations": int(C.count_unique_genotype_permutations(u, p)),
                "count_haplotype_universial_occurance": int(C.count_haplotype_universial_occurance(u, p)),
            }
            want = {"count_unique_haplotypes": c["haps"], "count_unique_genotypes": c["msets"],
                    "count_unique_genotype_permutations": c["tuples"], "count_haplotype_universial_occurance": c["occ"]}
            for k in got:
                if got[k] != want[k]:
                    bad.append({"fn": k, "ua": s["ua"], "u": u, "p": p, "impl": got[k], "model": want[k]})
    return {"n": n, "bad": bad}


def count_steps(task):
    """transitions; `dose` maps the model's dosage of the successor genotype"""
    bad, n, hangs = [], 0, 0
    mode = task["mode"]
    if mode == "py":
        signal.signal(signal.SIGALRM, _alarm)
    for s in task["steps"]:
        ua = s["ua"]
        haps = hap_rows(ua)
        p = s["p"]
        prev = rows_of(s["prev"], haps)
        want_rows = rows_of(s["g"], haps)
        op = s["op"]
        g = prev.copy()
        n += 1
        if op == "mutate":
            i, a = s["tgt"]
            g[i - 1] = haps[a - 1]
        elif op == "copy":
            i, j = s["tgt"]
            g[j - 1] = g[i - 1]
        elif op == "swap":
            i, j = s["tgt"]
            idx = np.arange(p)
            idx[i - 1], idx[j - 1] = j - 1, i - 1
            J.structural_change(g, idx)
        elif op == "set":
            tgt = np.array(s["tgt"], dtype=np.int64)
            multi = sum(1 for x in s["tgt"] if x >= 2)
            if mode != "py" and multi >= 2:
                continue  # only run where a time limit can be enforced (interpreted)
            try:
                if mode == "py":
                    signal.setitimer(signal.ITIMER_REAL, 0.05)
                J.set_haplotype_dosage(g, tgt)
            except Timeout:
                hangs += 1
                bad.append({"fn": "set_haplotype_dosage", "feature": "no-termination", "doses_ge_2": multi,
                            "genotype": prev.tolist(), "dosage": s["tgt"], "model": want_rows.tolist()})
                continue
            finally:
                if mode == "py":
                    signal.setitimer(signal.ITIMER_REAL, 0)
            # relational: every haplotype with a positive target dose occurs exactly that many times
            okc = True
            for k, dk in enumerate(s["tgt"]):
                if dk > 0:
                    c = int(sum(1 for r in g if (r == prev[k]).all()))
                    if c != dk:
                        okc = False
            if not okc or len(g) != p:
                bad.append({"fn": "set_haplotype_dosage", "feature": "wrong-counts", "doses_ge_2": multi,
                            "genotype": prev.tolist(), "dosage": s["tgt"], "impl": g.tolist(), "model": want_rows.tolist()})
            continue
        if not (g == want_rows).all():
            bad.append({"fn": "edit:" + op, "prev": s["prev"], "tgt": s["tgt"], "impl": g.tolist(), "model": want_rows.tolist()})
        d = np.zeros(p, dtype=np.int64)
        J.get_haplotype_dosage(d, g)
        if [int(x) for x in d] != s["dose"]:
            bad.append({"fn": "get_haplotype_dosage", "after": op, "g": s["g"], "impl": [int(x) for x in d], "model": s["dose"]})
        if op == "swap":
            d0 = np.zeros(p, dtype=np.int64)
            J.get_haplotype_dosage(d0, prev)
            a, b = float(J.ln_equivalent_permutations(d0)), float(J.ln_equivalent_permutations(d))
            if not close(a, b):
                bad.append({"fn": "ln_equivalent_permutations", "after": "swap", "prev": s["prev"], "g": s["g"], "before": a, "after_": b})
    return {"n": n, "bad": bad, "hangs": hangs}


# ---------------------------------------------------------------------------------------------- (b)
OFFSETS = [0.0, -745.5, 300.25, -100000.0]


class FakeUniform:
    def __init__(self, seq):
        self.seq = list(seq)
        self.i = 0

    def __call__(self, *a):
        v = self.seq[self.i]
        self.i += 1
        return v


def log_states(task):
    bad, n, info = [], 0, {"all_zero_states": 0, "all_zero_norm_nan": 0}
    mode = task["mode"]
    for s in task["states"]:
        w = [Fraction(a, b) for a, b in s["w"]]
        tot = Fraction(*s["sum"])
        n += 1
        lw = np.array([logf(q) for q in w], dtype=np.float64)
        for c in OFFSETS:
            x = lw + c
            z = float(J.sum_log_probs(x))
            want = logf(tot) + c if tot else -math.inf
            if not close(z, want):
                bad.append({"fn": "sum_log_probs", "w": s["w"], "offset": c, "impl": z, "model": want})
            # the fold itself, step by step
            acc = float(x[0])
            part = w[0]
            for i in range(1, len(w)):
                acc = float(J.add_log_prob(acc, float(x[i])))
                part += w[i]
                wantp = logf(part) + c if part else -math.inf
                if not close(acc, wantp):
                    bad.append({"fn": "add_log_prob", "w": s["w"], "offset": c, "step": i, "impl": acc, "model": wantp})
                    break
            if len(w) >= 2:
                a, b = float(J.add_log_prob(float(x[0]), float(x[1]))), float(J.add_log_prob(float(x[1]), float(x[0])))
                if not (a == b or (math.isnan(a) and math.isnan(b))):
                    bad.append({"fn": "add_log_prob", "feature": "asymmetric", "x": float(x[0]), "y": float(x[1]), "xy": a, "yx": b})
            if tot == 0:
                if c == 0.0:
                    info["all_zero_states"] += 1
                    nz = J.normalise_log_probs(x)
                    if all(math.isnan(float(v)) for v in nz):
                        info["all_zero_norm_nan"] += 1
                continue
            pr = J.normalise_log_probs(x)
            norm = [Fraction(a, b) for a, b in s["norm"]]
            if len(pr) != len(norm) or any(not close(float(a), q) for a, q in zip(pr, norm)):
                bad.append({"fn": "normalise_log_probs", "w": s["w"], "offset": c, "impl": [float(v) for v in pr], "model": s["norm"]})
            if not close(float(np.sum(pr)), 1.0):
                bad.append({"fn": "normalise_log_probs", "feature": "sum", "w": s["w"], "offset": c, "impl_sum": float(np.sum(pr))})
        # natural log -> log10 (array and scalar)
        fin = [q for q in w if q]
        if fin:
            xs = np.array([logf(q) for q in fin])
            ys = J.natural_log_to_log10(xs)
            for q, y in zip(fin, ys):
                want = math.log10(q.numerator) - math.log10(q.denominator)
                if not close(float(y), want):
                    bad.append({"fn": "natural_log_to_log10", "w": [q.numerator, q.denominator], "impl": float(y), "model": want})
        if float(J.natural_log_to_log10(-math.inf)) != -math.inf:
            bad.append({"fn": "natural_log_to_log10", "feature": "-inf"})
        if tot == 0:
            continue
        norm = [Fraction(a, b) for a, b in s["norm"]]
        pv = np.array([float(q) for q in norm])
        gi = int(J.greedy_choice(pv))
        if not (0 <= gi < len(pv)) or s["argmax"][gi] != 1:
            bad.append({"fn": "greedy_choice", "p": s["norm"], "impl": gi, "model_argmax": s["argmax"]})
        # sample_snv_alleles: un-normalised weights, one row per uniform draw
        k = len(s["choice"])
        arr = np.array([[[float(q) for q in w]] * 1] * k, dtype=np.float64)  # (k reads, 1 base, n alleles)
        if mode == "py":
            ticks = [(2 * i + 1) / 64.0 for i in range(k)]
            keep = np.random.random
            np.random.random = FakeUniform(ticks)
            try:
                al = J.sample_snv_alleles(arr)
            finally:
                np.random.random = keep
            if al.shape != (k, 1) or [int(v) for v in al[:, 0]] != s["choice"]:
                bad.append({"fn": "sample_snv_alleles", "w": s["w"], "impl": [int(v) for v in al.ravel()], "model": s["choice"],
                            "uniforms": "(2i+1)/64"})
            # a (reads x bases) block consumes the draws row-major and keeps its shape
            arr2 = arr.reshape(4, k // 4, len(w))
            np.random.random = FakeUniform(ticks)
            try:
                al2 = J.sample_snv_alleles(arr2)
            finally:
                np.random.random = keep
            if al2.shape != (4, k // 4) or [int(v) for v in al2.ravel()] != s["choice"]:
                bad.append({"fn": "sample_snv_alleles", "feature": "shape", "w": s["w"], "impl": [int(v) for v in al2.ravel()],
                            "model": s["choice"]})
        else:
            J.seed_numba(task["seed"] + n)
            al = J.sample_snv_alleles(arr)
            okset = set(s["choice"])
            zero = [i for i, q in enumerate(w) if q == 0]
            if al.shape != (k, 1) or any(int(v) in zero or not (0 <= int(v) < len(w)) for v in al.ravel()):
                bad.append({"fn": "sample_snv_alleles", "feature": "zero-weight allele drawn", "w": s["w"],
                            "impl": [int(v) for v in al.ravel()]})
            if len(zero) == len(w) - 1 and any(int(v) not in okset for v in al.ravel()):  # exactly one allele has weight
                bad.append({"fn": "sample_snv_alleles", "feature": "certain allele", "w": s["w"], "impl": [int(v) for v in al.ravel()]})
    return {"n": n, "bad": bad, "info": info}


# ---------------------------------------------------------------------------------------------- (c)
def haps_for_ids(u):
    # two positions are enough to tell up to 4 haplotypes apart; three for more
    npos = 2 if u <= 4 else 3
    return [list(h) for h in itertools.product(range(2), repeat=npos)][:u]


def comp_arrays(comps, u):
    haps = haps_for_ids(u)
    gens = np.array([[haps[i - 1] for i in c[0]] for c in comps], dtype=np.int8)
    probs = np.array([float(Fraction(c[1][0], c[1][1])) for c in comps])
    return gens, probs


def bag_of(rows, u):
    haps = haps_for_ids(u)
    b = [0] * u
    for r in rows:
        b[haps.index([int(x) for x in r])] += 1
    return b


def dist_of(arrs, probs, u):
    return [(tuple(bag_of(a, u)), float(p)) for a, p in zip(arrs, probs)]


def cmp_dist(fn, got, model, bad, ctx, half):
    want = {tuple(e["bag"]): Fraction(e["pr"][0], e["pr"][1]) for e in model}
    bags = [b for b, _ in got]
    if len(set(bags)) != len(bags):
        bad.append(dict(ctx, fn=fn, feature="duplicate outcome", impl=got))
        return
    if set(bags) != set(want):
        bad.append(dict(ctx, fn=fn, feature="support", impl=got, model=model))
        return
    for b, p in got:
        if not close(p, want[b]):
            bad.append(dict(ctx, fn=fn, feature="probability", outcome=list(b), impl=p, model=[want[b].numerator, want[b].denominator]))
            return
    if not close(sum(p for _, p in got), 1.0):
        bad.append(dict(ctx, fn=fn, feature="sum", impl=got))
    if any(sum(b) != half for b in bags):
        bad.append(dict(ctx, fn=fn, feature="size", impl=got))


def gam_states(task):
    bad, n = [], 0
    for s in task["states"]:
        u, p = s["u"], s["p"]
        n += 1
        ctx = {"u": u, "p": p, "mom": s["mom"], "dad": s["dad"]}
        mg, mp = comp_arrays(s["mom"], u)
        dg, dp = comp_arrays(s["dad"], u)
        # rows of a genotype in any order (a genotype is a multiset)
        il = list(range(0, p, 2)) + list(range(1, p, 2))  # interleaved row order: equal haplotypes are not adjacent
        mgi = mg[:, il, :].copy()
        if len(mgi) > 1:
            mgi[1] = mgi[1][::-1]
        gm, gmp = INH.gamete_probabilities(mgi, mp)
        cmp_dist("gamete_probabilities", dist_of(gm, gmp, u), s["gm"], bad, ctx, p // 2)
        gf, gfp = INH.gamete_probabilities(dg, dp)
        cmp_dist("gamete_probabilities", dist_of(gf, gfp, u), s["gf"], bad, ctx, p // 2)
        x, xp = INH.cross_probabilities(gm, gmp, gf, gfp)
        cmp_dist("cross_probabilities", dist_of(x, xp, u), s["x"], bad, ctx, p)
        xr, xrp = INH.cross_probabilities(gf, gfp, gm, gmp)
        cmp_dist("cross_probabilities", dist_of(xr, xrp, u), s["x"], bad, dict(ctx, swapped=True), p)
        for order in ("ascending", "descending"):
            a, ap = INH.gamete_probabilities(mg, mp, order=order)
            cmp_dist("gamete_probabilities", dist_of(a, ap, u), s["gm"], bad, dict(ctx, order=order), p // 2)
            b, bp = INH.cross_probabilities(gm, gmp, gf, gfp, order=order)
            cmp_dist("cross_probabilities", dist_of(b, bp, u), s["x"], bad, dict(ctx, order=order), p)
            for name, pr in (("gamete_probabilities", ap), ("cross_probabilities", bp)):
                dd = np.diff(pr)
                if (order == "ascending" and (dd < -1e-12).any()) or (order == "descending" and (dd > 1e-12).any()):
                    bad.append(dict(ctx, fn=name, feature="order", order=order, impl=[float(v) for v in pr]))
    return {"n": n, "bad": bad}


# ------------------------------------------------------------------------------- events (code -> spec)
def ids_of_rows(rows):
    m, out = {}, []
    for r in np.asarray(rows):
        k = np.asarray(r).tobytes()
        if k not in m:
            m[k] = len(m) + 1
        out.append(m[k])
    return out


def bp(p):
    return int(round(float(p) * 10000))


def rel_milli(l):
    l = np.asarray(l, dtype=np.float64)
    m = np.max(l)
    out = []
    for v in l:
        d = v - m if np.isfinite(m) else (0.0 if v == m else -np.inf)
        out.append(int(max(-2000000, round(d * 1000))) if np.isfinite(d) else -2000000)
    return out


def ev_dosage(genotype, d, interval=None):
    g = np.asarray(genotype)
    if interval is not None:
        g = g[:, interval[0]:interval[1]]
    return {"op": "dosage", "g": ids_of_rows(g), "d": [int(x) for x in d]}


def ev_lnperms(d, v):
    """bridge: the float must be the logarithm of an integer to 1e-9; the integer goes to the model"""
    n = int(round(math.exp(v)))
    if n < 1 or abs(v - math.log(n)) > REL * max(1.0, abs(v)):
        n = -1
    return {"op": "perms", "d": [int(x) for x in d], "n": n, "src": "ln_equivalent_permutations"}


def ev_norm(l, pr):
    return {"op": "norm", "l": rel_milli(l), "bp": [bp(v) for v in pr]}


def ev_sumrel(l, z):
    l = np.asarray(l, dtype=np.float64)
    m = float(np.max(l))
    return {"op": "sumrel", "l": rel_milli(l), "z": int(round((float(z) - m) * 1e6))}


def ev_add(x, y, z):
    m, lo = max(x, y), min(x, y)
    a = lo - m
    a = -2000000 if not np.isfinite(a) else int(max(-2000000, round(a * 1000)))
    return {"op": "add", "a": a, "b": int(round((z - m) * 1e6))}


def ev_log10(x, y):
    return {"op": "log10", "x": int(round(x * 100)), "y": int(round(y * 100))}


def designed(task):
    import random

    rnd = random.Random(task["seed"])
    ev = []
    nrand = task["n"]
    # dosage on random genotypes, with and without an interval
    for _ in range(nrand):
        p = rnd.choice([2, 3, 4, 6, 8])
        nb = rnd.randint(1, 5)
        pool_ = [[rnd.randint(0, 1) for _ in range(nb)] for _ in range(rnd.randint(1, 4))]
        g = np.array([rnd.choice(pool_) for _ in range(p)], dtype=np.int8)
        d = np.zeros(p, dtype=np.int64)
        J.get_haplotype_dosage(d, g)
        ev.append(ev_dosage(g, d))
        if nb >= 2:
            a = rnd.randint(0, nb - 1)
            b = rnd.randint(a + 1, nb)
            d2 = np.zeros(p, dtype=np.int64)
            J.get_haplotype_dosage(d2, g, interval=(a, b))
            ev.append(ev_dosage(g, d2, (a, b)))
        ev.append(ev_lnperms(d, float(J.ln_equivalent_permutations(d))))
        ev.append({"op": "perms", "d": [int(x) for x in d], "n": int(C.count_genotype_permutations(d)), "src": "count_genotype_permutations"})
    # counts on larger arguments (limbs)
    for _ in range(nrand):
        u = rnd.choice([1, 2, 3, 5, 16, 64, 177, 178, 214, 512, 1000, 4096])
        p = rnd.randint(1, 8)
        ev.append({"op": "ugen", "u": u, "p": p, "limbs": limbs(C.count_unique_genotypes(u, p)),
                   "regime": "below-2^53" if math.comb(u + p - 1, p) < 2 ** 53 else "at-or-above-2^53"})
        if u <= 64:
            ev.append({"op": "utup", "u": u, "p": p, "limbs": limbs(C.count_unique_genotype_permutations(u, p))})
            ev.append({"op": "occ", "u": u, "p": p, "limbs": limbs(C.count_haplotype_universial_occurance(u, p))})
        ua = [rnd.randint(1, 4) for _ in range(rnd.randint(1, 12))]
        ev.append({"op": "uhap", "ua": ua, "limbs": limbs(C.count_unique_haplotypes(np.array(ua)))})
    # log space on exact rational weights
    W = [Fraction(0), Fraction(1, 5), Fraction(1, 3), Fraction(1, 2), Fraction(1), Fraction(2), Fraction(5), Fraction(1, 100)]
    for _ in range(nrand):
        k = rnd.randint(1, 6)
        w = [rnd.choice(W) for _ in range(k)]
        c = rnd.choice(OFFSETS)
        x = np.array([logf(q) + c for q in w])
        z = float(J.sum_log_probs(x))
        ev.append({"op": "sum", "w": [[q.numerator, q.denominator] for q in w], "e4": int(round(math.exp(z - c) * 10000)) if z > -math.inf else 0})
        if sum(w):
            pr = J.normalise_log_probs(x)
            ev.append({"op": "normx", "w": [[q.numerator, q.denominator] for q in w], "bp": [bp(v) for v in pr]})
            ev.append(ev_norm(x, pr))
            ev.append({"op": "greedy", "bp": [bp(v) for v in pr], "i": int(J.greedy_choice(pr))})
            ev.append(ev_sumrel(x, z))
        if k >= 2 and (w[0] or w[1]):
            ev.append(ev_add(float(x[0]), float(x[1]), float(J.add_log_prob(float(x[0]), float(x[1])))))
        v = rnd.uniform(-1500, 50)
        ev.append(ev_log10(v, float(J.natural_log_to_log10(v))))
    # sample_snv_alleles against fed uniforms (interpreted only)
    if task["mode"] == "py":
        for _ in range(nrand // 2):
            nr, nb, na = rnd.randint(1, 3), rnd.randint(1, 3), rnd.randint(2, 4)
            rows = []
            for _r in range(nr * nb):
                r = [rnd.choice([0, 1, 1, 2, 3]) for _ in range(na)]
                if not sum(r):
                    r[rnd.randrange(na)] = 1
                rows.append(r)
            t = [2 * rnd.randrange(32) + 1 for _ in rows]
            arr = np.array(rows, dtype=np.float64).reshape(nr, nb, na)
            keep = np.random.random
            np.random.random = FakeUniform([x / 64.0 for x in t])
            try:
                al = J.sample_snv_alleles(arr)
            finally:
                np.random.random = keep
            ev.append({"op": "snv", "w": [[[x, 1] for x in r] for r in rows], "t": t, "a": [int(v) for v in al.ravel()]})
    # gametes and crosses on random small parents
    for _ in range(max(10, nrand // 6)):
        u, p = rnd.choice([(2, 2), (3, 2), (2, 4), (3, 4)])

        def rcomps():
            k = rnd.choice([1, 1, 2])
            gs = [sorted(rnd.randint(1, u) for _ in range(p)) for _ in range(k)]
            if k == 2 and gs[0] == gs[1]:
                gs, k = gs[:1], 1
            qs = [Fraction(1)] if k == 1 else [Fraction(1, 4), Fraction(3, 4)]
            return [[g, [q.numerator, q.denominator]] for g, q in zip(gs, qs)]

        mom, dad = rcomps(), rcomps()
        mg, mp = comp_arrays(mom, u)
        dg, dp = comp_arrays(dad, u)
        gm, gmp = INH.gamete_probabilities(mg, mp)
        gf, gfp = INH.gamete_probabilities(dg, dp)
        ev.append({"op": "gam", "u": u, "p": p, "comps": mom, "out": [{"bag": list(b), "bp": bp(q)} for b, q in dist_of(gm, gmp, u)]})
        x, xp = INH.cross_probabilities(gm, gmp, gf, gfp)
        ev.append({"op": "cross", "u": u, "p": p, "mom": mom, "dad": dad, "out": [{"bag": list(b), "bp": bp(q)} for b, q in dist_of(x, xp, u)]})
    return ev


def program_events(task):
    """wrap the functions (as bound in every mchap module that imported them) while a real program run executes"""
    import sys
    import importlib

    prog_name = task["prog"]
    modname = {"assemble": "assemble", "call": "call", "call-exact": "call_exact"}[prog_name]
    APP = importlib.import_module("mchap.application." + modname)
    import mchap.assemble.mcmc  # noqa
    import mchap.assemble.structural, mchap.assemble.tempering, mchap.assemble.mutation, mchap.assemble.prior  # noqa
    import mchap.assemble.snpcalling, mchap.calling.prior, mchap.calling.mcmc, mchap.calling.exact, mchap.calling.classes  # noqa

    cap = task.get("cap", 300)
    events, counts, skipped = [], {}, {}

    def push(kind, e):
        counts[kind] = counts.get(kind, 0) + 1
        c = counts[kind]
        # keep the first `cap` and then a thinning sample
        if c <= cap or (c % 97 == 0 and c <= cap * 97):
            events.append(e)
        else:
            skipped[kind] = skipped.get(kind, 0) + 1

    def rec(name, a, k, r):
        if name == "get_haplotype_dosage":
            iv = k.get("interval", a[2] if len(a) > 2 else None)
            push(name, ev_dosage(a[1], a[0], iv))
        elif name == "ln_equivalent_permutations":
            push(name, ev_lnperms(a[0], float(r)))
        elif name == "normalise_log_probs":
            l = np.asarray(a[0], dtype=np.float64)
            if len(l) <= 400 and not np.isnan(l).any() and np.isfinite(np.max(l)):
                push(name, ev_norm(l, r))
            else:
                skipped[name] = skipped.get(name, 0) + 1
        elif name == "sum_log_probs":
            l = np.asarray(a[0], dtype=np.float64)
            if len(l) <= 400 and not np.isnan(l).any() and np.isfinite(np.max(l)):
                push(name, ev_sumrel(l, r))
            else:
                skipped[name] = skipped.get(name, 0) + 1
        elif name == "add_log_prob":
            x, y = float(a[0]), float(a[1])
            if np.isfinite(max(x, y)):
                push(name, ev_add(x, y, float(r)))
            else:
                skipped[name] = skipped.get(name, 0) + 1
        elif name == "natural_log_to_log10":
            xs, ys = np.ravel(np.asarray(a[0], dtype=np.float64)), np.ravel(np.asarray(r, dtype=np.float64))
            for x, y in list(zip(xs, ys))[:12]:
                if np.isfinite(x) and abs(x) < 2000:
                    push(name, ev_log10(float(x), float(y)))
                else:
                    skipped[name] = skipped.get(name, 0) + 1
        elif name == "sample_snv_alleles":
            arr = np.asarray(a[0], dtype=np.float64)
            flat = arr.reshape(-1, arr.shape[-1])
            s = flat.sum(axis=-1, keepdims=True)
            push(name, {"op": "snvp", "bp": [[bp(v) for v in row] for row in (flat / s)], "a": [int(v) for v in np.ravel(r)]})
        elif name == "count_unique_genotypes":
            push(name, {"op": "ugen", "u": int(a[0]), "p": int(a[1]), "limbs": limbs(r)})
        elif name == "count_unique_haplotypes":
            push(name, {"op": "uhap", "ua": [int(v) for v in np.ravel(a[0])], "limbs": limbs(r)})
        elif name == "greedy_choice":
            push(name, {"op": "greedy", "bp": [bp(v) for v in a[0]], "i": int(r)})

    names = {
        J: ["get_haplotype_dosage", "ln_equivalent_permutations", "normalise_log_probs", "sum_log_probs", "add_log_prob",
            "natural_log_to_log10", "sample_snv_alleles", "greedy_choice"],
        C: ["count_unique_genotypes", "count_unique_haplotypes"],
    }
    patched = []

    def wrap(name, f):
        def gfun(*a, **k):
            r = f(*a, **k)
            try:
                rec(name, a, k, r)
            except Exception:
                skipped[name + ":recorder"] = skipped.get(name + ":recorder", 0) + 1
            return r

        return gfun

    mods = [m for n, m in list(sys.modules.items()) if n.startswith("mchap") and m is not None]
    for home, ns in names.items():
        for name in ns:
            f = getattr(home, name)
            w = wrap(name, f)
            for m in mods:
                if getattr(m, name, None) is f:
                    patched.append((m, name, f))
                    setattr(m, name, w)
    nloci = 0
    try:
        with warnings.catch_warnings():
            warnings.simplefilter("ignore")
            with np.errstate(all="ignore"):
                prog = APP.program.cli(["mchap", prog_name] + list(task["argv"]))
                for locus in prog.loci():
                    prog.call_locus(locus, prog.sample_bams)
                    nloci += 1
    finally:
        for m, name, f in patched:
            setattr(m, name, f)
    return {"events": events, "counts": counts, "skipped": skipped, "loci": nloci, "patched": len(patched)}


def run(task):
    op = task["op"]
    with np.errstate(all="ignore"):
        if op == "count_states":
            return count_states(task)
        if op == "count_steps":
            return count_steps(task)
        if op == "log_states":
            return log_states(task)
        if op == "gam_states":
            return gam_states(task)
        if op == "designed":
            return designed(task)
        if op == "program":
            return program_events(task)
    raise ValueError(op)
