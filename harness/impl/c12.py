"""Implementation side of C12: LocusPrior.from_variant_record / encode_haplotypes / format_haplotypes; program runs."""
import os
import tempfile


def setup():
    global pysam, LocusPrior, np
    import numpy as np
    import pysam
    from mchap.io import LocusPrior


def codec(rec, use_snvpos):
    lp = LocusPrior.from_variant_record(rec, use_snvpos=use_snvpos)
    m = lp.encode_haplotypes()
    dec = lp.format_haplotypes(m)
    return {
        "cols": [int(p - lp.start + 1) for p in lp.positions],
        "alleles": [list(a) for a in lp.alleles],
        "matrix": [[int(x) for x in row] for row in m],
        "decoded": [str(s) for s in dec],
        "template": lp._template_sequence(),
        "ref": lp.sequence,
        "alts": list(lp.alts),
        "start": int(lp.start),
        "stop": int(lp.stop),
    }


def run(task):
    op = task["op"]
    if op == "codec":
        fd, p = tempfile.mkstemp(suffix=".vcf", dir=task["dir"])
        os.close(fd)
        out = []
        try:
            with open(p, "w") as fh:
                fh.write(task["text"])
            with pysam.VariantFile(p) as vf:
                for rec in vf:
                    r = {}
                    for key, flag in (("seq", False), ("snvpos", True)):
                        try:
                            r[key] = codec(rec, flag)
                        except Exception as e:
                            r[key] = {"error": "%s: %s" % (type(e).__name__, str(e)[:200]), "etype": type(e).__name__}
                    r["pos"] = rec.pos
                    out.append(r)
        finally:
            os.remove(p)
        return out
    if op == "program":
        from impl import c12prog

        r = c12prog.run_program(task["name"], task["argv"])
        r.pop("partial", None)
        return r
    if op == "cli":
        from impl import c12prog

        return c12prog.run_cli(task["argv"])
    raise ValueError(op)
