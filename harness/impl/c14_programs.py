"""C14 code -> spec: run the real programs in-process on the repo's test data with short MCMC runs,
capture the trace returned by fit() (before burn-in) and the fields printed in the VCF record.

One event per (locus, sample): the raw trace as allele / haplotype numbers, burn-in, relabelling,
incongruence threshold and the printed GT GPM SPM AFP ACP AOP GP MCI (3-decimal text -> integers
in 1/1000).  TraceTraceSummary.tla recomputes every field from the trace.
"""
import io
import os
import random
import sys
import warnings
from fractions import Fraction

import numpy as np


DATA_DIR = None   # set per task: a private copy of the repo's test data under /verif/work (nothing is written into the repo)


def data_path(name):
    if DATA_DIR:
        return os.path.join(DATA_DIR, name)
    import mchap

    return os.path.join(os.path.dirname(mchap.__file__), "tests", "test_io", "data", name)


def milli(text):
    if text in (".", ""):
        return -1
    return int(round(float(text) * 1000))


def parse_line(line):
    f = line.rstrip("\n").split("\t")
    info = {}
    for kv in f[7].split(";"):
        k, _, v = kv.partition("=")
        info[k] = v
    keys = f[8].split(":")
    samples = []
    for s in f[9:]:
        samples.append(dict(zip(keys, s.split(":"))))
    alts = [] if f[4] == "." else f[4].split(",")
    return {"chrom": f[0], "pos": int(f[1]), "id": f[2], "ref": f[3], "alts": alts, "info": info, "samples": samples}


def sample_out(d):
    gt = [(-1 if a == "." else int(a)) for a in d["GT"].replace("|", "/").split("/")]
    out = {"gt": gt, "gpm": milli(d.get("GPM", ".")), "spm": milli(d.get("SPM", ".")),
           "mci": -1 if d.get("MCI", ".") == "." else int(d["MCI"])}
    for k in ("AFP", "ACP", "AOP", "GP"):
        if k in d:
            v = [milli(x) for x in d[k].split(",")]
            out[k.lower()] = v
        else:
            out[k.lower()] = []
    return out


def theta_fraction(x):
    return Fraction(str(x))


CONFIGS = [  # (steps, burn)
    (48, 16), (40, 8), (24, 8), (80, 16), (20, 4), (36, 4), (12, 4), (10, 2), (6, 2),
]
THETAS = [0.6, 0.5, 0.75, 0.3, 0.9]


def write_masked_input(path_out):
    """haplotype input with a masked reference and a zero prior frequency (forces relabelling)"""
    src = open(data_path("mock.input.frequencies.vcf")).read().splitlines()
    out = []
    for l in src:
        if l.startswith("CHR1\t6\tCHR1_05_25\t"):
            l = l.replace("AN=3;", "AN=3;REFMASKED;")
        if l.startswith("CHR2\t11\tCHR2_10_30\t"):
            l = l.replace("AFP=0.481,0.235,0.178,0.093", "AFP=0.5,0,0.3,0.2")
        if "_ZERO" in l or "_MASK" in l:
            continue
        out.append(l)
    with open(path_out, "w") as fh:
        fh.write("\n".join(out) + "\n")


def run(task):
    global DATA_DIR
    DATA_DIR = task.get("data_dir")
    rnd = random.Random(task["seed"])
    idx = task["index"]
    which = ("assemble", "call", "call-pedigree")[idx % 3]
    steps, burn = rnd.choice(CONFIGS)
    chains = rnd.choice([1, 2, 2, 3, 2, 3])
    theta = rnd.choice(THETAS)
    deep = rnd.random() < 0.5
    bams = [data_path("simple.sample%d%s.bam" % (i, ".deep" if deep else "")) for i in (1, 2, 3)]
    seed = rnd.randrange(1, 10 ** 6)
    common = ["--mcmc-steps", str(steps), "--mcmc-burn", str(burn), "--mcmc-seed", str(seed),
              "--mcmc-chains", str(chains), "--mcmc-chain-incongruence-threshold", str(theta)]
    captured = []
    events = []
    wd = os.getcwd()
    with warnings.catch_warnings():
        warnings.simplefilter("ignore")
        if which == "assemble":
            from mchap.application import assemble as APP

            hpt = rnd.choice([0.0, 0.2, 0.05])
            ploidy = rnd.choice(["4", "2", "4"])
            cmd = ["mchap", "assemble", "--bam"] + bams + [
                "--ploidy", ploidy, "--targets", data_path("simple.bed.gz"), "--variants", data_path("simple.vcf.gz"),
                "--reference", data_path("simple.fasta"), "--haplotype-posterior-threshold", str(hpt),
                "--report", "AFP", "AOP", "ACP"] + common
            prog = APP.program.cli(cmd)
            orig = APP.DenovoMCMC.fit

            def fit(self, *a, **k):
                t = orig(self, *a, **k)
                captured.append(np.array(t.genotypes).copy())
                return t

            APP.DenovoMCMC.fit = fit
            try:
                for locus in prog.loci():
                    del captured[:]
                    line = prog.call_locus(locus, prog.sample_bams)
                    rec = parse_line(line)
                    if len(captured) != len(prog.samples):
                        continue
                    seqs = [rec["ref"]] + rec["alts"]
                    num = {s: i for i, s in enumerate(seqs)}
                    masked = "REFMASKED" in rec["info"]
                    for si, sample in enumerate(prog.samples):
                        g = captured[si]  # (C, S, P, n_pos)
                        if g.shape[-1] == 0:
                            continue
                        rows = sorted({tuple(int(x) for x in r) for r in g.reshape(-1, g.shape[-1])})
                        ident = {r: i for i, r in enumerate(rows)}
                        strings = locus.format_haplotypes(np.array(rows, dtype=np.int8))
                        hapnum = [num.get(s, -1) for s in strings]
                        gtnum = [(-1 if (masked and h == 0) else h) for h in hapnum]
                        tr = [[[ident[tuple(int(x) for x in r)] for r in g[c, s]] for s in range(g.shape[1])]
                              for c in range(g.shape[0])]
                        events.append(event(which, rec, sample, "hap", g.shape[2], len(rows), tr, burn, theta,
                                            list(range(len(rows))), hapnum, gtnum, len(seqs), rec["samples"][si], cmd))
            finally:
                APP.DenovoMCMC.fit = orig
        else:
            if which == "call":
                from mchap.application import call as APP
                from mchap.calling.classes import CallingMCMC as FITCLS
            else:
                from mchap.application import call_pedigree as APP
                from mchap.pedigree.classes import PedigreeCallingMCMC as FITCLS
            from mchap.calling.classes import GenotypeAllelesMultiTrace as GT

            variant = rnd.choice(["mock", "masked", "assemble"])
            if variant == "masked":
                hv = os.path.join(wd, "c14-masked-%d.vcf" % os.getpid())
                write_masked_input(hv)
                extra = ["--prior-frequencies", "AFP"]
            elif variant == "mock":
                hv = data_path("mock.input.frequencies.vcf")
                extra = rnd.choice([[], ["--prior-frequencies", "AFP"]])
            else:
                hv = data_path("simple.output.mixed_depth.assemble.vcf")
                extra = []
            cmd = ["mchap", which, "--bam"] + bams + ["--ploidy", "4", "--haplotypes", hv,
                                                       "--report", "AFP", "AOP", "ACP", "GP"] + extra + common
            if which == "call-pedigree":
                cmd += ["--sample-parents", data_path("simple.pedigree.132.txt")]
            prog = APP.program.cli(cmd)
            orig_fit = FITCLS.fit
            orig_relabel = GT.relabel
            labels = []

            def fit(self, *a, **k):
                t = orig_fit(self, *a, **k)
                captured.append(np.array(t.genotypes).copy())
                return t

            def relabel(self, lab):
                labels.append([int(x) for x in lab])
                return orig_relabel(self, lab)

            FITCLS.fit = fit
            GT.relabel = relabel
            try:
                for locus in prog.loci():
                    del captured[:]
                    del labels[:]
                    line = prog.call_locus(locus, prog.sample_bams)
                    rec = parse_line(line)
                    if not captured:
                        continue  # invalid scenario / no MCMC
                    nrec = len(rec["alts"]) + 1
                    for si, sample in enumerate(prog.samples):
                        if which == "call":
                            g = captured[si]  # (C, S, P)
                        else:
                            g = captured[0][:, :, si, :]
                            ploidy = int((g[0, 0] >= 0).sum())
                            g = g[:, :, :ploidy]
                        lab = labels[si] if labels else None
                        k = (max(lab) + 1) if lab else nrec
                        tr = [[[int(x) for x in g[c, s]] for s in range(g.shape[1])] for c in range(g.shape[0])]
                        nmc = int(g.max()) + 1 if lab is None else len(lab)
                        events.append(event(which, rec, sample, "allele", g.shape[2], nrec, tr, burn, theta,
                                            lab if lab else list(range(nrec)), list(range(nrec)), list(range(nrec)),
                                            nrec, rec["samples"][si], cmd))
            finally:
                FITCLS.fit = orig_fit
                GT.relabel = orig_relabel
                if variant == "masked":
                    try:
                        os.remove(hv)
                    except OSError:
                        pass
    return events


def event(program, rec, sample, kind, P, K, tr, burn, theta, lab, hapnum, gtnum, nrec, fields, cmd):
    th = theta_fraction(theta)
    C, S = len(tr), len(tr[0])
    ret = set()
    for c in range(C):
        for s in range(burn, S):
            ret.add(tuple(sorted(tr[c][s])))
    return {
        "program": program, "locus": rec["id"], "sample": sample, "kind": kind,
        "p": int(P), "k": int(K), "c": C, "s": S, "burn": int(burn), "theta": [th.numerator, th.denominator],
        "tr": tr, "lab": lab, "hapnum": hapnum, "gtnum": gtnum, "nrec": int(nrec),
        "out": sample_out(fields), "distinct": len(ret),
        "argv": " ".join(os.path.basename(a) if "/" in a else a for a in cmd[1:]),
    }
