"""C14 code -> spec: run the real programs in-process on the repo's test data with short MCMC runs,
capture the trace returned by fit() (before burn-in) and the fields printed in the VCF record.

One event per (locus, sample): the raw trace as allele / haplotype numbers, burn-in, relabelling,
incongruence threshold and the printed GT GPM SPM AFP ACP AOP GP MCI (3-decimal text -> integers
in 1/1000).  TraceTraceSummary.tla recomputes every field from the trace.
"""
import io
import os
import random
import sys
import warnings
from fractions import Fraction

import numpy as np


DATA_DIR = None   # set per task: a private copy of the repo's test data under /verif/work (nothing is written into the repo)


def data_path(name):
    if DATA_DIR:
        return os.path.join(DATA_DIR, name)
    import mchap

    return os.path.join(os.path.dirname(mchap.__file__), "tests", "test_io", "data", name)


def milli(text):
    if text in (".", ""):
        return -1
    return int(round(float(text) * 1000))


def parse_line(line):
    f = line.rstrip("\n").split("\t")
    info = {}
    for kv in f[7].split(";"):
        k, _, v = kv.partition("=")
        info[k] = v
    keys = f[8].split(":")
    samples = []
    for s in f[9:]:
        samples.append(dict(zip(keys, s.split(":"))))
    alts = [] if f[4] == "." else f[4].split(",")
    return {"chrom": f[0], "pos": int(f[1]), "id": f[2], "ref": f[3], "alts": alts, "info": info, "samples": samples}


def sample_out(d):
    gt = [(-1 if a == "." else int(a)) for a in d["GT"].replace("|", "/").split("/")]
    out = {"gt": gt, "gpm": milli(d.get("GPM", ".")), "spm": milli(d.get("SPM", ".")),
           "mci": -1 if d.get("MCI", ".") == "." else int(d["MCI"])}
    for k in ("AFP", "ACP", "AOP", "GP"):
        if k in d:
            v = [milli(x) for x in d[k].split(",")]
            out[k.lower()] = v
        else:
            out[k.lower()] = []
    return out


def theta_fraction(x):
    return Fraction(str(x))


CONFIGS = [  # (steps, burn)
    (48, 16), (40, 8), (24, 8), (80, 16), (20, 4), (36, 4), (12, 4), (10, 2), (6, 2),
]
THETAS = [0.6, 0.5, 0.75, 0.3, 0.9]


def write_masked_input(path_out):
    """haplotype input with a masked reference and a zero prior frequency (forces relabelling)"""
    src = open(data_path("mock.input.frequencies.vcf")).read().splitlines()
    out = []
    for l in src:
        if l.startswith("CHR1\t6\tCHR1_05_25\t"):
            l = l.replace("AN=3;", "AN=3;REFMASKED;")
        if l.startswith("CHR2\t11\tCHR2_10_30\t"):
            l = l.replace("AFP=0.481,0.235,0.178,0.093", "AFP=0.5,0,0.3,0.2")
        if "_ZERO" in l or "_MASK" in l:
            continue
        out.append(l)
    with open(path_out, "w") as fh:
        fh.write("\n".join(out) + "\n")


def run(task):
    global DATA_DIR
    DATA_DIR = task.get("data_dir")
    if task.get("api"):
        with warnings.catch_warnings():
            warnings.simplefilter("ignore")
            with np.errstate(all="ignore"):
                return run_api(task)
    rnd = random.Random(task["seed"])
    idx = task["index"]
    which = ("assemble", "call", "call-pedigree")[idx % 3]
    steps, burn = rnd.choice(CONFIGS)
    chains = rnd.choice([1, 2, 2, 3, 4, 3])
    theta = rnd.choice(THETAS)
    deep = rnd.random() < 0.5
    bams = [data_path("simple.sample%d%s.bam" % (i, ".deep" if deep else "")) for i in (1, 2, 3)]
    seed = rnd.randrange(1, 10 ** 6)
    common = ["--mcmc-steps", str(steps), "--mcmc-burn", str(burn), "--mcmc-seed", str(seed),
              "--mcmc-chains", str(chains), "--mcmc-chain-incongruence-threshold", str(theta)]
    captured = []
    events = []
    wd = os.getcwd()
    with warnings.catch_warnings():
        warnings.simplefilter("ignore")
        if which == "assemble":
            from mchap.application import assemble as APP

            hpt = rnd.choice([0.0, 0.2, 0.05])
            ploidy = rnd.choice(["4", "2", "4"])
            cmd = ["mchap", "assemble", "--bam"] + bams + [
                "--ploidy", ploidy, "--targets", data_path("simple.bed.gz"), "--variants", data_path("simple.vcf.gz"),
                "--reference", data_path("simple.fasta"), "--haplotype-posterior-threshold", str(hpt),
                "--report", "AFP", "AOP", "ACP"] + common
            prog = APP.program.cli(cmd)
            orig = APP.DenovoMCMC.fit

            def fit(self, *a, **k):
                t = orig(self, *a, **k)
                captured.append(np.array(t.genotypes).copy())
                return t

            APP.DenovoMCMC.fit = fit
            try:
                for locus in prog.loci():
                    del captured[:]
                    line = prog.call_locus(locus, prog.sample_bams)
                    rec = parse_line(line)
                    if len(captured) != len(prog.samples):
                        continue
                    seqs = [rec["ref"]] + rec["alts"]
                    num = {s: i for i, s in enumerate(seqs)}
                    masked = "REFMASKED" in rec["info"]
                    for si, sample in enumerate(prog.samples):
                        g = captured[si]  # (C, S, P, n_pos)
                        if g.shape[-1] == 0:
                            continue
                        rows = sorted({tuple(int(x) for x in r) for r in g.reshape(-1, g.shape[-1])})
                        ident = {r: i for i, r in enumerate(rows)}
                        strings = locus.format_haplotypes(np.array(rows, dtype=np.int8))
                        hapnum = [num.get(s, -1) for s in strings]
                        gtnum = [(-1 if (masked and h == 0) else h) for h in hapnum]
                        tr = [[[ident[tuple(int(x) for x in r)] for r in g[c, s]] for s in range(g.shape[1])]
                              for c in range(g.shape[0])]
                        events.append(event(which, rec, sample, "hap", g.shape[2], len(rows), tr, burn, theta,
                                            list(range(len(rows))), hapnum, gtnum, len(seqs), rec["samples"][si], cmd))
            finally:
                APP.DenovoMCMC.fit = orig
        else:
            if which == "call":
                from mchap.application import call as APP
                from mchap.calling.classes import CallingMCMC as FITCLS
            else:
                from mchap.application import call_pedigree as APP
                from mchap.pedigree.classes import PedigreeCallingMCMC as FITCLS
            from mchap.calling.classes import GenotypeAllelesMultiTrace as GT

            variant = rnd.choice(["mock", "masked", "assemble"])
            if variant == "masked":
                hv = os.path.join(wd, "c14-masked-%d.vcf" % os.getpid())
                write_masked_input(hv)
                extra = ["--prior-frequencies", "AFP"]
            elif variant == "mock":
                hv = data_path("mock.input.frequencies.vcf")
                extra = rnd.choice([[], ["--prior-frequencies", "AFP"]])
            else:
                hv = data_path("simple.output.mixed_depth.assemble.vcf")
                extra = []
            cmd = ["mchap", which, "--bam"] + bams + ["--ploidy", "4", "--haplotypes", hv,
                                                       "--report", "AFP", "AOP", "ACP", "GP"] + extra + common
            if which == "call-pedigree":
                cmd += ["--sample-parents", data_path("simple.pedigree.132.txt")]
            prog = APP.program.cli(cmd)
            orig_fit = FITCLS.fit
            orig_relabel = GT.relabel
            labels = []

            def fit(self, *a, **k):
                t = orig_fit(self, *a, **k)
                captured.append(np.array(t.genotypes).copy())
                return t

            def relabel(self, lab):
                labels.append([int(x) for x in lab])
                return orig_relabel(self, lab)

            FITCLS.fit = fit
            GT.relabel = relabel
            try:
                for locus in prog.loci():
                    del captured[:]
                    del labels[:]
                    line = prog.call_locus(locus, prog.sample_bams)
                    rec = parse_line(line)
                    if not captured:
                        continue  # invalid scenario / no MCMC
                    nrec = len(rec["alts"]) + 1
                    for si, sample in enumerate(prog.samples):
                        if which == "call":
                            g = captured[si]  # (C, S, P)
                        else:
                            g = captured[0][:, :, si, :]
                            ploidy = int((g[0, 0] >= 0).sum())
                            g = g[:, :, :ploidy]
                        lab = labels[si] if labels else None
                        k = (max(lab) + 1) if lab else nrec
                        tr = [[[int(x) for x in g[c, s]] for s in range(g.shape[1])] for c in range(g.shape[0])]
                        nmc = int(g.max()) + 1 if lab is None else len(lab)
                        events.append(event(which, rec, sample, "allele", g.shape[2], nrec, tr, burn, theta,
                                            lab if lab else list(range(nrec)), list(range(nrec)), list(range(nrec)),
                                            nrec, rec["samples"][si], cmd))
            finally:
                FITCLS.fit = orig_fit
                GT.relabel = orig_relabel
                if variant == "masked":
                    try:
                        os.remove(hv)
                    except OSError:
                        pass
    return events


# ---- API-level traces from the real samplers, started from permuted (unsorted) initial vectors ----------
def milli_f(v):
    return int(round(float(v) * 1000))


def run_api(task):
    """CallingMCMC / PedigreeCallingMCMC fits on random reads with an UNSORTED initial genotype; the summaries
    returned by the API (not printed text) are recorded, in 1/1000, for TraceTraceSummary."""
    from mchap.calling.classes import CallingMCMC
    from mchap.pedigree.classes import PedigreeCallingMCMC

    rnd = random.Random(task["seed"])
    nrnd = np.random.RandomState(task["seed"] % (2 ** 31))
    events = []
    for rep in range(task.get("n", 6)):
        n_pos = rnd.choice([2, 3])
        K = rnd.choice([2, 3, 4, 5])
        haps = set()
        haps.add(tuple([0] * n_pos))
        while len(haps) < K:
            haps.add(tuple(rnd.randrange(2) for _ in range(n_pos)))
            if len(haps) < K and len(haps) >= 2 ** n_pos:
                break
        haplotypes = np.array(sorted(haps), dtype=np.int8)
        K = len(haplotypes)
        chains = rnd.choice([1, 2, 3, 4])
        steps, burn = rnd.choice([(24, 8), (20, 4), (40, 8), (12, 4)])
        theta = rnd.choice(THETAS)
        th = theta_fraction(theta)
        pedigree = rnd.random() < 0.4
        ploidies = [rnd.choice([2, 4]) for _ in range(3)] if pedigree else [rnd.choice([2, 3, 4, 6])]

        def reads_for(P):
            truth = [rnd.randrange(K) for _ in range(P)]
            n_reads = rnd.choice([0, 3, 8])
            r = np.full((n_reads, n_pos, 2), 0.5)
            for i in range(n_reads):
                h = haplotypes[truth[i % P]]
                for j in range(n_pos):
                    if rnd.random() < 0.8:
                        r[i, j] = [0.1, 0.1]
                        r[i, j, h[j]] = 0.9
            return r, np.ones(n_reads, dtype=np.int64)

        if not pedigree:
            P = ploidies[0]
            reads, counts = reads_for(P)
            initial = np.array([rnd.randrange(K) for _ in range(P)], dtype=np.int8)   # deliberately unsorted
            model = CallingMCMC(ploidy=P, haplotypes=haplotypes, inbreeding=rnd.choice([0.0, 0.25]), steps=steps,
                                chains=chains, random_seed=rnd.randrange(1, 10 ** 6),
                                step_type=rnd.choice(["Gibbs", "Metropolis-Hastings"]))
            trace = model.fit(reads, counts, initial=initial)
            traces = [(trace, P)]
            progname = "api:CallingMCMC"
        else:
            N = 3
            maxp = max(ploidies)
            sample_reads, sample_counts = [], []
            for P in ploidies:
                r, c = reads_for(P)
                sample_reads.append(r)
                sample_counts.append(c)
            mr = max(len(r) for r in sample_reads)
            R = np.full((N, mr, n_pos, 2), np.nan)
            Cn = np.zeros((N, mr), dtype=np.int64)
            for i in range(N):
                R[i, : len(sample_reads[i])] = sample_reads[i]
                Cn[i, : len(sample_counts[i])] = sample_counts[i]
            initial = np.full((N, maxp), -1, dtype=np.int16)
            for i, P in enumerate(ploidies):
                initial[i, :P] = [rnd.randrange(K) for _ in range(P)]                     # unsorted
            parents = np.array([[-1, -1], [-1, -1], [0, 1]])
            tau = np.array([[p // 2, p - p // 2] for p in ploidies])
            model = PedigreeCallingMCMC(
                sample_ploidy=np.array(ploidies), sample_inbreeding=np.zeros(N), sample_parents=parents,
                gamete_tau=tau, gamete_lambda=np.zeros((N, 2)), gamete_error=np.full((N, 2), 0.1),
                haplotypes=haplotypes, steps=steps, annealing=burn, chains=chains,
                random_seed=rnd.randrange(1, 10 ** 6))
            ptrace = model.fit(R, Cn, initial=initial)
            traces = [(ptrace.individual(i), ploidies[i]) for i in range(N)]
            progname = "api:PedigreeCallingMCMC"
        for si, (trace, P) in enumerate(traces):
            g = np.array(trace.genotypes)
            tb = trace.burn(burn)
            post = tb.posterior()
            gt, gpm, spm = post.mode(genotype_support=True)
            fr, ct, oc = tb.posterior_frequencies()
            gp = post.as_array(K)
            mci = tb.replicate_incongruence(float(th))
            tr = [[[int(x) for x in g[c, s]] for s in range(g.shape[1])] for c in range(g.shape[0])]
            fields = None
            rec = {"id": "rep%d" % rep}
            ev = event(progname, rec, "S%d" % si, "allele", P, K, tr, burn, theta, list(range(K)), list(range(K)),
                       list(range(K)), K, None, ["api"], out={
                           "gt": [int(x) for x in gt], "gpm": milli_f(gpm), "spm": milli_f(spm), "mci": int(mci),
                           "afp": [milli_f(x) for x in fr], "acp": [milli_f(x) for x in ct],
                           "aop": [milli_f(x) for x in oc], "gp": [milli_f(x) for x in gp]})
            events.append(ev)
    return events


def event(program, rec, sample, kind, P, K, tr, burn, theta, lab, hapnum, gtnum, nrec, fields, cmd, out=None):
    th = theta_fraction(theta)
    C, S = len(tr), len(tr[0])
    ret = set()
    for c in range(C):
        for s in range(burn, S):
            ret.add(tuple(sorted(tr[c][s])))
    return {
        "program": program, "locus": rec["id"], "sample": sample, "kind": kind,
        "p": int(P), "k": int(K), "c": C, "s": S, "burn": int(burn), "theta": [th.numerator, th.denominator],
        "tr": tr, "lab": lab, "hapnum": hapnum, "gtnum": gtnum, "nrec": int(nrec),
        "out": out if out is not None else sample_out(fields), "distinct": len(ret),
        "argv": " ".join(os.path.basename(a) if "/" in a else a for a in cmd[1:]),
    }
