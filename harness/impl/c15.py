"""Implementation side of C15 (sweep / breaks / fixed homozygous sites)."""
import os
import numpy as np

PY = os.environ.get("NUMBA_DISABLE_JIT") == "1"


def setup():
    global mutation, structural, M, J, L
    from mchap.assemble import mutation, structural
    from mchap.assemble import mcmc as M
    from mchap import jitutils as J
    from mchap.assemble import likelihood as L


def _single_site_reads(N, A=2):
    reads = np.full((N, N, A), np.nan)
    for r in range(N):
        reads[r, r, :] = 0.001 / max(1, A - 1)
        reads[r, r, 1] = 0.999
    counts = np.full(N, 30, dtype=np.int64)
    return reads, counts


def sweep_py(task):
    """interpreted compound_step with base_step replaced by a recorder and the shuffle forced"""
    assert PY
    P, N, na = task["P"], task["N"], task["na"]
    order = task.get("order")
    calls = []
    orig_base, orig_shuffle = mutation.base_step, np.random.shuffle

    def rec(genotype, reads, llk, h, j, n_alleles, log_unique_haplotypes, inbreeding=0, temp=1, read_counts=None, cache=None):
        calls.append([int(h), int(j), int(n_alleles)])
        return llk, cache

    def shuf(arr):
        if order is None:
            return orig_shuffle(arr)
        arr[:] = arr[[i - 1 for i in order]].copy()

    mutation.base_step = rec
    np.random.shuffle = shuf
    try:
        g = np.zeros((P, N), dtype=np.int8)
        reads = np.full((1, N, max(na)), np.nan)
        np.random.seed(task.get("seed", 0))
        mutation.compound_step(g, reads, 0.0, np.array(na, dtype=np.int8), float(np.sum(np.log(na))))
    finally:
        mutation.base_step = orig_base
        np.random.shuffle = orig_shuffle
    return {"calls": calls}


def sweep_jit(task):
    """compiled compound_step as a black box: all-zero start, every site strongly supports allele 1,
    each accepted mutation is certain -> a cell left 0 was never visited"""
    P, N = task["P"], task["N"]
    reads, counts = _single_site_reads(N)
    out = []
    for seed in task["seeds"]:
        g = np.zeros((P, N), dtype=np.int8)
        llk = L.log_likelihood(reads, g, read_counts=counts)
        J.seed_numba(seed)
        np.random.seed(seed)
        llk2, _ = mutation.compound_step(
            g, reads, llk, np.full(N, 2, dtype=np.int8), float(N * np.log(2)), 0.0, 1.0, counts, None
        )
        zeros = np.argwhere(g == 0)
        fresh = L.log_likelihood(reads, g, read_counts=counts)
        out.append({"seed": seed, "unvisited": [[int(a), int(b)] for a, b in zeros[:50]], "n_unvisited": int(len(zeros)),
                    "llk_carried": float(llk2), "llk_fresh": float(fresh)})
    return out


def breaks(task):
    n, b = task["n"], task["breaks"]
    out = []
    for s in range(task["seed0"], task["seed0"] + task["count"]):
        J.seed_numba(s)
        iv = structural.random_breaks(b, n)
        out.append([[int(x), int(y)] for x, y in iv])
    return out


def fixhom(task):
    """DenovoMCMC._mcmc with the single-SNV posterior table and the sampler replaced by stubs"""
    res = []
    orig_h, orig_d = M._homozygosity_probabilities, M._denovo_assembler
    try:
        for st in task["states"]:
            N, A, T, P, S = st["N"], st["A"], st["T"], st["P"], st["S"]
            table = np.array(st["hom"], dtype=np.float64) / 1024.0

            def hp(reads, n_alleles, ploidy, inbreeding=0, read_counts=None, _t=table):
                return _t.copy()

            seen = {}

            def da(**kw):
                g = kw["genotype"]
                ploidy, nhet = g.shape
                steps = kw["steps"]
                seen["nhet"] = nhet
                seen["n_alleles"] = [int(x) for x in kw["n_alleles"]]
                tr = np.zeros((1, steps, ploidy, nhet), dtype=np.int8)
                for s in range(steps):
                    for h in range(ploidy):
                        for k in range(nhet):
                            tr[0, s, h, k] = 10 * k + 2 * h + s + 1
                return tr, np.zeros((1, steps))

            M._homozygosity_probabilities = hp
            M._denovo_assembler = da
            model = M.DenovoMCMC(ploidy=P, n_alleles=[A] * N, steps=S, fix_homozygous=T / 1024.0, random_seed=1)
            reads = np.full((1, N, A), np.nan)
            try:
                g, llks = model._mcmc(reads, None)
                res.append({"out": np.asarray(g).astype(int).tolist(), "nhet": seen.get("nhet", 0)})
            except Exception as e:  # noqa
                res.append({"error": "%s: %s" % (type(e).__name__, e)})
    finally:
        M._homozygosity_probabilities, M._denovo_assembler = orig_h, orig_d
    return res


def fit_trace_py(task):
    """code -> spec: a real DenovoMCMC.fit in interpreted mode; record every sweep (base_step calls of one
    compound_step), every random_breaks output and the intervals actually stepped through"""
    assert PY
    rnd = np.random.RandomState(task["seed"])
    P, N = task["P"], task["N"]
    na = [int(x) for x in rnd.choice([2, 2, 3], size=N)]
    A = max(na)
    n_reads = task.get("n_reads", 6)
    reads = np.zeros((n_reads, N, A))
    for r in range(n_reads):
        for j in range(N):
            if r != j % n_reads and rnd.rand() < 0.25:  # every column keeps at least one call
                reads[r, j, :] = np.nan
            else:
                a = rnd.randint(na[j])
                reads[r, j, : na[j]] = 0.125 / max(1, na[j] - 1)
                reads[r, j, a] = 0.875
    events = []
    cur = {}
    orig_base, orig_cs = mutation.base_step, mutation.compound_step
    orig_rb, orig_is, orig_scs = structural.random_breaks, structural.interval_step, structural.compound_step

    def base(genotype, reads, llk, h, j, n_alleles, log_unique_haplotypes, inbreeding=0, temp=1, read_counts=None, cache=None):
        cur["calls"].append([int(h), int(j), int(n_alleles)])
        return orig_base(genotype, reads, llk, h, j, n_alleles, log_unique_haplotypes, inbreeding, temp, read_counts, cache)

    def cs(genotype, reads, llk, n_alleles, log_unique_haplotypes, inbreeding=0, temp=1, read_counts=None, cache=None):
        cur["calls"] = []
        p, n = genotype.shape
        r = orig_cs(genotype, reads, llk, n_alleles, log_unique_haplotypes, inbreeding, temp, read_counts, cache)
        events.append({"op": "sweep", "P": int(p), "N": int(n), "na": [int(x) for x in n_alleles], "calls": cur["calls"]})
        return r

    def rb(b, n):
        iv = orig_rb(b, n)
        events.append({"op": "breaks", "n": int(n), "breaks": int(b), "intervals": [[int(x), int(y)] for x, y in iv]})
        return iv

    def istep(genotype, reads, llk, log_unique_haplotypes, inbreeding=0, interval=None, step_type=0, temp=1, read_counts=None, cache=None):
        cur["used"].append([int(interval[0]), int(interval[1])])
        return orig_is(genotype, reads, llk, log_unique_haplotypes, inbreeding, interval, step_type, temp, read_counts, cache)

    def scs(genotype, reads, llk, intervals, log_unique_haplotypes, inbreeding=0, step_type=0, randomize=True, temp=1, read_counts=None, cache=None):
        cur["used"] = []
        r = orig_scs(genotype, reads, llk, intervals, log_unique_haplotypes, inbreeding, step_type, randomize, temp, read_counts, cache)
        events.append({"op": "isteps", "n": int(genotype.shape[1]), "intervals": [[int(x), int(y)] for x, y in intervals], "used": cur["used"]})
        return r

    mutation.base_step, mutation.compound_step = base, cs
    structural.random_breaks, structural.interval_step, structural.compound_step = rb, istep, scs
    try:
        with np.errstate(all="ignore"):
            model = M.DenovoMCMC(ploidy=P, n_alleles=na, steps=task.get("steps", 6), chains=1, fix_homozygous=1.0,
                                 temperatures=tuple(task.get("temps", (1.0,))), random_seed=task["seed"], inbreeding=task.get("F", 0.0))
            model.fit(reads)
    finally:
        mutation.base_step, mutation.compound_step = orig_base, orig_cs
        structural.random_breaks, structural.interval_step, structural.compound_step = orig_rb, orig_is, orig_scs
    return events


def snvpost(task):
    """real _homozygosity_probabilities on the TLC instance + _mcmc decisions just above / below the exact value"""
    out = []
    orig_d = M._denovo_assembler
    try:
        for st in task["states"]:
            P, n, F = st["P"], st["n"], st["F"][0] / st["F"][1]
            rd = st["reads"]
            R = max(1, len(rd))
            reads = np.full((R, 1, n), np.nan)
            counts = np.ones(R, dtype=np.int64)
            for i, (cell, c) in enumerate(rd):
                counts[i] = c
                if cell >= 0:
                    reads[i, 0, :] = 0.125 / (n - 1)
                    reads[i, 0, cell] = 0.875
            hp = M._homozygosity_probabilities(reads, np.array([n], dtype=np.int8), P, F, counts)
            res = {"hom": [float(x) for x in hp[0, :n]]}
            dec = []
            for thr in st.get("thresholds", []):
                seen = {}

                def da(**kw):
                    seen["nhet"] = kw["genotype"].shape[1]
                    return np.zeros((1, kw["steps"]) + kw["genotype"].shape, dtype=np.int8), np.zeros((1, kw["steps"]))

                M._denovo_assembler = da
                m = M.DenovoMCMC(ploidy=P, n_alleles=[n], steps=2, fix_homozygous=thr, inbreeding=F, random_seed=1)
                g, _ = m._mcmc(reads, counts)
                dec.append({"thr": thr, "sampled": seen.get("nhet", 0) == 1, "allele": int(np.asarray(g)[0, 0, 0]), "path": "_mcmc"})
                # the public entry point (what `mchap assemble` calls): same decision, made with the sample's inbreeding
                seen.clear()
                tr = m.fit(reads, read_counts=counts)
                dec.append({"thr": thr, "sampled": seen.get("nhet", 0) == 1, "allele": int(np.asarray(tr.genotypes)[0, 0, 0, 0]), "path": "fit"})
            res["decisions"] = dec
            out.append(res)
        # embedding (SnvPosterior: the instance is one SNV): windows of three consecutive instances of the same (P, F) form a
        # 3-SNV locus; each SNV's base calls sit on their own reads, which are gaps at the other two SNVs
        sts = task["states"]
        for i in range(len(sts)):
            grp = [sts[(i + d) % len(sts)] for d in (-1, 0, 1)]
            if len(sts) < 3 or any((g["P"], g["F"]) != (sts[i]["P"], sts[i]["F"]) for g in grp):
                continue
            P, F = sts[i]["P"], sts[i]["F"][0] / sts[i]["F"][1]
            na = [g["n"] for g in grp]
            mx = max(na)
            rows = []
            for j, g in enumerate(grp):
                for cell, c in g["reads"]:
                    r = np.full((3, mx), np.nan)
                    if cell >= 0:
                        r[j, :] = 0.0
                        r[j, : g["n"]] = 0.125 / (g["n"] - 1)
                        r[j, cell] = 0.875
                    rows.append((r, c))
            if not rows:
                rows.append((np.full((3, mx), np.nan), 1))
            reads = np.array([r for r, _ in rows])
            counts = np.array([c for _, c in rows], dtype=np.int64)
            hp = M._homozygosity_probabilities(reads, np.array(na, dtype=np.int8), P, F, counts)
            out[i].setdefault("embedded", []).append({"na": na, "col": 1, "hom": [float(x) for x in hp[1]]})
    finally:
        M._denovo_assembler = orig_d
    return out


def run(task):
    return {"snvpost": snvpost, "sweep_py": sweep_py, "sweep_jit": sweep_jit, "breaks": breaks, "fixhom": fixhom, "fit_trace_py": fit_trace_py}[task["op"]](task)
