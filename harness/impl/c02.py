"""Implementation side of C02 (`mchap call` sampler moves); runs inside a worker importing the tree under test.

ops
  rows          for one instance and a list of ordered allele vectors: the probability rows filled by
                gibbs_options and mh_options for every position (compiled or interpreted)
  exact         call-exact arrays (genotype_likelihoods / genotype_posteriors) of the same instances
  sampler_trace (py-mode) event trace of mcmc_sampler: every options call, every choice, every compound step
  sampler_run   (jit) long CallingMCMC run, posterior summaries (informational comparison only)
"""
import math

import numpy as np

from impl.c03 import build

M = None


def setup():
    global M, E
    import mchap.calling.mcmc as M
    import mchap.calling.exact as E


def rows(inst, states, with_cache):
    P, K, H, reads, counts, freqs, F = build(inst)
    out = []
    llks = np.full(K, np.nan)
    lpriors = np.full(K, np.nan)
    probs = np.full(K, np.nan)
    cache = None
    if with_cache:
        # same construction as mcmc_sampler(cache=True)
        cache = _new_cache()
    for a in states:
        g = np.array(a, dtype=np.int64)
        rec = {"gibbs": [], "mh": [], "restored": True}
        for k in range(P):
            for name, f in (("gibbs", M.gibbs_options), ("mh", M.mh_options)):
                probs[:] = np.nan
                f(g, k, H, reads, counts, F, llks, lpriors, probs, freqs, cache)
                rec[name].append([float(x) for x in probs])
                if [int(x) for x in g] != list(a):
                    rec["restored"] = False
        out.append(rec)
    return out


_MK = None


def _new_cache():
    """same construction as mcmc_sampler(cache=True): a dict seeded with the -1 -> nan entry"""
    global _MK
    import os

    if os.environ.get("NUMBA_DISABLE_JIT") == "1":
        return {-1: np.nan}
    if _MK is None:
        from numba import njit

        @njit
        def mk():
            d = {}
            d[-1] = np.nan
            return d

        _MK = mk
    return _MK()


def q6(x):
    x = float(x)
    if math.isnan(x) or math.isinf(x):
        return 0
    return int(round(x * 1000000))


class Recorder:
    """py-mode recorder.  Wraps the module-level callables that compound_step looks up in mchap.calling.mcmc and the
    `mcmc_sampler` name that CallingMCMC.fit looks up in mchap.calling.classes.  One trace per mcmc_sampler call; the
    `begin` event describes the instance the *harness* intended for that run (so wrong arguments reaching the sampler
    show up as rows that do not match the instance), the initial vector is the one the sampler was given."""

    def __init__(self, instances):
        self.instances = list(instances)   # one per expected mcmc_sampler call, in call order
        self.traces = []
        self.ev = None
        self.cur = {}
        self.extra_calls = 0

    def __enter__(self):
        import mchap.calling.classes as C

        self.C = C
        self.o = (M.gibbs_options, M.mh_options, M.random_choice, M.compound_step, C.mcmc_sampler)
        M.gibbs_options = self.wrap(self.o[0], False)
        M.mh_options = self.wrap(self.o[1], True)
        M.random_choice = self.choice
        M.compound_step = self.cstep
        C.mcmc_sampler = self.msampler
        return self

    def __exit__(self, *exc):
        M.gibbs_options, M.mh_options, M.random_choice, M.compound_step, self.C.mcmc_sampler = self.o
        return False

    def wrap(self, f, reverse):
        def inner(**kw):
            before = [int(x) for x in kw["genotype_alleles"]]
            f(**kw)
            K = len(kw["haplotypes"])
            ll = np.array(kw["llks_array"], dtype=float)
            self.cur = {"op": "update", "k": int(kw["variable_allele"]), "a": before,
                        "lq": [q6(math.exp(x - ll.max())) for x in ll],
                        "pq": [q6(x) for x in kw["probabilities_array"]], "llmax": float(ll.max())}
            if reverse:
                # probability of each reverse move v_b -> v (same position), for the detailed-balance clause
                k = int(kw["variable_allele"])
                rq = []
                t1, t2, t3 = np.full(K, np.nan), np.full(K, np.nan), np.full(K, np.nan)
                for b in range(K):
                    g2 = np.array(before, dtype=np.int64)
                    g2[k] = b
                    f(genotype_alleles=g2, variable_allele=k, haplotypes=kw["haplotypes"], reads=kw["reads"],
                      read_counts=kw["read_counts"], inbreeding=kw["inbreeding"], llks_array=t1, lpriors_array=t2,
                      probabilities_array=t3, frequencies=kw["frequencies"], llk_cache=None)
                    rq.append(q6(t3[before[k]]))
                self.cur["rq"] = rq
        return inner

    def choice(self, p):
        c = self.o[2](p)
        e = dict(self.cur)
        e["b"] = int(c)
        if self.ev is not None:
            self.ev.append(e)
        return c

    def cstep(self, **kw):
        ret = self.o[3](**kw)
        if self.ev is not None:
            last = self.ev[-1]
            self.ev.append({"op": "sorted", "a": [int(x) for x in kw["genotype_alleles"]],
                            "retq": q6(math.exp(float(ret) - last["llmax"]))})
        return ret

    def msampler(self, **kw):
        i = len(self.traces)
        if i >= len(self.instances):
            self.extra_calls += 1
            return self.o[4](**kw)
        inst = self.instances[i]
        self.ev = [{"op": "begin", "P": inst["P"], "Fn": inst["Fn"], "Fd": inst["Fd"], "H": inst["H"], "A": inst["A"],
                    "w": inst["w"], "reads": inst["reads"], "a": [int(x) for x in kw["genotype_alleles"]],
                    "kind": "gibbs" if kw.get("step_type", 0) == 0 else "mh", "tag": inst.get("tag", ""), "tile": inst.get("tile", 1)}]
        try:
            return self.o[4](**kw)
        finally:
            for e in self.ev:
                e.pop("llmax", None)
            self.traces.append(self.ev)
            self.ev = None


def sampler_trace(inst, a0, kind, n_steps, seed):
    """py-mode: record CallingMCMC.fit (the class `mchap call` uses) on one instance."""
    from mchap.calling.classes import CallingMCMC

    P, K, H, reads, counts, freqs, F = build(inst)
    with Recorder([inst]) as rec:
        CallingMCMC(ploidy=P, haplotypes=H, frequencies=freqs, inbreeding=F, steps=n_steps, chains=1, random_seed=seed,
                    step_type="Gibbs" if kind == "gibbs" else "Metropolis-Hastings").fit(
            reads, read_counts=counts, initial=None if a0 is None else np.array(a0, dtype=np.int64))
    return rec.traces[0]


def call_trace(task):
    """py-mode: `mchap call` in-process on generated files; one recorded trace per (locus, sample, chain)."""
    import contextlib
    import io
    import mchap.application.call as CA

    buf = io.StringIO()
    with Recorder(task["instances"]) as rec:
        with contextlib.redirect_stdout(buf):
            CA.program.cli(task["argv"]).run_stdout()
    return {"traces": rec.traces, "extra_calls": rec.extra_calls, "stdout": buf.getvalue()}


def cli_run(task):
    """jit: run `mchap call` or `mchap call-exact` in-process, return the VCF text"""
    import contextlib
    import io

    if task["argv"][1] == "call":
        import mchap.application.call as A
    else:
        import mchap.application.call_exact as A
    buf = io.StringIO()
    with contextlib.redirect_stdout(buf):
        A.program.cli(task["argv"]).run_stdout()
    return buf.getvalue()


def exact(inst):
    P, K, H, reads, counts, freqs, F = build(inst)
    llks = E.genotype_likelihoods(reads, P, H, read_counts=counts)
    probs = E.genotype_posteriors(llks, P, K, inbreeding=F, frequencies=freqs)
    return [float(x) for x in probs]


def sampler_run(inst, steps, burn, seed, kind):
    from mchap.calling.classes import CallingMCMC

    P, K, H, reads, counts, freqs, F = build(inst)
    tr = CallingMCMC(ploidy=P, haplotypes=H, frequencies=freqs, inbreeding=F, steps=steps, chains=2, random_seed=seed,
                     step_type="Gibbs" if kind == "gibbs" else "Metropolis-Hastings").fit(reads, read_counts=counts).burn(burn)
    post = tr.posterior()
    arr = post.as_array(K)
    fr, cn, oc = tr.posterior_frequencies()
    return {"gp": [float(x) for x in arr], "afp": [float(x) for x in fr]}


def run(task):
    op = task["op"]
    if op == "rows":
        return [{"rows": rows(j["inst"], j["states"], task.get("cache", False))} for j in task["jobs"]]
    if op == "exact":
        return [exact(i) for i in task["insts"]]
    if op == "sampler_trace":
        return [sampler_trace(j["inst"], j["a0"], j["kind"], j["n_steps"], j["seed"]) for j in task["jobs"]]
    if op == "call_trace":
        return call_trace(task)
    if op == "cli_run":
        return cli_run(task)
    if op == "sampler_run":
        return [sampler_run(j["inst"], j["steps"], j["burn"], j["seed"], j["kind"]) for j in task["jobs"]]
    raise ValueError(op)
