"""Implementation side of C02 (`mchap call` sampler moves); runs inside a worker importing the tree under test.

ops
  rows          for one instance and a list of ordered allele vectors: the probability rows filled by
                gibbs_options and mh_options for every position (compiled or interpreted)
  exact         call-exact arrays (genotype_likelihoods / genotype_posteriors) of the same instances
  sampler_trace (py-mode) event trace of mcmc_sampler: every options call, every choice, every compound step
  sampler_run   (jit) long CallingMCMC run, posterior summaries (informational comparison only)
"""
import math

import numpy as np

from impl.c03 import build

M = None


def setup():
    global M, E
    import mchap.calling.mcmc as M
    import mchap.calling.exact as E


def rows(inst, states, with_cache):
    P, K, H, reads, counts, freqs, F = build(inst)
    out = []
    llks = np.full(K, np.nan)
    lpriors = np.full(K, np.nan)
    probs = np.full(K, np.nan)
    cache = None
    if with_cache:
        # same construction as mcmc_sampler(cache=True)
        cache = _new_cache()
    for a in states:
        g = np.array(a, dtype=np.int64)
        rec = {"gibbs": [], "mh": [], "restored": True}
        for k in range(P):
            for name, f in (("gibbs", M.gibbs_options), ("mh", M.mh_options)):
                probs[:] = np.nan
                f(g, k, H, reads, counts, F, llks, lpriors, probs, freqs, cache)
                rec[name].append([float(x) for x in probs])
                if [int(x) for x in g] != list(a):
                    rec["restored"] = False
        out.append(rec)
    return out


_MK = None


def _new_cache():
    """same construction as mcmc_sampler(cache=True): a dict seeded with the -1 -> nan entry"""
    global _MK
    import os

    if os.environ.get("NUMBA_DISABLE_JIT") == "1":
        return {-1: np.nan}
    if _MK is None:
        from numba import njit

        @njit
        def mk():
            d = {}
            d[-1] = np.nan
            return d

        _MK = mk
    return _MK()


def q6(x):
    x = float(x)
    if math.isnan(x) or math.isinf(x):
        return 0
    return int(round(x * 1000000))


def sampler_trace(inst, a0, kind, n_steps, seed):
    """py-mode: record mcmc_sampler.  Module-level callables looked up by compound_step are wrapped."""
    P, K, H, reads, counts, freqs, F = build(inst)
    ev = [{"op": "begin", "P": P, "Fn": inst["Fn"], "Fd": inst["Fd"], "H": inst["H"], "A": inst["A"], "w": inst["w"],
           "reads": inst["reads"], "a": list(a0), "kind": kind}]
    cur = {}
    o_g, o_m, o_c, o_cs = M.gibbs_options, M.mh_options, M.random_choice, M.compound_step

    def wrap(f, reverse):
        def inner(**kw):
            before = [int(x) for x in kw["genotype_alleles"]]
            f(**kw)
            ll = np.array(kw["llks_array"], dtype=float)
            cur.clear()
            cur.update({"op": "update", "k": int(kw["variable_allele"]), "a": before,
                        "lq": [q6(math.exp(x - ll.max())) for x in ll],
                        "pq": [q6(x) for x in kw["probabilities_array"]], "llmax": float(ll.max())})
            if reverse:
                # probability of each reverse move v_b -> v (same position), for the detailed-balance clause
                k = int(kw["variable_allele"])
                rq = []
                t1, t2, t3 = np.full(K, np.nan), np.full(K, np.nan), np.full(K, np.nan)
                for b in range(K):
                    g2 = np.array(before, dtype=np.int64)
                    g2[k] = b
                    f(genotype_alleles=g2, variable_allele=k, haplotypes=kw["haplotypes"], reads=kw["reads"],
                      read_counts=kw["read_counts"], inbreeding=kw["inbreeding"], llks_array=t1, lpriors_array=t2,
                      probabilities_array=t3, frequencies=kw["frequencies"], llk_cache=None)
                    rq.append(q6(t3[before[k]]))
                cur["rq"] = rq
        return inner

    def choice(p):
        c = o_c(p)
        e = dict(cur)
        e["b"] = int(c)
        ev.append(e)
        return c

    def cstep(**kw):
        ret = o_cs(**kw)
        last = ev[-1]
        ev.append({"op": "sorted", "a": [int(x) for x in kw["genotype_alleles"]],
                   "retq": q6(math.exp(float(ret) - last["llmax"]))})
        return ret

    M.gibbs_options, M.mh_options, M.random_choice, M.compound_step = wrap(o_g, False), wrap(o_m, True), choice, cstep
    try:
        np.random.seed(seed)
        M.mcmc_sampler(genotype_alleles=np.array(a0, dtype=np.int64), haplotypes=H, reads=reads, read_counts=counts,
                       inbreeding=F, frequencies=freqs, n_steps=n_steps, cache=True, step_type=0 if kind == "gibbs" else 1)
    finally:
        M.gibbs_options, M.mh_options, M.random_choice, M.compound_step = o_g, o_m, o_c, o_cs
    for e in ev:
        e.pop("llmax", None)
    return ev


def exact(inst):
    P, K, H, reads, counts, freqs, F = build(inst)
    llks = E.genotype_likelihoods(reads, P, H, read_counts=counts)
    probs = E.genotype_posteriors(llks, P, K, inbreeding=F, frequencies=freqs)
    return [float(x) for x in probs]


def sampler_run(inst, steps, burn, seed, kind):
    from mchap.calling.classes import CallingMCMC

    P, K, H, reads, counts, freqs, F = build(inst)
    tr = CallingMCMC(ploidy=P, haplotypes=H, frequencies=freqs, inbreeding=F, steps=steps, chains=2, random_seed=seed,
                     step_type="Gibbs" if kind == "gibbs" else "Metropolis-Hastings").fit(reads, read_counts=counts).burn(burn)
    post = tr.posterior()
    arr = post.as_array(K)
    fr, cn, oc = tr.posterior_frequencies()
    return {"gp": [float(x) for x in arr], "afp": [float(x) for x in fr]}


def run(task):
    op = task["op"]
    if op == "rows":
        return [{"rows": rows(j["inst"], j["states"], task.get("cache", False))} for j in task["jobs"]]
    if op == "exact":
        return [exact(i) for i in task["insts"]]
    if op == "sampler_trace":
        return [sampler_trace(j["inst"], j["a0"], j["kind"], j["n_steps"], j["seed"]) for j in task["jobs"]]
    if op == "sampler_run":
        return [sampler_run(j["inst"], j["steps"], j["burn"], j["seed"], j["kind"]) for j in task["jobs"]]
    raise ValueError(op)
