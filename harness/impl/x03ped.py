"""Implementation side of X03 (1): the pedigree error statistic PEDERR.

Runs inside a worker process importing the tree under test.

ops
  replay   : model states of PedErr.tla (pedigree, layout, trace) -> PedigreeAllelesMultiTrace.burn().incongruence()
             and _trace_incongruence() on the real arrays (rows padded with -1 to the widest ploidy, alleles in a
             seeded random order within each row, steps of the flat call in reversed order)
  record   : (py-mode) the same states with recorders on the validity tests called by _trace_incongruence:
             one event per call of incongruence(), holding every internal trio_valid / duo_valid call
  runs     : real `mchap call-pedigree` program runs, in-process, on a private copy of the repository's test
             data: the trace returned by fit() (before burn-in) is captured and the PEDERR text of every
             emitted record is parsed; one event per (run, locus)
  cli      : one run of the real command line (`python -m mchap call-pedigree ...`) in a subprocess: stdout lines
"""
import io
import os
import random
import subprocess
import sys
import warnings

import numpy as np


def setup():
    global PC
    from mchap.pedigree import classes as PC


def fl(x):
    return x[0] / x[1]


def ped_arrays(ped):
    n = len(ped["pl"])
    ploidy = np.array(ped["pl"], dtype=np.int64)
    parents = np.array([[p - 1, q - 1] for p, q in ped["par"]], dtype=np.int64).reshape(n, 2)
    tau = np.array(ped["tau"], dtype=np.int64).reshape(n, 2)
    lam = np.array([[fl(a), fl(b)] for a, b in ped["lam"]], dtype=np.float64).reshape(n, 2)
    return ploidy, parents, tau, lam


def step_rows(step, maxp, rnd, dtype):
    a = np.full((len(step), maxp), -1, dtype=dtype)
    for i, g in enumerate(step):
        g = list(g)
        rnd.shuffle(g)
        a[i, : len(g)] = g
    return a


def replay_state(st, ped, rnd):
    ploidy, parents, tau, lam = ped_arrays(ped)
    n = len(st["steps"])
    s, c, b = st["s"], st["c"], st["b"]
    maxp = int(ploidy.max())
    out = {}
    with np.errstate(all="ignore"):
        if n % s == 0:
            arr = np.array([step_rows(g, maxp, rnd, np.int16) for g in st["steps"]], dtype=np.int16)
            arr = arr.reshape(n // s, s, len(ploidy), maxp)
            t = PC.PedigreeAllelesMultiTrace(arr, n_allele=ped["K"])
            v = t.burn(b).incongruence(sample_ploidy=ploidy, sample_parents=parents, gamete_tau=tau, gamete_lambda=lam)
            out["rect"] = [float(x) for x in v]
            out["shape"] = list(np.shape(v))
        # the flat function: all steps, reversed order, one extra padding column, a wider integer type
        arr2 = np.array([step_rows(g, maxp + 1, rnd, np.int64) for g in reversed(st["steps"])], dtype=np.int64)
        v2 = PC._trace_incongruence(arr2, ploidy, parents, tau, lam)
        out["flat"] = [float(x) for x in v2]
    return out


# ---- py-mode: record the internal validity calls -----------------------------------------------
def record_state(st, ped, rnd):
    ploidy, parents, tau, lam = ped_arrays(ped)
    maxp = int(ploidy.max())
    calls = []
    o_duo, o_trio = PC.duo_valid, PC.trio_valid

    def lamc(x):
        x = float(x)
        return 0 if x == 0.0 else (1 if 0.0 < x < 1.0 else 2)

    def duo(progeny, parent, tau, lambda_):
        r = o_duo(progeny, parent, tau, lambda_)
        calls.append({"kind": "duo", "g": [int(x) for x in progeny], "gp": [int(x) for x in parent], "gq": [],
                      "tp": int(tau), "tq": 0, "lp": lamc(lambda_), "lq": 0, "res": bool(r)})
        return r

    def trio(progeny, parent_p, parent_q, tau_p, tau_q, lambda_p, lambda_q):
        r = o_trio(progeny, parent_p, parent_q, tau_p, tau_q, lambda_p, lambda_q)
        calls.append({"kind": "trio", "g": [int(x) for x in progeny], "gp": [int(x) for x in parent_p],
                      "gq": [int(x) for x in parent_q], "tp": int(tau_p), "tq": int(tau_q),
                      "lp": lamc(lambda_p), "lq": lamc(lambda_q), "res": bool(r)})
        return r

    n = len(st["steps"])
    s, b = st["s"], st["b"]
    arr = np.array([step_rows(g, maxp, rnd, np.int16) for g in st["steps"]], dtype=np.int16)
    if n % s == 0:
        arr = arr.reshape(n // s, s, len(ploidy), maxp)
        burn = b
    else:
        arr = arr.reshape(1, n, len(ploidy), maxp)
        burn = 0
    PC.duo_valid, PC.trio_valid = duo, trio
    try:
        with np.errstate(all="ignore"):
            t = PC.PedigreeAllelesMultiTrace(arr, n_allele=ped["K"]).burn(burn)
            v = t.incongruence(sample_ploidy=ploidy, sample_parents=parents, gamete_tau=tau, gamete_lambda=lam)
    finally:
        PC.duo_valid, PC.trio_valid = o_duo, o_trio
    kept = np.array(t.genotypes)
    kept = kept.reshape(-1, kept.shape[2], kept.shape[3])
    return {
        "op": "calls", "K": ped["K"], "pl": ped["pl"], "par": ped["par"], "tau": ped["tau"],
        "lamc": [[0 if a[0] == 0 else 1, 0 if q[0] == 0 else 1] for a, q in ped["lam"]],
        "tr": [[[int(x) for x in row] for row in stp] for stp in kept],
        "calls": calls, "out": [int(round(float(x) * 1e6)) for x in v],
    }


# ---- real program runs ------------------------------------------------------------------------------
def parse_line(line):
    f = line.rstrip("\n").split("\t")
    keys = f[8].split(":")
    samples = [dict(zip(keys, s.split(":"))) for s in f[9:]]
    return {"chrom": f[0], "pos": int(f[1]), "id": f[2], "filter": f[6], "samples": samples, "format": keys}


def milli(text):
    if text in (".", "", None):
        return -1
    return int(round(float(text) * 1000))


def run_program(cfg):
    """cfg: argv (list), ped (the pedigree as written into the input files, sample-name based), burn, steps, chains"""
    from mchap.application import call_pedigree as APP
    from mchap.pedigree.classes import PedigreeCallingMCMC as FITCLS

    captured = []
    orig_fit = FITCLS.fit

    def fit(self, *a, **k):
        t = orig_fit(self, *a, **k)
        captured.append((np.array(t.genotypes).copy(), int(len(self.haplotypes))))
        return t

    events = []
    with warnings.catch_warnings():
        warnings.simplefilter("ignore")
        prog = APP.program.cli(["mchap", "call-pedigree"] + list(cfg["argv"]))
        FITCLS.fit = fit
        try:
            header = []
            try:
                header = [str(x) for x in prog.header()]
            except Exception:
                header = []
            for locus in prog.loci():
                del captured[:]
                with np.errstate(all="ignore"):
                    line = prog.call_locus(locus, prog.sample_bams)
                rec = parse_line(line)
                ev = {"op": "run", "name": cfg["name"], "locus": rec["id"], "samples": list(prog.samples),
                      "has_pederr": "PEDERR" in rec["format"],
                      "printed": [milli(s.get("PEDERR")) for s in rec["samples"]],
                      "text": [s.get("PEDERR") for s in rec["samples"]],
                      "mcmc": bool(captured), "line": line if len(line) < 3000 else line[:3000]}
                if captured:
                    g, nh = captured[0]
                    ev["c"], ev["s"] = int(g.shape[0]), int(g.shape[1])
                    ev["K"] = nh
                    ev["tr"] = [[[int(x) for x in row] for row in stp] for stp in g.reshape(-1, g.shape[2], g.shape[3])]
                events.append(ev)
        finally:
            FITCLS.fit = orig_fit
    return {"events": events, "header_pederr": [h for h in header if "PEDERR" in h]}


def run_cli(cfg):
    e = dict(os.environ)
    p = subprocess.run([sys.executable, "-W", "ignore", "-c", "from mchap.application.cli import main; main()",
                        "call-pedigree"] + list(cfg["argv"]),
                       capture_output=True, text=True, env=e, timeout=1500)
    lines = [l for l in p.stdout.splitlines() if l and not l.startswith("#")]
    hdr = [l for l in p.stdout.splitlines() if l.startswith("##FORMAT=<ID=PEDERR")]
    return {"rc": p.returncode, "records": [parse_line(l) for l in lines], "header_pederr": hdr,
            "stderr": p.stderr[-1500:]}


def run(task):
    op = task["op"]
    if op == "replay":
        rnd = random.Random(task["seed"])
        return [replay_state(st, task["peds"][st["pi"] - 1], rnd) for st in task["states"]]
    if op == "record":
        rnd = random.Random(task["seed"])
        return [record_state(st, task["peds"][st["pi"] - 1], rnd) for st in task["states"]]
    if op == "runs":
        return [run_program(c) for c in task["runs"]]
    if op == "cli":
        return run_cli(task["run"])
    raise ValueError(op)
