"""C14 code -> spec, loci with many haplotypes: allele traces in the integer dtypes the programs really hold them in
(int16: PedigreeCallingMCMC / PedigreeAllelesMultiTrace.individual, int32: CallingMCMC via greedy_caller, int8: the
zero-variant path of CallingMCMC.fit) over loci with 40-600 haplotypes, so that the VCF (G-order) indices of the
retained genotypes exceed what the trace's dtype can hold (beyond 2^7 / 2^15 / 2^31, and pairs of retained genotypes
whose indices are congruent modulo 2^8 / 2^16 / 2^32).

Nothing is compared here: the summaries returned by the real classes are recorded as exact integer counts
(probability * n, -1 when that is not an integer) and TraceWideSummary.tla recomputes every one of them from the trace
with the functionals of TraceFunctionals.tla.  Python's rank / unrank below only CHOOSE the inputs.
"""
import math
import random

import numpy as np

EPS = 1e-9
THETAS = [[1, 4], [1, 2], [5, 8], [3, 4], [1, 1]]
BITS = {"int8": 8, "int16": 16, "int32": 32}
# (ploidy, lowest K, highest K) per dtype: every shape has more genotypes than the dtype has values
SHAPES = {
    "int8": [(2, 40, 100), (3, 40, 100), (4, 40, 100), (6, 40, 60)],
    "int16": [(4, 40, 100), (4, 40, 100), (6, 20, 32), (6, 40, 60), (3, 80, 100), (2, 370, 420), (5, 30, 50)],
    "int32": [(8, 60, 100), (6, 160, 220), (4, 600, 640), (10, 40, 60)],
}
MAX_ARRAY = 6_000_000      # as_array is asked for when the G-ordered array has at most this many cells ...
MAX_TLC = 2 ** 31 - 1      # ... and TLC's 32-bit integers can rank every genotype (Choose keeps G * P below 2^31)


def setup():
    global CC, PC
    from mchap.calling import classes as CC
    from mchap.pedigree import classes as PC


def rank(g):
    return sum(math.comb(a + i, i + 1) for i, a in enumerate(g))


def unrank(idx, p):
    g = [0] * p
    for i in range(p, 0, -1):
        a = 0
        step = 1
        while math.comb(a + step + i - 1, i) <= idx:      # gallop, then bisect
            step *= 2
        lo, hi = a, a + step
        while lo < hi - 1:
            mid = (lo + hi) // 2
            if math.comb(mid + i - 1, i) <= idx:
                lo = mid
            else:
                hi = mid
        g[i - 1] = lo
        idx -= math.comb(lo + i - 1, i)
    assert idx == 0
    return g


def as_count(p, n):
    v = float(p) * n
    if not math.isfinite(v):
        return -1
    r = round(v)
    if abs(v - r) > EPS * max(1.0, abs(v)):
        return -1
    return int(r)


def make_pool(rnd, P, K, bits):
    """genotypes (ascending allele tuples) the chains visit: random genotypes, for each of them one or two genotypes whose
    G-order index is congruent modulo 2^bits, dosage variants (same support) and nested / foreign supports"""
    M = 2 ** bits
    G = math.comb(K + P - 1, P)
    pool = []

    def add(g):
        g = tuple(sorted(int(a) for a in g))
        if g not in pool and max(g) < K and min(g) >= 0:
            pool.append(g)
            return True
        return False

    n_base = rnd.choice([2, 3, 3, 4])
    for _ in range(n_base):
        lo = rnd.choice([0, 0, K // 3, K // 2])
        g = sorted(rnd.randrange(lo, K) for _ in range(P))
        if rnd.random() < 0.5 and P > 2:
            g[1] = g[0]                                  # a repeated allele: the support is smaller than the ploidy
        add(g)
        r = rank(sorted(g))
        ms = [m for m in range(-(r // M), (G - 1 - r) // M + 1) if m != 0]
        if ms:
            picks = {rnd.choice(ms), rnd.choice(ms)}
            near = [m for m in ms if abs(m) == 1]
            if near and rnd.random() < 0.6:
                picks.add(rnd.choice(near))
            for m in picks:
                add(unrank(r + m * M, P))
    for g in list(pool)[:3]:
        s = sorted(set(g))
        if len(s) >= 2 and len(s) < P:                   # same support, other dosage
            h = list(s) + [rnd.choice(s) for _ in range(P - len(s))]
            add(h)
        h = list(g)                                       # nested support: one allele replaced by another of the genotype
        h[rnd.randrange(P)] = g[rnd.randrange(P)]
        add(h)
        h = list(g)                                       # foreign allele
        h[rnd.randrange(P)] = rnd.randrange(K)
        add(h)
    return pool


def related(pool, g):
    """genotypes of the pool whose support is nested in, or contains, the support of g"""
    sg = set(g)
    return [i for i, h in enumerate(pool) if set(h) <= sg or sg <= set(h)]


def make_trace(rnd, pool, C, S, b):
    """chains with one genotype, a peaked, a two-point or a flat distribution over the pool (so that at 1/4 .. 1 some
    chains qualify and some do not); the favourite of a later chain is often a relative of the first chain's favourite
    (equal or nested support: flags 0 and 1), otherwise any genotype (foreign alleles: flag 2)"""
    tr = []
    fav0 = rnd.randrange(len(pool))
    rel = related(pool, pool[fav0])
    for c in range(C):
        kind = rnd.choice(["one", "peaked", "peaked", "two", "flat"])
        fav = fav0 if c == 0 else (rnd.choice(rel) if rnd.random() < 0.6 else rnd.randrange(len(pool)))
        alt = rnd.randrange(len(pool))
        steps = []
        for s in range(S):
            if s < b:
                i = rnd.randrange(len(pool))              # burn-in: anything
            elif kind == "one":
                i = fav
            elif kind == "peaked":
                i = fav if rnd.random() < 0.75 else rnd.randrange(len(pool))
            elif kind == "two":
                i = fav if rnd.random() < 0.5 else alt
            else:
                i = rnd.randrange(len(pool))
            steps.append(list(pool[i]))
        tr.append(steps)
    return tr


def summarise(trace, P, K, n, with_array):
    post = trace.posterior()
    out = {"n": int(np.prod(trace.genotypes.shape[:2]))}
    out["post"] = [[[int(a) for a in g], as_count(p, n)] for g, p in zip(post.genotypes, post.probabilities)]
    g, p = post.mode()
    out["mode"] = [[int(a) for a in g], as_count(p, n)]
    g, p, sp = post.mode(genotype_support=True)
    out["call"] = [[int(a) for a in g], as_count(p, n), as_count(sp, n)]
    fr, ct, oc = trace.posterior_frequencies()
    out["acount"] = [as_count(x, n) for x in ct]
    out["fcount"] = [as_count(x * P, n) for x in fr]
    out["occ"] = [as_count(x, n) for x in oc]
    if with_array:
        arr = post.as_array(K)
        out["arrLen"] = int(len(arr))
        out["arr"] = [[int(i), as_count(arr[i], n)] for i in np.nonzero(arr)[0]]
    else:
        out["arrLen"] = -1
        out["arr"] = []
    out["inc"] = [int(trace.replicate_incongruence(th[0] / th[1])) for th in THETAS]
    return out


def one_event(rnd, dtype, index):
    bits = BITS[dtype]
    P, klo, khi = rnd.choice(SHAPES[dtype])
    K = rnd.randrange(klo, khi + 1)
    C = rnd.choice([2, 3, 3, 4])
    b = rnd.choice([0, 1, 3])
    S = b + rnd.choice([8, 8, 16])          # dyadic chain length: every threshold is decided exactly in floating point
    pool = make_pool(rnd, P, K, bits)
    tr = make_trace(rnd, pool, C, S, b)
    return record(rnd, dtype, index, P, K, C, S, b, tr)


def record(rnd, dtype, index, P, K, C, S, b, tr):
    """the stored trace tr (C x S ascending genotypes) through the real classes in the given dtype"""
    bits = BITS[dtype]
    G = math.comb(K + P - 1, P)
    npdt = getattr(np, dtype)
    with_array = G <= MAX_ARRAY and G * P <= MAX_TLC
    if dtype == "int16":
        # as call-pedigree holds it: samples x padded ploidy, the individual is sliced out of the pedigree trace
        P2 = rnd.choice([2, P])
        maxp = max(P, P2)
        which = rnd.randrange(2)
        g = np.full((C, S, 2, maxp), -1, dtype=npdt)
        other = sorted(rnd.randrange(K) for _ in range(P2))
        g[:, :, 1 - which, :P2] = other
        g[:, :, which, :P] = np.array(tr, dtype=npdt)
        t = PC.PedigreeAllelesMultiTrace(g, n_allele=K).burn(b).individual(which)
        program = "wide:int16:pedigree"
    else:
        g = np.array(tr, dtype=npdt)
        t = CC.GenotypeAllelesMultiTrace(g, np.zeros((C, S)), K).burn(b)
        program = "wide:%s:calling" % dtype
    n = C * (S - b)
    out = summarise(t, P, K, n, with_array)
    ret = {tuple(x) for ch in tr for x in ch[b:]}
    ranks = sorted(rank(x) for x in ret)
    M = 2 ** bits
    collide = len(ranks) - len({r % M for r in ranks})
    return {"program": program, "dtype": dtype, "index": index, "p": P, "k": K, "c": C, "s": S, "burn": b, "thetas": THETAS,
            "tr": tr, "rank": 1 if with_array else 0, "out": out, "distinct": len(ret),
            "colliding": collide, "beyond": sum(1 for r in ranks if r >= M // 2), "genotype_space": str(G)}


def run(task):
    if task["op"] == "rerun":       # --replay: the recorded traces again
        rnd = random.Random(0)
        with np.errstate(all="ignore"):
            return [record(rnd, e["dtype"], e["index"], e["p"], e["k"], e["c"], e["s"], e["burn"], e["tr"])
                    for e in task["events"]]
    rnd = random.Random(task["seed"])
    events = []
    with np.errstate(all="ignore"):
        for i in range(task["n"]):
            dtype = task["dtypes"][i % len(task["dtypes"])]
            events.append(one_event(rnd, dtype, task["index"] * 1000 + i))
    return events
