"""Implementation side of X02 (command-line configuration state).

Runs inside a jit-mode worker importing the tree under test.  One item = one argument vector:
`program.cli(argv)` in-process, the resulting program attributes, then `run_stdout()` on the
small world with recorders on the points where the configuration reaches the engines
(extract_read_variants, DenovoMCMC / CallingMCMC / posterior_mode / genotype_posteriors /
PedigreeCallingMCMC) and the emitted text.  Three independent observation points of the same
configuration: (a) attributes after cli, (b) values handed to the engine, (c) the output text.

Only representation is undone here (path -> file id, float -> hundredths); no expectation is
computed on this side.
"""
import hashlib
import io
import os
import sys
import traceback
import warnings

import numpy as np

NP_DEFAULT = dict(divide="warn", over="warn", invalid="warn", under="ignore")
_M = {}
_REC = {"reads": [], "calls": [], "ped": []}
_BASE = {}


def _h(x):
    """float -> hundredths (the model's unit); non-finite -> string"""
    x = float(x)
    if x != x or x in (float("inf"), float("-inf")):
        return str(x)
    return int(round(x * 100))


def _bam_id(path):
    if isinstance(path, bytes):
        path = path.decode()
    b = os.path.basename(str(path))
    return b[:-4] if b.endswith(".bam") else b


def setup():
    from mchap.application import assemble, call, call_exact, call_pedigree, baseclass, find_snvs, atomize

    _M.update({"assemble": assemble, "call": call, "call-exact": call_exact, "call-pedigree": call_pedigree,
               "find-snvs": find_snvs, "atomize": atomize})

    orig_extract = baseclass.extract_read_variants

    def extract(locus, alignment_file=None, samples=None, id="SM", **kw):
        _REC["reads"].append([samples if isinstance(samples, str) else sorted(samples or []), _bam_id(alignment_file.filename), id])
        return orig_extract(locus, alignment_file=alignment_file, samples=samples, id=id, **kw)

    baseclass.extract_read_variants = extract

    def wrap_engine(mod, name, keys):
        orig = getattr(mod, name)

        def f(*a, **kw):
            rec = {"engine": name}
            for k in keys:
                if k in kw:
                    v = kw[k]
                    if k in ("inbreeding",):
                        rec[k] = _h(v)
                    elif k == "temperatures":
                        rec[k] = [_h(t) for t in v]
                    elif v is None:
                        rec[k] = None
                    else:
                        rec[k] = int(v)
            _REC["calls"].append(rec)
            return orig(*a, **kw)

        setattr(mod, name, f)

    wrap_engine(assemble, "DenovoMCMC", ["ploidy", "inbreeding", "steps", "chains", "temperatures", "random_seed"])
    wrap_engine(call, "CallingMCMC", ["ploidy", "inbreeding", "steps", "chains", "random_seed"])
    wrap_engine(call_exact, "posterior_mode", ["ploidy", "inbreeding"])
    wrap_engine(call_exact, "genotype_posteriors", ["ploidy", "inbreeding"])

    orig_ped = call_pedigree.PedigreeCallingMCMC

    def ped(*a, **kw):
        _REC["ped"].append({
            "ploidy": [int(x) for x in kw["sample_ploidy"]],
            "inbreeding": [_h(x) for x in kw["sample_inbreeding"]],
            "parents": [[int(x) for x in r] for r in kw["sample_parents"]],
            "tau": [[int(x) for x in r] for r in kw["gamete_tau"]],
            "ibd": [[_h(x) for x in r] for r in kw["gamete_lambda"]],
            "err": [[_h(x) for x in r] for r in kw["gamete_error"]],
            "steps": int(kw["steps"]), "annealing": int(kw["annealing"]), "chains": int(kw["chains"]),
            "random_seed": kw["random_seed"],
        })
        return orig_ped(*a, **kw)

    call_pedigree.PedigreeCallingMCMC = ped


def _attrs(prog, p):
    a = {
        "samples": list(p.samples),
        "sample_bams": {k: [[s, _bam_id(b)] for s, b in v] for k, v in p.sample_bams.items()},
        "sample_ploidy": {k: int(v) for k, v in p.sample_ploidy.items()},
        "sample_inbreeding": None if p.sample_inbreeding is None else {k: _h(v) for k, v in p.sample_inbreeding.items()},
        "info": [f.id for f in p.info_fields],
        "format": [f.id for f in p.format_fields],
        "read_group_field": p.read_group_field,
        "random_seed": p.random_seed,
        "n_cores": p.n_cores,
    }
    if prog != "call-exact":
        a.update({"steps": int(p.mcmc_steps), "burn": int(p.mcmc_burn), "chains": int(p.mcmc_chains)})
    if prog == "assemble":
        a["temps"] = {k: [_h(t) for t in v] for k, v in p.sample_mcmc_temperatures.items()}
        a["bed"] = p.bed is not None
        a["region"] = p.region is not None
    if prog == "call-pedigree":
        nn = lambda x: "." if x is None else x  # noqa: E731
        a["parents"] = {k: [nn(v[0]), nn(v[1])] for k, v in p.sample_parents.items()}
        a["tau"] = {k: [int(v[0]), int(v[1])] for k, v in p.gamete_ploidy.items()}
        a["ibd"] = {k: [_h(v[0]), _h(v[1])] for k, v in p.gamete_ibd.items()}
        a["err"] = {k: [_h(v[0]), _h(v[1])] for k, v in p.gamete_error.items()}
    return a


def _text(stdout):
    info, fmt, cols, recs = [], [], None, []
    for line in stdout.splitlines():
        if line.startswith("##INFO=<ID="):
            info.append(line[len("##INFO=<ID="):].split(",")[0])
        elif line.startswith("##FORMAT=<ID="):
            fmt.append(line[len("##FORMAT=<ID="):].split(",")[0])
        elif line.startswith("#CHROM"):
            f = line.split("\t")
            cols = f[9:] if len(f) > 9 else []
        elif line and not line.startswith("#"):
            f = line.split("\t")
            keys = f[8].split(":") if len(f) > 8 else []
            gts = []
            for cell in f[9:]:
                gt = cell.split(":")[0]
                gts.append(len(gt.replace("|", "/").split("/")) if gt else 0)
            ikeys = [kv.split("=")[0] for kv in f[7].split(";")] if len(f) > 7 else []
            recs.append({"keys": keys, "gt_len": gts, "info_keys": ikeys, "n_cells": len(f) - 9})
    body = "\n".join(l for l in stdout.splitlines() if not l.startswith("##commandline") and not l.startswith("##fileDate"))
    return {"info": info, "format": fmt, "columns": cols, "records": recs,
            "sha": hashlib.sha1(body.encode()).hexdigest()[:16]}


def _chain(e):
    out = []
    while e is not None and len(out) < 5:
        out.append("%s: %s" % (type(e).__name__, str(e)[:200]))
        e = e.__cause__ or e.__context__
    return out


def run_item(prog, argv, do_run=True):
    for k in _REC:
        del _REC[k][:]
    mod = _M[prog]
    res = {"prog": prog, "outcome": "rejected", "phase": "cli", "error": None, "attrs": None, "engine": None, "text": None}
    out = io.StringIO()
    err = io.StringIO()
    old, olderr = sys.stdout, sys.stderr
    command = ["mchap", prog] + list(argv)
    try:
        with warnings.catch_warnings():
            warnings.simplefilter("ignore", UserWarning)
            sys.stdout, sys.stderr = out, err  # argparse help / usage text
            if prog in ("find-snvs", "atomize"):
                res["phase"] = "run"
                mod.main(command)
            else:
                p = mod.program.cli(command)
                sys.stdout = old
                res["attrs"] = _attrs(prog, p)
                res["phase"] = "run"
                if do_run:
                    sys.stdout = out
                    p.run_stdout()
        res["outcome"] = "accepted"
        res["phase"] = "done"
    except SystemExit as e:
        res["error"] = ["SystemExit: %s" % e.code]
        if e.code in (0, None):
            res["outcome"] = "accepted"  # a zero exit is an acceptance
    except Exception as e:
        res["error"] = _chain(e)
        res["tb"] = traceback.format_exc()[-1200:]
    finally:
        sys.stdout, sys.stderr = old, olderr
    if res["outcome"] == "accepted":
        res["text"] = _text(out.getvalue())
    res["engine"] = {"reads": list(_REC["reads"]), "calls": list(_REC["calls"]), "ped": list(_REC["ped"])}
    return res


def run(task):
    op = task["op"]
    if op == "replay":
        out = []
        for it in task["items"]:
            with np.errstate(**NP_DEFAULT):
                out.append(run_item(it["prog"], it["argv"], it.get("run", True)))
        return out
    if op == "build_world":
        from vlib import argworld

        return argworld.build(task["dir"])
    raise ValueError(op)
