"""Implementation side of X03 (2): mchap/mset.py.

ops
  pairs   : states (xs, ys) of MultisetAlgebra.tla with the model's results -> every function of mchap.mset in three
            element renderings (integer scalars, int8 rows, int16 2x2 sub-arrays); compared here, mismatches returned
  triples : states (xs, ys, zs) -> functools.reduce over add / intercept / union and chained subtract
  random  : recorded calls on seeded random arrays (longer, more distinct elements) -> events for TraceBags.tla
  program : recorded calls of the mset functions made by a real `mchap assemble` / `mchap call` run (in-process, private
            copy of the repository's test data) -> events for TraceBags.tla
"""
import random
import warnings
from functools import reduce

import numpy as np


def setup():
    global mset
    from mchap import mset


RENDER = {
    "scalar-int64": (np.int64, [5, -1, 0, 7, 2, 9]),
    "row-int8": (np.int8, [[0, 0], [0, 1], [1, 0], [-1, 1], [1, 1], [2, 0]]),
    "block-int16": (np.int16, [[[0, 0], [0, 0]], [[0, 1], [0, 0]], [[0, 0], [1, 0]], [[1, 1], [-1, 0]], [[1, 0], [0, 1]], [[3, 3], [3, 3]]]),
}


def render(ids, name):
    dt, elems = RENDER[name]
    proto = np.array(elems[0], dtype=dt)
    out = np.zeros((len(ids),) + proto.shape, dtype=dt)
    for i, e in enumerate(ids):
        out[i] = np.array(elems[e - 1], dtype=dt)
    return out


def decode(arr, name, U):
    """rows of a result -> element names (0 = not an element of the universe); also the element shape"""
    dt, elems = RENDER[name]
    table = {np.array(e, dtype=dt).tobytes(): i + 1 for i, e in enumerate(elems[:U])}
    arr = np.asarray(arr)
    ids = []
    for row in arr:
        ids.append(table.get(np.asarray(row).astype(dt).tobytes(), 0))
    return ids, list(arr.shape[1:]), list(np.array(elems[0]).shape)


def bag(ids, U):
    c = [0] * U
    for e in ids:
        if e < 1 or e > U:
            return None
        c[e - 1] += 1
    return c


class Collector:
    def __init__(self):
        self.bad = []
        self.perkey = {}
        self.checks = 0
        self.info = {}
        self.errors = []

    def check(self, fn, ok, st, rend, got, want, feature=None):
        self.checks += 1
        if ok:
            return
        k = (fn, feature)
        self.perkey[k] = self.perkey.get(k, 0) + 1
        if self.perkey[k] <= 4:
            self.bad.append({"fn": fn, "feature": feature, "render": rend, "x": st["x"], "y": st["y"], "z": st.get("z", []),
                             "got": got, "want": want})
        else:
            self.info["mismatches_not_listed"] = self.info.get("mismatches_not_listed", 0) + 1

    def note(self, k, n=1):
        self.info[k] = self.info.get(k, 0) + n


def ints(a):
    return [int(v) for v in a]


def attempt(c, fn, st, rend, thunk):
    try:
        return True, thunk()
    except Exception as e:  # an exception of the code under test on a model-generated input is a finding
        c.errors.append({"fn": fn, "render": rend, "x": st["x"], "y": st["y"], "z": st.get("z", []),
                         "error": "%s: %s" % (type(e).__name__, str(e)[:80])})
        return False, None


def pair_state(c, st, U):
    xs, ys = st["x"], st["y"]
    ydup = len(set(ys)) < len(ys)
    for rend in RENDER:
        X, Y = render(xs, rend), render(ys, rend)
        for fn, key in (("add", "add"), ("subtract", "sub"), ("intercept", "int"), ("union", "uni")):
            ok, r = attempt(c, "mset." + fn, st, rend, lambda: getattr(mset, fn)(X, Y))
            if ok:
                ids, shp, eshp = decode(r, rend, U)
                c.check("mset." + fn, bag(ids, U) == st[key] and shp == eshp, st, rend, {"ids": ids, "element_shape": shp}, st[key])
        for fn, key in (("equal", "eq"), ("contains", "contains"), ("within", "within")):
            ok, r = attempt(c, "mset." + fn, st, rend, lambda: getattr(mset, fn)(X, Y))
            if ok:
                c.check("mset." + fn, bool(r) == st[key], st, rend, bool(r), st[key])
        ok, r = attempt(c, "mset.unique_idx", st, rend, lambda: mset.unique_idx(X))
        if ok:
            ui = [bool(v) for v in r]
            c.check("mset.unique_idx", ui == st["uidx"], st, rend, ui, st["uidx"])
        ok, r = attempt(c, "mset.unique", st, rend, lambda: mset.unique(X))
        if ok:
            u, shp, eshp = decode(r, rend, U)
            c.check("mset.unique", sorted(u) == sorted(st["uniq"]) and len(set(u)) == len(u) and shp == eshp, st, rend, u, st["uniq"])
            if u != st["uniq"]:
                c.note("unique_not_in_first_occurrence_order")
        for order in (None, "ascending", "descending"):
            ok, r = attempt(c, "mset.unique_counts", st, rend, lambda: mset.unique_counts(X, order=order))
            if not ok:
                continue
            cu, cc = r
            cu, _, _ = decode(cu, rend, U)
            cc = ints(cc)
            want = dict(zip(st["uniq"], st["ucnt"]))
            good = len(cu) == len(cc) and len(set(cu)) == len(cu) and dict(zip(cu, cc)) == want
            if order == "ascending":
                good = good and cc == sorted(cc)
            if order == "descending":
                good = good and cc == sorted(cc, reverse=True)
            c.check("mset.unique_counts", good, st, rend, [cu, cc], [st["uniq"], st["ucnt"]], feature="order=%s" % order)
        ok, r = attempt(c, "mset.categorize", st, rend, lambda: mset.categorize(X, Y))
        if ok:
            lab = ints(r)
            feat = None
            if lab != st["cat"]:
                feat = "duplicate-categories:last-occurrence" if (ydup and lab == st["catlast"]) else ("duplicate-categories" if ydup else "distinct-categories")
            c.check("mset.categorize", lab == st["cat"], st, rend, lab, st["cat"], feature=feat)
        ok, r = attempt(c, "mset.count", st, rend, lambda: mset.count(X, Y))
        if ok:
            cn = ints(r)
            c.check("mset.count", cn == st["cnt"], st, rend, cn, st["cnt"])
        if len(xs):
            U0 = render(st["uniq"], rend)
            ok, r = attempt(c, "mset.repeat", st, rend, lambda: mset.repeat(U0, np.array(st["ucnt"], dtype=np.int64)))
            if ok:
                rp, _, _ = decode(r, rend, U)
                c.check("mset.repeat", bag(rp, U) == bag(xs, U), st, rend, rp, xs)
                exp = [e for e, k in zip(st["uniq"], st["ucnt"]) for _ in range(k)]
                if rp != exp:
                    c.note("repeat_not_in_order")


def triple_state(c, st, U):
    rend = ("scalar-int64", "row-int8", "block-int16")[(len(st["x"]) + len(st["y"]) + st["z"][0]) % 3]
    X, Y, Z = render(st["x"], rend), render(st["y"], rend), render(st["z"], rend)
    for fn, key in (("add", "add3"), ("intercept", "int3"), ("union", "uni3")):
        ok, r = attempt(c, "reduce(mset.%s)" % fn, st, rend, lambda: reduce(getattr(mset, fn), [X, Y, Z]))
        if ok:
            ids, shp, eshp = decode(r, rend, U)
            c.check("reduce(mset.%s)" % fn, bag(ids, U) == st[key] and shp == eshp, st, rend, ids, st[key])
    ok, r = attempt(c, "mset.subtract(mset.subtract)", st, rend, lambda: mset.subtract(mset.subtract(X, Y), Z))
    if ok:
        ids, shp, eshp = decode(r, rend, U)
        c.check("mset.subtract(mset.subtract)", bag(ids, U) == st["sub3"], st, rend, ids, st["sub3"])


# ---- code -> spec ---------------------------------------------------------------------------------------
def universe_ids(arrays):
    """name the distinct rows of several arrays 1..U in order of first appearance"""
    table = {}
    out = []
    for a in arrays:
        a = np.asarray(a)
        ids = []
        for row in a:
            k = np.asarray(row).tobytes()
            if k not in table:
                table[k] = len(table) + 1
            ids.append(table[k])
        out.append(ids)
    return out, len(table)


def event_of(op, args, res, extra=None):
    """args: arrays; res: array / bool / ints / (array, ints)"""
    arrs = list(args)
    kind = "arr"
    if op in ("equal", "contains", "within"):
        kind = "bool"
    elif op in ("unique_idx",):
        kind = "bools"
    elif op in ("categorize", "count"):
        kind = "ints"
    elif op == "unique_counts":
        kind = "pair"
    if kind == "arr":
        arrs.append(res)
    elif kind == "pair":
        arrs.append(res[0])
    ids, U = universe_ids(arrs)
    # rows of the result that are no row of any input would get fresh names: the model rejects them (count mismatch)
    ev = {"op": op, "U": max(U, 1), "x": ids[0], "y": ids[1] if len(args) > 1 else [], "order": "none", "cnt": [],
          "res": [], "resb": False, "resi": []}
    if kind == "arr":
        ev["res"] = ids[-1]
    elif kind == "bool":
        ev["resb"] = bool(res)
    elif kind == "bools":
        ev["resi"] = [1 if v else 0 for v in res]
    elif kind == "ints":
        ev["resi"] = ints(res)
    elif kind == "pair":
        ev["res"] = ids[-1]
        ev["resi"] = ints(res[1])
    if extra:
        ev.update(extra)
    return ev


def random_events(n, seed):
    rnd = random.Random(seed)
    ev = []
    ops2 = ["add", "subtract", "intercept", "union", "equal", "contains", "within", "categorize", "count"]
    while len(ev) < n:
        rend = rnd.choice(list(RENDER))
        U = rnd.choice([2, 3, 4, 5, 6])
        lx, ly = rnd.randint(0, 8), rnd.randint(0, 8)
        xs = [rnd.randint(1, U) for _ in range(lx)]
        ys = [rnd.randint(1, U) for _ in range(ly)]
        if rnd.random() < 0.2:
            ys = list(xs)
            rnd.shuffle(ys)
        if rnd.random() < 0.15:
            ys = sorted(set(ys))
        X, Y = render(xs, rend), render(ys, rend)
        op = rnd.choice(ops2 + ["unique_idx", "unique", "unique_counts", "repeat"])
        try:
            ev.append(random_event(rnd, op, ops2, X, Y, xs))
        except Exception as e:
            ev.append({"op": "raised", "fn": op, "U": U, "x": xs, "y": ys, "order": "none", "cnt": [], "res": [], "resb": False,
                       "resi": [], "error": "%s: %s" % (type(e).__name__, str(e)[:80])})
    return ev


def random_event(rnd, op, ops2, X, Y, xs):
    ev = []
    if True:
        if op in ops2:
            ev.append(event_of(op, [X, Y], getattr(mset, op)(X, Y)))
        elif op == "unique_idx":
            ev.append(event_of(op, [X], mset.unique_idx(X)))
        elif op == "unique":
            ev.append(event_of(op, [X], mset.unique(X)))
        elif op == "unique_counts":
            order = rnd.choice([None, "ascending", "descending"])
            ev.append(event_of(op, [X], mset.unique_counts(X, order=order), {"order": order or "none"}))
        else:
            cnt = [rnd.randint(0, 3) for _ in xs]
            ev.append(event_of(op, [X], mset.repeat(X, np.array(cnt, dtype=np.int64)), {"cnt": cnt}))
    return ev[0]


def program_events(task):
    """wrap the mset functions while a real program run executes; every call with at most `maxrows` rows is an event"""
    import mchap.mset as M

    maxrows = task.get("maxrows", 250)
    cap = task.get("cap", 400)
    events = []
    skipped = [0]
    names = ["add", "subtract", "intercept", "union", "equal", "contains", "within", "unique_idx", "unique",
             "categorize", "count", "unique_counts", "repeat"]
    orig = {n: getattr(M, n) for n in names}

    def wrap(n):
        f = orig[n]

        def g(*a, **k):
            r = f(*a, **k)
            try:
                arrs = [np.asarray(x) for x in a]
                rows = sum(len(x) for x in arrs)
                if len(events) < cap and rows <= maxrows and rows > 0:
                    if n == "repeat":
                        events.append(event_of(n, [arrs[0]], r, {"cnt": ints(arrs[1])}))
                    elif n == "unique_counts":
                        order = k.get("order", a[1] if len(a) > 1 else None)
                        events.append(event_of(n, [arrs[0]], r, {"order": order or "none"}))
                    else:
                        events.append(event_of(n, arrs, r))
                else:
                    skipped[0] += 1
            except Exception as e:  # recording must never change behaviour
                skipped[0] += 1
            return r

        return g

    # unique / unique_counts call unique_idx / unique / count through the module globals: keep those internal calls
    # unwrapped by only patching the attributes the callers outside mset use
    import io
    import sys

    prog_name = task["prog"]
    if prog_name == "assemble":
        from mchap.application import assemble as APP
    elif prog_name == "call":
        from mchap.application import call as APP
    else:
        from mchap.application import call_pedigree as APP
    for n in names:
        setattr(M, n, wrap(n))
    try:
        with warnings.catch_warnings():
            warnings.simplefilter("ignore")
            with np.errstate(all="ignore"):
                prog = APP.program.cli(["mchap", prog_name] + list(task["argv"]))
                nloci = 0
                for locus in prog.loci():
                    prog.call_locus(locus, prog.sample_bams)
                    nloci += 1
    finally:
        for n in names:
            setattr(M, n, orig[n])
    return {"events": events, "skipped": skipped[0], "loci": nloci}


def run(task):
    op = task["op"]
    U = task.get("U", 3)
    if op in ("pairs", "triples"):
        c = Collector()
        n = 0
        nontriv = 0
        for st in task["states"]:
            if op == "pairs":
                pair_state(c, st, U)
                ov = sum(st["int"])
                if ov > 0 and not st["eq"]:
                    nontriv += 1
            else:
                triple_state(c, st, U)
            n += 1
        errs, seen = [], {}
        for e in c.errors:
            kk = (e["fn"], e["error"].split(":")[0])
            seen[kk] = seen.get(kk, 0) + 1
            if seen[kk] <= 3:
                errs.append(e)
        return {"n": n, "checks": c.checks, "bad": c.bad, "info": c.info, "errors": errs, "nerrors": len(c.errors),
                "nontrivial": nontriv}
    if op == "random":
        return random_events(task["n"], task["seed"])
    if op == "program":
        return program_events(task)
    raise ValueError(op)
