"""Implementation side of C13, wide loci: more than 127 (and more than 255) reported ALT haplotypes.

A task generates a population the way a user meets it: one locus with 8 or 9 biallelic SNVs and 70-140 samples
(read groups spread over a few BAM files), most samples carrying private haplotypes, a few sharing a common
haplotype or the reference.  `mchap assemble` is built from its command line on these files and the locus is run
  * "stub" runs: the real program.call_sample_genotypes / sumarise_vcf_record / format_vcf_record with DenovoMCMC
    replaced by a stub whose trace has a prescribed empirical posterior (dyadic counts), at several thresholds;
  * "mcmc" run: the real program.call_locus (real MCMC) with the traces returned by fit() captured.
Every run is returned as one event of TraceHapCalling.tla (same format as impl.c13.make_event); the verdict is
given by the trace specification, nothing is compared here.
"""
import os
import random
import shutil
import warnings
from fractions import Fraction

import numpy as np

from impl import c13

BURN = 2


def setup():
    c13.setup()


# ---- the generated population ----------------------------------------------------------------------
def hap_row(h, n):
    return [(h >> j) & 1 for j in range(n)]


def design(rnd, n_snv, n_samples, m, refmode, tetra=False, dense=False):
    """per sample: ploidy and posterior = list of (genotype as haplotype numbers, count out of m);
    haplotype number h > 0 is the row of its binary digits, 0 is the reference"""
    pool = list(range(1, 2 ** n_snv))
    rnd.shuffle(pool)
    common = [pool.pop() for _ in range(3)]
    used = []

    def fresh():
        if pool:
            h = pool.pop()
            used.append(h)
            return h
        return rnd.choice(used)          # universe exhausted: haplotypes become shared

    out = []
    for s in range(n_samples):
        if dense:      # nearly every sample calls two private haplotypes: allele numbers above 255 appear in GTs
            kind = rnd.choice(["certain"] * 8 + ["minor", "minor", "flat", "halfdot", "ref"])
        else:
            kind = rnd.choice(["certain"] * 5 + ["minor", "minor", "flat", "halfdot", "shared", "hom", "ref"])
        if kind == "ref" and refmode == "absent":
            kind = "certain"
        a, b = fresh(), fresh()
        while b == a:
            b = fresh()
        if kind == "certain":
            post = [([a, b], m)]
        elif kind == "minor":
            c = rnd.choice([m // 16, m // 8, m // 4] if m < 128 else [1, 2, m // 128, m // 16])      # m >= 128: occurrences below 0.01
            post = [([a, b], m - c), ([a, fresh()], c)]
        elif kind == "flat":
            post = [([a, b], m // 2), ([fresh(), fresh()], m // 4), ([fresh(), rnd.choice(common)], m // 4)]
        elif kind == "halfdot":
            post = [([a, b], m // 2 + m // 8), ([a, fresh()], m // 2 - m // 8)]
        elif kind == "shared":
            post = [([rnd.choice(common), a], m)]
        elif kind == "hom":
            post = [([a, a], m - m // 8), ([a, b], m // 8)]
        else:
            post = [([0, a], m - m // 4), ([0, 0], m // 4)] if refmode == "low" else [([0, a], m)]
        ploidy = 2
        if tetra and kind in ("certain", "minor") and rnd.random() < 0.15:
            # a few tetraploid samples: two more copies (a private and a common haplotype) in every genotype
            ploidy = 4
            extra = [b, rnd.choice(common)]
            post = [(g + extra, c) for g, c in post]
        out.append({"ploidy": ploidy, "post": [(g, c) for g, c in post if c > 0]})
    return out


def write_dataset(d, rnd, n_snv, samples, depth):
    from vlib import datasets

    os.makedirs(d, exist_ok=True)
    gap = 3
    start = 30
    length = start + gap * n_snv + 40
    seq = datasets._random_seq(rnd, length)
    contigs = [("W1", seq)]
    ref = os.path.join(d, "ref.fa")
    datasets.write_fasta(ref, contigs)
    pos = [start + 2 + gap * i for i in range(n_snv)]
    stop = pos[-1] + 3
    sites = [("W1", p, [seq[p], rnd.choice([b for b in "ACGT" if b != seq[p]])]) for p in pos]
    vcf = datasets.write_snv_vcf(os.path.join(d, "snvs.vcf"), contigs, sites)
    bed = os.path.join(d, "targets.bed")
    with open(bed, "w") as fh:
        fh.write("W1\t%d\t%d\tWIDE\n" % (start, stop))
    # samples are spread over three BAM files (read groups), as in a multiplexed run
    nb = 3
    bams = []
    for bi in range(nb):
        mine = [i for i in range(len(samples)) if i % nb == bi]
        rgs = [("rg_%d" % i, "W%03d" % i) for i in mine]
        reads = []
        for i in mine:
            g = samples[i]["post"][0][0]
            for r in range(depth):
                h = hap_row(g[r % len(g)], n_snv)
                chars = list(seq[start - 3: stop + 3])
                for p, site, a in zip(pos, sites, h):
                    chars[p - (start - 3)] = site[2][a]
                reads.append({"qname": "W%03d_r%d" % (i, r), "contig": "W1", "pos0": start - 3, "seq": "".join(chars),
                              "rg": "rg_%d" % i})
        bams.append(datasets.write_bam(os.path.join(d, "part%d.bam" % bi), contigs, rgs, reads))
    pf = os.path.join(d, "ploidy.txt")
    with open(pf, "w") as fh:
        for i, sm in enumerate(samples):
            fh.write("W%03d\t%d\n" % (i, sm["ploidy"]))
    return {"ref": ref, "vcf": vcf, "bed": bed, "bams": bams, "ploidy": pf, "names": ["W%03d" % i for i in range(len(samples))]}


def build_trace(rnd, sm, n_snv, m, chains):
    P = sm["ploidy"]
    steps = []
    for g, c in sm["post"]:
        for _ in range(c):
            r = [hap_row(h, n_snv) for h in g]
            rnd.shuffle(r)
            steps.append(r)
    rnd.shuffle(steps)
    junk = [[hap_row(2 ** n_snv - 1, n_snv)] * P] * BURN          # burnt steps: must not count
    per = m // chains
    return np.array([junk + steps[c * per: (c + 1) * per] for c in range(chains)], dtype=np.int8)


def run(task):
    rnd = random.Random(task["seed"])
    APP = c13.APP
    n_snv, n_samples = task["n_snv"], task["n_samples"]
    m = task.get("m", 16)
    # tetraploids only where the G-array length of the record, C(n_alt + 4, 4), stays a 32-bit number in the trace spec
    samples = design(rnd, n_snv, n_samples, m, task.get("refmode", "present"), tetra=(n_snv <= 8), dense=bool(task.get("dense")))
    d = os.path.join(os.getcwd(), "c13-wide-%d-%d" % (os.getpid(), task["seed"]))
    events = []
    try:
        ds = write_dataset(d, rnd, n_snv, samples, task.get("depth", 4))
        base_cmd = ["mchap", "assemble", "--bam"] + ds["bams"] + [
            "--ploidy", ds["ploidy"], "--targets", ds["bed"], "--variants", ds["vcf"], "--reference", ds["ref"],
            "--report", "AFP", "AOP"]
        with warnings.catch_warnings():
            warnings.simplefilter("ignore")
            # ---- stub runs: prescribed posteriors through the real assemble tail --------------------------
            chains = task.get("chains", 1)
            cmd = base_cmd + ["--mcmc-steps", str(BURN + m // chains), "--mcmc-burn", str(BURN), "--mcmc-chains", str(chains)]
            prog = APP.program.cli(cmd)
            locus = list(prog.loci())[0]
            base = prog._locus_data(locus, prog.sample_bams)
            prog.encode_sample_reads(base)
            order = list(base.samples)
            by_name = dict(zip(ds["names"], samples))
            traces = [build_trace(rnd, by_name[nm], n_snv, m, chains) for nm in order]
            for theta in task["thetas"]:
                th = Fraction(theta)
                argv = cmd + ["--haplotype-posterior-threshold", theta]
                try:
                    with np.errstate(all="ignore"):
                        line = c13.run_tail(prog, locus, base, traces, float(th))
                except Exception as e:
                    events.append({"program": "assemble", "locus": locus.name, "fatal": c13.exc_name(e), "wide": True,
                                   "argv": " ".join(argv[1:])})
                    continue
                ev = c13.make_event(prog, locus, traces, BURN, th, line, None, argv)
                ev["wide"] = "stub"
                events.append(ev)
            # ---- one real run: real MCMC, traces captured at fit() ---------------------------------------------
            if task.get("mcmc"):
                steps, burn, theta = task["mcmc"]
                th = Fraction(theta)
                cmd = base_cmd + ["--mcmc-steps", str(steps), "--mcmc-burn", str(burn), "--mcmc-seed", str(task["seed"] % 9973 + 1),
                                  "--haplotype-posterior-threshold", theta]
                prog = APP.program.cli(cmd)
                captured = []
                orig = APP.DenovoMCMC.fit

                def fit(self, *a, **k):
                    t = orig(self, *a, **k)
                    captured.append(np.array(t.genotypes).copy())
                    return t

                APP.DenovoMCMC.fit = fit
                try:
                    with np.errstate(all="ignore"):
                        line = prog.call_locus(locus, prog.sample_bams)
                    ev = c13.make_event(prog, locus, captured, burn, th, line, None, cmd)
                    ev["wide"] = "mcmc"
                    events.append(ev)
                except Exception as e:
                    events.append({"program": "assemble", "locus": locus.name, "fatal": c13.exc_name(e), "wide": True,
                                   "argv": " ".join(cmd[1:])})
                finally:
                    APP.DenovoMCMC.fit = orig
    finally:
        shutil.rmtree(d, ignore_errors=True)
    return events
