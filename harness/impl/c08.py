"""Implementation side of C08 (runs in a jit-mode worker process importing the tree under test).

ops
  replay   : spec -> code.  The REAL run_stdout / _run_stdout_multi_core / _run_stdout_single_core / _worker /
             _writer / _assemble_loci_wrapped of mchap.application.baseclass are executed on a stub program
             (header / loci / call_locus are stubs) with `baseclass.mp` replaced by a lock-step fake and
             sys.stdout by a recorder.  Every code thread stops at `gates` (entering call_locus, queue.put,
             queue.get, the writer's stdout.write, AsyncResult.get, Manager(), pool.close/join, task return,
             process exit) until the scheduler releases it for the model action that is next in the behaviour;
             after every action the projection of the real state must equal the model state.
  forkrun  : code -> spec.  The same stub program under the real multiprocessing (fork), with recording
             wrappers (inherited by the pool) appending events to one file per process; returns the
             per-task event sequences, the captured stdout and the exit status.
  reseed   : code -> spec for Reseed (see impl/c08rng.py)
"""
import json
import os
import sys
import threading
import time

import numpy as np

import mchap.application.baseclass as B
from mchap.io import Locus

HEADER = ["##h1", "#h2"]
LINE = "L%d\tpayload of locus %d"


def line_of(k):
    return LINE % (k, k)


def enc(text, newline):
    """line text -> model integer (header -1,-2; KILL 0; locus k); 99 = not a whole line"""
    if newline:
        if not text.endswith("\n") or text.count("\n") != 1:
            return 99
        text = text[:-1]
    if text == B.KILL_SIGNAL:
        return 0
    if text in HEADER:
        return -1 - HEADER.index(text)
    if text.startswith("L"):
        try:
            k = int(text[1:].split("\t")[0])
        except ValueError:
            return 99
        return k if text == line_of(k) else 99
    return 99


class StubProgram(B.program):
    """Minimal program: header / loci / call_locus are stubs, everything else is the code under test."""

    def header(self):
        return list(HEADER)

    def loci(self):
        cfg = self.cfg
        for k in range(1, cfg["nl"] + 1):
            hook = _HOOKS.get("load")
            if hook:
                hook(k)
            if cfg["kind"] == "load" and k == cfg["fail"]:
                raise ValueError("stub: cannot build locus %d" % k)
            yield Locus(contig="CTG", start=10 * k, stop=10 * k + 5, name="L%d" % k, sequence="AAAAA", variants=())

    def call_locus(self, locus, sample_bams):
        cfg = self.cfg
        k = int(locus.name[1:])
        hook = _HOOKS.get("call")
        if hook:
            hook(k)
        if cfg["kind"] == "call" and k == cfg["fail"]:
            raise ValueError("stub: locus %d fails" % k)
        return line_of(k)


_HOOKS = {}


def make_program(inst):
    p = StubProgram(vcf="", ref="", samples=[], sample_bams={}, sample_ploidy={}, sample_inbreeding={}, n_cores=inst["c"])
    p.cfg = {"nl": inst["nl"], "kind": inst["kind"], "fail": inst["fail"]}
    return p


# =====================================================================================================
# lock-step machinery
# =====================================================================================================
class Killed(BaseException):
    pass


class HarnessError(Exception):
    pass


class LockStep:
    def __init__(self, inst):
        self.inst = inst
        self.cv = threading.Condition()
        self.running = 0
        self.at = {}  # role -> (kind, info)
        self.sems = {}
        self.kill = set()
        self.local = threading.local()
        self.queue = []
        self.out = []
        self.buf = {"main": []}
        self.jobs = {}
        self.blocks = {}
        self.closed = False
        self.pool_size = None
        self.slots = 0
        self.pending = []
        self.notes = []

    # ---- called by code threads ----------------------------------------------------------------
    def role(self):
        return getattr(self.local, "role", None)

    def gate(self, kind, info=None):
        role = self.local.role
        with self.cv:
            self.at[role] = (kind, info)
            self.running -= 1
            self.cv.notify_all()
        self.sems[role].acquire()
        if role in self.kill:
            raise Killed()

    def flush(self, role):
        self.out.extend(self.buf[role])
        self.buf[role] = []

    def spawn(self, role, fn):
        self.sems[role] = threading.Semaphore(0)
        with self.cv:
            self.running += 1

        def body():
            self.local.role = role
            outcome = ("ok", None)
            try:
                fn()
            except Killed:
                outcome = ("killed", None)
            except BaseException as e:  # noqa: BLE001
                outcome = ("exc", e)
            with self.cv:
                self.at[role] = ("finished", outcome)
                self.running -= 1
                self.cv.notify_all()

        t = threading.Thread(target=body, daemon=True)
        t.start()

    # ---- called by the scheduler ------------------------------------------------------------------
    def wait_quiet(self, timeout=120.0):
        with self.cv:
            if not self.cv.wait_for(lambda: self.running == 0, timeout):
                raise HarnessError("threads did not reach a gate: running=%d at=%s" % (self.running, self.at))

    def release(self, role, kill=False):
        with self.cv:
            g = self.at.get(role)
            if g is None or g[0] == "finished":
                raise HarnessError("cannot release %s: %s" % (role, g))
            del self.at[role]
            self.running += 1
            if kill:
                self.kill.add(role)
        self.sems[role].release()
        self.wait_quiet()


class FakeQueue:
    def __init__(self, ls):
        self.ls = ls

    def put(self, item):
        self.ls.gate("put", item)
        self.ls.queue.append(item)

    def get(self):
        self.ls.gate("get")
        if not self.ls.queue:
            raise HarnessError("queue.get() released on an empty queue")
        return self.ls.queue.pop(0)


class FakeManager:
    def __init__(self, ls):
        self.ls = ls

    def Queue(self):
        return FakeQueue(self.ls)


class FakeResult:
    def __init__(self, ls, role):
        self.ls, self.role = ls, role
        self.exc = None

    def get(self, timeout=None):
        ls = self.ls
        w = self.role[1] if isinstance(self.role, tuple) else 0
        ls.gate("get_job", w)
        st = ls.jobs.get(w)
        if st == "failed":
            raise self.exc
        if st != "done":
            raise HarnessError("AsyncResult.get() released while the job is %s" % st)
        return None

    def wait(self, timeout=None):
        # same blocking point as get(), but the task's exception is not re-raised
        w = self.role[1] if isinstance(self.role, tuple) else 0
        self.ls.gate("get_job", w)
        if self.ls.jobs.get(w) not in ("done", "failed"):
            raise HarnessError("AsyncResult.wait() released while the job is %s" % self.ls.jobs.get(w))

    def ready(self):
        w = self.role[1] if isinstance(self.role, tuple) else 0
        return self.ls.jobs.get(w) in ("done", "failed")

    def successful(self):
        w = self.role[1] if isinstance(self.role, tuple) else 0
        return self.ls.jobs.get(w) == "done"


class FakePool:
    """n process slots; a task starts when a slot is free (the real pool hands queued tasks to idle processes)."""

    def __init__(self, ls, n):
        self.ls = ls
        ls.pool_size = n
        ls.slots = n
        self.nworkers = 0

    def apply_async(self, fn, args=()):
        ls = self.ls
        name = getattr(fn, "__name__", "?")
        if name == "_writer":
            role = "writer"
        else:
            self.nworkers += 1
            role = ("w", self.nworkers)
            ls.jobs[self.nworkers] = "running"
            try:
                ls.blocks[self.nworkers] = [int(l.name[1:]) for l in args[0]]
            except Exception as e:  # noqa: BLE001
                ls.blocks[self.nworkers] = "unreadable block: %r" % (e,)
        res = FakeResult(ls, role)

        def body():
            try:
                fn(*args)
            except Killed:
                raise
            except Exception as e:  # noqa: BLE001  (what multiprocessing's worker loop does: store and carry on)
                res.exc = e
                if role != "writer":
                    ls.jobs[role[1]] = "failed"
                else:
                    ls.notes.append("writer task raised %r" % (e,))
            else:
                ls.gate("ret")
                if role != "writer":
                    ls.jobs[role[1]] = "done"
            ls.gate("exit")  # idle pool process: exits (normally) once the pool is closed
            ls.flush(role)

        if ls.slots > 0:
            ls.slots -= 1
            ls.buf[role] = list(ls.buf["main"])  # forked with a copy of the parent's unflushed buffer
            ls.spawn(role, body)
        else:
            ls.pending.append((role, body))
            ls.notes.append("task %s queued: no free pool process" % (role,))
        return res

    def close(self):
        self.ls.gate("close")
        self.ls.closed = True

    def join(self):
        self.ls.gate("joinpool")

    def terminate(self):
        pass


class FakeMP:
    def __init__(self, ls):
        self.ls = ls

    def Manager(self):
        self.ls.gate("manager")
        self.ls.buf["manager"] = list(self.ls.buf["main"])
        return FakeManager(self.ls)

    def Pool(self, n=None):
        return FakePool(self.ls, n)


class RecStdout:
    def __init__(self, ls):
        self.ls = ls

    def write(self, s):
        ls = self.ls
        role = ls.role()
        if role is None:
            return len(s)
        if role == "writer" or (role == "main" and enc(s, True) >= 0):
            ls.gate("write", s)
        ls.buf[role].append(s)
        return len(s)

    def flush(self):
        ls = self.ls
        role = ls.role()
        if role is None:
            return
        if role == "main":
            ls.gate("flush")
        ls.flush(role)


# ---- model state (tuple Proj of MultiCore.tla) <-> implementation ---------------------------------
PM, JN, TODO, PW, PEND, JOB, PR, WL, Q, OUT, BM, BW, INH, CLOSED, EXC, EXIT = range(16)


def expected_gates(inst, s):
    """role -> expected (kind, info) for model state s (None = role must not exist / be parked)."""
    c = inst["c"]
    g = {}
    pm = s[PM]
    if pm == "start":
        g["main"] = ("begin", None)
    elif pm == "hdr":
        g["main"] = ("flush", None)
    elif pm == "flushed":
        g["main"] = ("manager", None)
    elif pm == "join":
        g["main"] = ("get_job", s[JN])
    elif pm == "kill":
        g["main"] = ("put", 0)
    elif pm == "close":
        g["main"] = ("close", None)
    elif pm == "joinpool":
        g["main"] = ("joinpool", None)
    elif pm == "returned":
        g["main"] = ("finished", "ok")
    elif pm in ("raised", "torn"):
        g["main"] = ("finished", {"locus": "LocusAssemblyError", "load": "ValueError"}[s[EXC]])
    elif pm == "s_next":
        g["main"] = ("load", s[TODO][0][0]) if s[TODO][0] else ("finished", "ok")
    elif pm == "s_write":
        g["main"] = ("write", s[PEND][0])
    elif pm == "exited":
        g["main"] = ("finished", "ok" if s[EXIT] == 0 else {"locus": "LocusAssemblyError", "load": "ValueError"}[s[EXC]])
    for w in range(1, c + 1):
        p = s[PW][w - 1]
        r = ("w", w)
        if p == "call":
            g[r] = ("call", s[TODO][w - 1][0])
        elif p == "put":
            g[r] = ("put", s[PEND][w - 1])
        elif p == "ret":
            g[r] = ("ret", None)
        elif p in ("done", "failed"):
            g[r] = ("exit", None)
        elif p == "exited":
            g[r] = ("finished", "ok")
        elif p == "killed":
            g[r] = ("finished", "killed")
    p = s[PR]
    if p == "get":
        g["writer"] = ("get", None)
    elif p == "write":
        g["writer"] = ("write", s[WL])
    elif p == "ret":
        g["writer"] = ("ret", None)
    elif p == "done":
        g["writer"] = ("exit", None)
    elif p == "exited":
        g["writer"] = ("finished", "ok")
    elif p == "killed":
        g["writer"] = ("finished", "killed")
    return g


def observed_gates(ls):
    g = {}
    for role, (kind, info) in ls.at.items():
        if kind == "finished":
            o, e = info
            g[role] = ("finished", "ok" if o == "ok" else ("killed" if o == "killed" else type(e).__name__))
        elif kind == "put":
            g[role] = ("put", enc(info, False))
        elif kind == "write":
            g[role] = ("write", enc(info, True))
        else:
            g[role] = (kind, info)
    return g


def compare(ls, inst, s, step, label):
    bad = []
    eg = expected_gates(inst, s)
    og = observed_gates(ls)
    if {str(k): v for k, v in eg.items()} != {str(k): v for k, v in og.items()}:
        bad.append({"field": "control-points", "model": {str(k): v for k, v in eg.items()}, "impl": {str(k): v for k, v in og.items()}})
    q = [enc(x, False) for x in ls.queue]
    if q != s[Q]:
        bad.append({"field": "queue", "model": s[Q], "impl": q})
    out = [enc(x, True) for x in ls.out]
    if out != s[OUT]:
        bad.append({"field": "out", "model": s[OUT], "impl": out})
    bm = [enc(x, True) for x in ls.buf["main"]]
    if bm != s[BM]:
        bad.append({"field": "buf-main", "model": s[BM], "impl": bm})
    if "writer" in ls.buf and s[PR] != "killed":
        bw = [enc(x, True) for x in ls.buf["writer"]]
        if bw != s[BW]:
            bad.append({"field": "buf-writer", "model": s[BW], "impl": bw})
    for role, b in ls.buf.items():
        if role in ("main", "writer"):
            continue
        alive = role == "manager" or (og.get(role, ("?",))[0] != "finished")
        if alive and role != "manager-exited":
            bb = [enc(x, True) for x in b]
            if bb != s[INH]:
                bad.append({"field": "buf-%s" % (role,), "model": s[INH], "impl": bb})
    jobs = [ls.jobs.get(w, "none") for w in range(1, inst["c"] + 1)]
    if jobs != s[JOB]:
        bad.append({"field": "jobs", "model": s[JOB], "impl": jobs})
    if bool(ls.closed) != bool(s[CLOSED]):
        bad.append({"field": "closed", "model": s[CLOSED], "impl": ls.closed})
    for b in bad:
        b["step"] = step
        b["action"] = label
    return bad


MAIN_ACTIONS = {"MainWriteHeader", "MainFlush", "MainStartPool", "MainJoin", "MainRaise", "MainPutKill", "MainClosePool",
                "SingleCall", "SingleWrite"}


def replay_one(inst, steps, sep_exit=True):
    """steps: list of (label, w, model_state_after).  Returns dict(n, bad)."""
    ls = LockStep(inst)
    prog = make_program(inst)
    saved_mp, saved_out = B.mp, sys.stdout
    single = not inst["multi"]
    bad = []
    nsteps = 0
    try:
        B.mp = FakeMP(ls)
        sys.stdout = RecStdout(ls)
        _HOOKS.clear()
        if single:
            _HOOKS["load"] = lambda k: ls.gate("load", k)
        else:
            _HOOKS["call"] = lambda k: ls.gate("call", k)

        def main_body():
            ls.gate("begin")
            if inst["multi"] and inst["c"] == 1:
                prog._run_stdout_multi_core()
            else:
                prog.run_stdout()

        ls.spawn("main", main_body)
        ls.wait_quiet()
        for i, (label, w, s) in enumerate(steps):
            if label in MAIN_ACTIONS:
                ls.release("main")
            elif label in ("WorkerCall", "WorkerPut", "WorkerReturn"):
                ls.release(("w", w))
            elif label in ("WriterGet", "WriterWrite", "WriterStop"):
                ls.release("writer")
            elif label == "ChildExit":
                ls.release("writer" if w == 0 else ("w", w))
            elif label == "MainJoinPool":
                if not sep_exit:
                    for r in ["writer"] + [("w", k) for k in range(1, inst["c"] + 1)]:
                        ls.release(r)
                ls.release("main")
            elif label == "SingleReturn":
                pass
            elif label == "Teardown":
                # multiprocessing's exit handler: pool.terminate().  The idle pool processes in the mask `w` see the
                # shutdown sentinel first and exit normally (flushing); everything else gets SIGTERM and does not flush
                for k in range(1, inst["c"] + 1):
                    if w & (1 << (k - 1)):
                        ls.release(("w", k))
                for r in list(ls.at):
                    if r != "main" and ls.at[r][0] != "finished":
                        ls.release(r, kill=True)
                        ls.buf[r] = []
            elif label in ("MainExit0", "MainExit1"):
                # interpreter exit: the manager's server process shuts down (flushing), then main's buffer is flushed
                if "manager" in ls.buf:
                    ls.flush("manager")
                    ls.buf["manager-exited"] = ls.buf.pop("manager")
                ls.flush("main")
            else:
                raise HarnessError("unknown action %s" % label)
            nsteps += 1
            b = compare(ls, inst, s, i, label)
            if label == "MainStartPool" and inst["multi"] and s[PM] == "join":
                blocks = [ls.blocks.get(w_) for w_ in range(1, inst["c"] + 1)]
                if blocks != s[TODO]:
                    b.append({"field": "blocks", "model": s[TODO], "impl": blocks, "step": i, "action": label})
                if ls.pending:
                    b.append({"field": "pool-size", "model": inst["c"] + 1, "impl": ls.pool_size, "step": i, "action": label})
            if b:
                bad.extend(b)
                break
        # terminal outcome
        if not bad and steps:
            s = steps[-1][2]
            fin = ls.at.get("main")
            if s[EXIT] == 0:
                ok = fin is not None and fin[0] == "finished" and fin[1][0] == "ok"
            else:
                ok = fin is not None and fin[0] == "finished" and fin[1][0] == "exc" and type(fin[1][1]).__name__ == (
                    "LocusAssemblyError" if s[EXC] == "locus" else "ValueError")
            if not ok:
                bad.append({"field": "outcome", "model": {"exit": s[EXIT], "exc": s[EXC]}, "impl": str(fin), "step": len(steps), "action": "exit"})
            if s[EXC] == "locus" and ok:
                e = fin[1][1]
                want = "'L%d'" % inst["fail"]
                if want not in str(e) or not isinstance(e.__cause__, ValueError):
                    bad.append({"field": "error-names-locus", "model": want, "impl": str(e), "step": len(steps), "action": "exit"})
    except HarnessError as e:
        bad.append({"field": "lockstep", "impl": str(e), "step": nsteps, "action": steps[nsteps][0] if nsteps < len(steps) else "?",
                    "notes": ls.notes})
    finally:
        # never leave threads parked
        try:
            for r in list(ls.at):
                if ls.at[r][0] != "finished":
                    ls.release(r, kill=True)
        except Exception:  # noqa: BLE001
            pass
        B.mp = saved_mp
        sys.stdout = saved_out
        _HOOKS.clear()
    return {"n": nsteps, "bad": bad}


def op_replay(task):
    """Two input forms:
    * graph form: {"insts": [...], "nodes": [[inst_index, state], ...], "edges": {"node|label|w": node}, "paths": [[node0, [[label, w], ...]], ...]}
      (the quotient state graph dumped by TLC; a path is looked up edge by edge - no model logic here)
    * explicit form: {"behaviours": [{"inst": .., "steps": [[label, w, state], ...]}, ...]} (simulated behaviours)"""
    import gc

    gc.collect()
    gc.freeze()  # the task (a large state graph) is long-lived: keep it out of the collector's way
    try:
        return _op_replay(task)
    finally:
        gc.unfreeze()


def _op_replay(task):
    res = {"n": 0, "steps": 0, "bad": [], "nontrivial": 0}
    sep = task.get("sep_exit", True)
    behs = []
    if "paths" in task:
        nodes, edges, insts = task["nodes"], task["edges"], task["insts"]
        for n0, labels in task["paths"]:
            inst = insts[nodes[n0][0]]
            steps, n = [], n0
            for a, w in labels:
                n = edges.get("%d|%s|%d" % (n, a, w))
                if n is None:
                    raise HarnessError("path leaves the dumped state graph at %s" % ((a, w),))
                steps.append((a, w, nodes[n][1]))
            behs.append((inst, steps))
    else:
        behs = [(b["inst"], [tuple(x) for x in b["steps"]]) for b in task["behaviours"]]
    for inst, steps in behs:
        r = replay_one(inst, steps, sep_exit=sep)
        if r["bad"] and r["bad"][0]["field"] == "lockstep" and "did not reach a gate" in r["bad"][0]["impl"]:
            # a thread got no CPU for two minutes (overloaded machine): once more before it counts
            res["retried"] = res.get("retried", 0) + 1
            r = replay_one(inst, steps, sep_exit=sep)
        res["n"] += 1
        res["steps"] += r["n"]
        if inst["fail"]:
            res["nontrivial"] += 1
        if r["bad"]:
            res["bad"].append({"inst": inst, "labels": [[x[0], x[1]] for x in steps], "bad": r["bad"], "steps": [list(x) for x in steps]})
            if len(res["bad"]) > 20:
                break
    return res


# =====================================================================================================
# real multiprocessing (fork) with recorders
# =====================================================================================================
class EventLog:
    """one ndjson file per process; every record is (role, seq, event, item)"""

    def __init__(self, d):
        self.d = d
        self.seq = {}

    def log(self, role, ev, item=None):
        pid = os.getpid()
        if role == "main" and pid != _MAIN_PID[0]:
            role = "proc:%d" % pid  # a child that never ran a task (idle pool process, manager server)
        k = (pid, role)
        n = self.seq.get(k, 0)
        self.seq[k] = n + 1
        with open(os.path.join(self.d, "%d.ndjson" % pid), "a") as fh:
            fh.write(json.dumps([role, n, ev, item, time.monotonic_ns()]) + "\n")


_LOG = None
_ROLE = ["main"]
_MAIN_PID = [0]


class RecQueue:
    """picklable wrapper around the real manager queue proxy"""

    def __init__(self, q):
        self.q = q

    def put(self, item):
        _LOG.log(_ROLE[0], "put_begin", enc(item, False))
        self.q.put(item)
        _LOG.log(_ROLE[0], "put", enc(item, False))

    def get(self):
        item = self.q.get()
        _LOG.log(_ROLE[0], "get", enc(item, False))
        return item


class RecResult:
    def __init__(self, r, w):
        self.r, self.w = r, w

    def get(self, timeout=None):
        try:
            v = self.r.get(timeout)
        except BaseException as e:  # noqa: BLE001
            _LOG.log("main", "job_raise", [self.w, type(e).__name__])
            raise
        _LOG.log("main", "job_ok", self.w)
        return v

    def wait(self, timeout=None):
        self.r.wait(timeout)
        _LOG.log("main", "job_wait", self.w)

    def ready(self):
        return self.r.ready()

    def successful(self):
        return self.r.successful()


class RecPool:
    def __init__(self, pool, n):
        self.pool, self.n = pool, n
        self.nw = 0

    def apply_async(self, fn, args=()):
        name = getattr(fn, "__name__", "?")
        if name == "_worker":
            self.nw += 1
            _LOG.log("main", "submit_worker", [self.nw, [int(l.name[1:]) for l in args[0]]])
            return RecResult(self.pool.apply_async(fn, args), self.nw)
        _LOG.log("main", "submit_writer", None)
        return RecResult(self.pool.apply_async(fn, args), 0)

    def close(self):
        self.pool.close()
        _LOG.log("main", "close", None)

    def join(self):
        self.pool.join()
        _LOG.log("main", "joinpool", None)


class RecManager:
    def __init__(self, m):
        self.m = m

    def Queue(self):
        return RecQueue(self.m.Queue())


class RecMP:
    def __init__(self, real):
        self.real = real

    def Manager(self):
        _LOG.log("main", "manager", None)
        return RecManager(self.real.Manager())

    def Pool(self, n=None):
        _LOG.log("main", "pool", n)
        return RecPool(self.real.Pool(n), n)


class TeeStdout:
    """logs write / flush, then delegates to the process's real buffered stdout"""

    def __init__(self, real):
        self.real = real

    def write(self, s):
        _LOG.log(_ROLE[0], "write", enc(s, True))
        return self.real.write(s)

    def flush(self):
        r = self.real.flush()
        _LOG.log(_ROLE[0], "flush", None)  # logged => flushed
        return r

    def __getattr__(self, k):
        return getattr(self.real, k)


class RecProgram(StubProgram):
    """the real _worker / _writer run inside these wrappers, which only set the role of the task and log its end"""

    def _worker(self, loci, queue):
        blk = [int(l.name[1:]) for l in loci]
        _ROLE[0] = "worker:" + ",".join(map(str, blk)) + ":" + str(os.getpid()) + ":" + str(time.monotonic_ns())
        _LOG.log(_ROLE[0], "start", blk)
        try:
            super()._worker(loci, queue)
        except BaseException as e:  # noqa: BLE001
            _LOG.log(_ROLE[0], "raise", type(e).__name__)
            raise
        _LOG.log(_ROLE[0], "return", None)

    def _writer(self, queue):
        _ROLE[0] = "writer"
        _LOG.log("writer", "start", None)
        super()._writer(queue)
        _LOG.log("writer", "return", None)

    def loci(self):
        k = 0
        try:
            for x in super().loci():
                k += 1
                yield x
        except Exception:
            _LOG.log(_ROLE[0], "load_fail", k + 1)
            raise

    def call_locus(self, locus, sample_bams):
        k = int(locus.name[1:])
        d = self.cfg.get("delays", {}).get(str(k), 0)
        if d:
            time.sleep(d / 1000.0)
        try:
            r = super().call_locus(locus, sample_bams)
        except Exception:
            _LOG.log(_ROLE[0], "call", [k, "fail"])
            raise
        _LOG.log(_ROLE[0], "call", [k, "ok"])
        return r


def op_forkrun(task):
    """Run one stubbed program under the real multiprocessing in a forked child of this worker; the child's fd 1 is a
    file, its exit status is the interpreter's own (uncaught exception -> 1)."""
    import io
    import shutil
    import traceback

    global _LOG
    inst = task["inst"]
    d = task["dir"]
    shutil.rmtree(d, ignore_errors=True)
    os.makedirs(d)
    outp = os.path.join(d, "stdout.txt")
    errp = os.path.join(d, "stderr.txt")
    pid = os.fork()
    if pid == 0:
        # ---- child: becomes the `main` process of the run -----------------------------------
        try:
            os.setsid()
            _MAIN_PID[0] = os.getpid()
            fo = os.open(outp, os.O_WRONLY | os.O_CREAT | os.O_TRUNC)
            fe = os.open(errp, os.O_WRONLY | os.O_CREAT | os.O_TRUNC)
            dn = os.open(os.devnull, os.O_RDONLY)
            os.dup2(dn, 0)
            os.dup2(fo, 1)
            os.dup2(fe, 2)
            sys.stdin = open(0, "r", closefd=False)
            sys.stderr = io.TextIOWrapper(io.FileIO(2, "w", closefd=False), line_buffering=True)
            real_out = io.TextIOWrapper(io.BufferedWriter(io.FileIO(1, "w", closefd=False), 8192))
            sys.__stdout__ = real_out
            _LOG = EventLog(d)
            sys.stdout = TeeStdout(real_out)
            B.mp = RecMP(B.mp)
            prog = RecProgram(vcf="", ref="", samples=[], sample_bams={}, sample_ploidy={}, sample_inbreeding={}, n_cores=inst["c"])
            prog.cfg = {"nl": inst["nl"], "kind": inst["kind"], "fail": inst["fail"], "delays": task.get("delays", {})}
            _ROLE[0] = "main"
            _LOG.log("main", "begin", None)
            code = 0
            try:
                if inst["multi"] and inst["c"] == 1:
                    prog._run_stdout_multi_core()
                else:
                    prog.run_stdout()
                _LOG.log("main", "returned", None)
            except BaseException as e:  # noqa: BLE001
                _LOG.log("main", "raised", type(e).__name__)
                traceback.print_exc()
                code = 1
        except BaseException:  # noqa: BLE001
            traceback.print_exc()
            code = 70
        # leave through the interpreter's normal exit path (atexit handlers of multiprocessing, std stream flush)
        sys.exit(code)
    # ---- parent ------------------------------------------------------------------------------
    t0 = time.time()
    status = None
    while time.time() - t0 < task.get("timeout", 60):
        p, st = os.waitpid(pid, os.WNOHANG)
        if p == pid:
            status = st
            break
        time.sleep(0.005)
    hung = status is None
    if hung:
        try:
            os.killpg(pid, 9)
        except ProcessLookupError:
            pass
        os.waitpid(pid, 0)
        code = -9
    else:
        code = os.waitstatus_to_exitcode(status)
    # the manager's server process may outlive main by a moment (it flushes when it shuts down)
    t1 = time.time()
    leftover = False
    while time.time() - t1 < 5:
        try:
            os.killpg(pid, 0)
        except ProcessLookupError:
            break
        time.sleep(0.005)
    else:
        leftover = True
        try:
            os.killpg(pid, 9)
        except ProcessLookupError:
            pass
    events = {}
    for fn in os.listdir(d):
        if fn.endswith(".ndjson"):
            with open(os.path.join(d, fn)) as fh:
                for ln in fh:
                    role, n, ev, item, t = json.loads(ln)
                    events.setdefault(role, []).append((n, ev, item, t))
    for r in events:
        events[r].sort()
    with open(outp) as fh:
        stdout = fh.read()
    with open(errp) as fh:
        stderr = fh.read()
    if not task.get("keep"):
        shutil.rmtree(d, ignore_errors=True)
    return {"inst": inst, "exit": code, "hung": hung, "leftover": leftover, "out": [enc(x, True) for x in stdout.splitlines(keepends=True)], "events": {r: [[e[1], e[2]] for e in v] for r, v in events.items()},
            "stdout": stdout, "stderr": stderr[-1500:], "wall": time.time() - t0}


def setup():
    pass


def run(task):
    op = task["op"]
    if op == "replay":
        return op_replay(task)
    if op == "forkrun":
        return op_forkrun(task)
    if op == "reseed":
        from impl import c08rng

        return c08rng.run(task)
    raise ValueError(op)
