"""Implementation side of C03 (call-exact): runs inside a worker importing the tree under test.

ops
  api           every instance -> posterior_mode (all flag combinations), genotype_likelihoods,
                genotype_posteriors, alternate_dosage_posteriors, posterior_allele_frequencies
  stream_trace  (py-mode) event trace of the streaming path, recorded by wrapping the module-level
                callables that `posterior_mode` looks up in mchap.calling.exact
  cli           `mchap call-exact` in-process (program.cli(argv).run_stdout()), with the path taken
                observed by wrapping the two entry points in mchap.application.call_exact
"""
import contextlib
import io
import itertools
import math
import os

import numpy as np

E = None


def setup():
    global E, J
    import mchap.calling.exact as E
    from mchap import jitutils as J


def build(inst):
    P, K, N = inst["P"], inst["K"], inst["N"]
    H = np.array(inst["H"], dtype=np.int8).reshape(K, N)      # the programs hold haplotypes as int8 (LocusPrior.encode_haplotypes)
    A = inst["A"]
    T = inst.get("tile", 1)
    if T > 1:
        # a long locus: the N SNV columns of haplotypes and reads repeated T times (CallModel!Tile)
        inst = dict(inst, reads=[dict(rd, cells=list(rd["cells"]) * T) for rd in inst["reads"]])
        H = np.tile(H, (1, T))
        A = list(A) * T
        N = N * T
    maxA = max(A) if N else 0
    R = len(inst["reads"])
    reads = np.zeros((R, N, maxA), dtype=np.float64)
    for r, rd in enumerate(inst["reads"]):
        for j, c in enumerate(rd["cells"]):
            for x in range(A[j]):
                reads[r, j, x] = np.nan if c < 0 else (0.875 if x == c else 0.125 / 3)
    counts = np.array([rd["cnt"] for rd in inst["reads"]], dtype=np.int64)
    w = np.array(inst["w"], dtype=np.float64)
    freqs = w / w.sum()
    F = inst["Fn"] / inst["Fd"]
    return P, K, H, reads, counts, freqs, F


def fl(x):
    return [float(v) for v in np.asarray(x).ravel()]


def api_one(inst, flag_sets):
    P, K, H, reads, counts, freqs, F = build(inst)
    out = {"variants": {}}
    variants = {"freq": freqs}
    if len(set(inst["w"])) == 1:
        variants["none"] = None  # flat prior given as frequencies=None
    for vname, fr in variants.items():
        o = {}
        pm = []
        for flags in flag_sets:
            res = E.posterior_mode(
                reads, P, H, read_counts=counts, inbreeding=F, frequencies=fr,
                return_support_prob=flags[0], return_posterior_frequencies=flags[1],
                return_posterior_occurrence=flags[2],
            )
            pm.append([fl(x) for x in res])
        o["pm"] = pm
        llks = E.genotype_likelihoods(reads, P, H, read_counts=counts)
        o["llk_dtype"] = str(llks.dtype)
        o["gl"] = fl(llks)
        probs = E.genotype_posteriors(llks, P, K, inbreeding=F, frequencies=fr)
        o["gp"] = fl(probs)
        idx = int(np.argmax(probs))
        alleles = J.index_as_genotype_alleles(idx, P)
        o["arr_idx"] = idx
        o["arr_gt"] = [int(a) for a in alleles]
        sg, sp = E.alternate_dosage_posteriors(alleles, probs)
        o["arr_supp_gen"] = [[int(a) for a in row] for row in sg]
        o["arr_supp"] = fl(sp)
        fq, cn, oc = E.posterior_allele_frequencies(probs, P, K)
        o["arr_afp"], o["arr_acp"], o["arr_aop"] = fl(fq), fl(cn), fl(oc)
        out["variants"][vname] = o
    # counts as duplication: the same reads repeated, read_counts=None
    if len(counts):
        rep = np.repeat(reads, counts, axis=0)
        res = E.posterior_mode(rep, P, H, read_counts=None, inbreeding=F, frequencies=freqs,
                               return_support_prob=True, return_posterior_frequencies=True,
                               return_posterior_occurrence=True)
        out["expanded"] = [fl(x) for x in res]
    return out


def rank(g):
    return sum(math.comb(a + i, i + 1) for i, a in enumerate(g))


def q6(x):
    x = float(x)
    if math.isnan(x):
        return -1
    return int(round(x * 1000000))


def stream_trace(inst):
    """py-mode: record the steps of posterior_mode (all outputs requested)."""
    P, K, H, reads, counts, freqs, F = build(inst)
    calls = []  # (genotype, lprior)
    llks = []
    inner = {}
    orig_prior, orig_llk, orig_mode = E.log_genotype_prior, E.log_likelihood, E._call_posterior_mode

    def prior(genotype, *a, **k):
        v = orig_prior(genotype, *a, **k)
        calls.append(([int(x) for x in genotype], float(v)))
        return v

    def llk(*a, **k):
        v = orig_llk(*a, **k)
        llks.append(float(v))
        return v

    def mode(*a, **k):
        res = orig_mode(*a, **k)
        inner["mode"] = ([int(x) for x in res[0]], float(res[2]), float(res[3]), len(calls))
        return res

    E.log_genotype_prior, E.log_likelihood, E._call_posterior_mode = prior, llk, mode
    try:
        res = E.posterior_mode(reads, P, H, read_counts=counts, inbreeding=F, frequencies=freqs,
                               return_support_prob=True, return_posterior_frequencies=True,
                               return_posterior_occurrence=True)
    finally:
        E.log_genotype_prior, E.log_likelihood, E._call_posterior_mode = orig_prior, orig_llk, orig_mode
    mode_g, mode_lj, total_lj, n1 = inner["mode"]
    NG = math.comb(K + P - 1, P)
    ev = [{"op": "start", "P": P, "Fn": inst["Fn"], "Fd": inst["Fd"], "H": inst["H"], "A": inst["A"],
           "w": inst["w"], "reads": inst["reads"], "tile": inst.get("tile", 1)}]
    for i in range(n1):
        g, lp = calls[i]
        lj = llks[i] + lp
        ev.append({"op": "visit1", "idx": i, "g": g, "pq": q6(math.exp(lj - total_lj)) if lj > -math.inf else 0})
    ev.append({"op": "mode", "idx": rank(mode_g), "gpm": q6(res[2])})
    n2 = len(calls) - NG
    for i in range(n1, n2):
        ev.append({"op": "supp", "g": calls[i][0]})
    ev.append({"op": "spm", "spm": q6(res[3])})
    for i in range(n2, len(calls)):
        ev.append({"op": "visit2", "idx": i - n2, "g": calls[i][0]})
    ev.append({"op": "result", "afp": [q6(x) for x in res[4]], "aop": [q6(x) for x in res[5]]})
    return ev


def cli(task):
    import mchap.application.call_exact as CE

    seen = {"stream": 0, "array": 0}
    o_pm, o_gl = CE.posterior_mode, CE.genotype_likelihoods

    def pm(*a, **k):
        seen["stream"] += 1
        return o_pm(*a, **k)

    def gl(*a, **k):
        seen["array"] += 1
        return o_gl(*a, **k)

    CE.posterior_mode, CE.genotype_likelihoods = pm, gl
    buf = io.StringIO()
    try:
        with contextlib.redirect_stdout(buf):
            CE.program.cli(task["argv"]).run_stdout()
    finally:
        CE.posterior_mode, CE.genotype_likelihoods = o_pm, o_gl
    return {"stdout": buf.getvalue(), "seen": seen}


def _qe(p):
    """probability -> (q, e): q = round(p * 10^(9+e)), 10^8 <= q < 10^9 (q = e = 0 for p = 0)"""
    p = float(p)
    if not (p > 0.0) or math.isnan(p):
        return (0, 0) if p == 0.0 else (-1, 0)
    l10 = math.log10(min(p, 2.0))
    e = max(0, int(math.floor(-l10)))
    q = int(round(10.0 ** (l10 + 9 + e)))
    if q >= 10**9 and e > 0:
        e -= 1
        q = int(round(10.0 ** (l10 + 9 + e)))
    if q < 10**8 and l10 < 0:
        e += 1
        q = int(round(10.0 ** (l10 + 9 + e)))
    return min(q, 2 * 10**9 - 1), e


def wide(inst):
    """both call-exact paths on a locus with tens of thousands of genotypes and reads that carry no information
    (every cell a gap): events for TraceWidePosterior.tla"""
    P, K, seed = inst["P"], inst["K"], inst["seed"]
    rnd = np.random.RandomState(seed)
    N = max(1, int(math.ceil(math.log2(max(K, 2)))))
    H = np.array([[(k >> j) & 1 for j in range(N)] for k in range(K)], dtype=np.int8)
    reads = np.full((inst["R"], N, 2), np.nan, dtype=np.float64)
    counts = np.array([1 + (r % 3) for r in range(inst["R"])], dtype=np.int64)
    w = np.array(inst["n"], dtype=np.float64)
    freqs = None if inst.get("flat_none") else w / w.sum()
    F = inst["fn"] / inst["fd"]
    ev = [{"op": "begin", "P": P, "K": K, "fn": inst["fn"], "fd": inst["fd"], "n": inst["n"], "m": int(sum(inst["n"]))}]
    llks = E.genotype_likelihoods(reads, P, H, read_counts=counts)
    probs = np.asarray(E.genotype_posteriors(llks, P, K, inbreeding=F, frequencies=freqs), dtype=np.float64)
    n = len(probs)
    top = int(np.argmax(probs))
    pick = sorted({0, 1, n - 1, n - 2, n // 2, top, 65535 % n, 65536 % n, 65537 % n} | {int(x) for x in rnd.randint(0, n, size=inst["n_pick"])})
    for i in pick:
        g = [int(a) for a in J.index_as_genotype_alleles(i, P)]
        q, e = _qe(probs[i])
        ev.append({"op": "gp", "path": "array", "i": i, "g": g, "q": q, "e": e})
    ev.append({"op": "sum", "path": "array", "q9": int(min(round(float(np.nansum(probs)) * 1e9), 2 * 10**9)), "cnt": int(n)})
    gt = [int(a) for a in J.index_as_genotype_alleles(top, P)]
    q, e = _qe(probs[top])
    ev.append({"op": "mode", "path": "array", "g": gt, "q": q, "e": e})
    res = E.posterior_mode(reads, P, H, read_counts=counts, inbreeding=F, frequencies=freqs, return_support_prob=True,
                           return_posterior_frequencies=True, return_posterior_occurrence=True)
    q, e = _qe(float(res[2]))
    ev.append({"op": "mode", "path": "stream", "g": sorted(int(a) for a in res[0]), "q": q, "e": e})
    return ev


def run(task):
    op = task["op"]
    if op == "wide":
        return [wide(i) for i in task["insts"]]
    if op == "api":
        flag_sets = list(itertools.product([False, True], repeat=3)) if task.get("all_flags", True) else [
            (False, False, False), (True, True, True)]
        return [api_one(i, flag_sets) for i in task["insts"]]
    if op == "stream_trace":
        return [stream_trace(i) for i in task["insts"]]
    if op == "cli":
        return cli(task)
    raise ValueError(op)
