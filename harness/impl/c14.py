"""Implementation side of C14: trace / posterior classes and mset on TLC-chosen traces.

Every TLC state of TraceSummary.tla (a complete stored trace, a burn-in, a relabelling and the
model's summary `sm`) is turned into the real objects; every summary method is called and compared
with the model.  Counts are compared as integers (probability * n must be an integer within 1e-9).
Where the model lists a set (ties), membership is required.
"""
import itertools
import math

import numpy as np

EPS = 1e-9


def setup():
    global AC, CC, PC, mset
    from mchap.assemble import classes as AC
    from mchap.calling import classes as CC
    from mchap.pedigree import classes as PC
    from mchap import mset


# ---- helpers -------------------------------------------------------------------
# Embedding of the model's small haplotypes into loci with many SNVs: EMB = (constant columns in front, behind).
# The embedding is injective and leaves every equality between haplotypes unchanged, so every summary functional of
# the model applies verbatim to the wide trace ("all traces (chains x steps x ploidy x SNVs)").
EMB = (0, 0)


def n_core(k):
    return 2 if k <= 4 else 3


def n_snv(k):
    return n_core(k) + EMB[0] + EMB[1]


def hap_row(h, k):
    n = n_core(k)
    return [0] * EMB[0] + [(h >> (n - 1 - j)) & 1 for j in range(n)] + [1] * EMB[1]


def row_id(row):
    row = list(row)
    row = row[EMB[0]: len(row) - EMB[1]]
    v = 0
    for x in row:
        v = v * 2 + int(x)
    return v


def as_count(p, n):
    """probability -> integer count, or None when p*n is not an integer."""
    v = float(p) * n
    if not math.isfinite(v):
        return None
    r = round(v)
    if abs(v - r) > EPS * max(1.0, abs(v)):
        return None
    return int(r)


def colex_genotypes(k, p):
    gs = list(itertools.combinations_with_replacement(range(k), p))
    gs.sort(key=lambda g: tuple(reversed(g)))
    return gs


def theta_safe(th, n_chain):
    """boundaries are decided in floating point by the code: use a threshold only if it cannot
    coincide with a non-dyadic mass (DESIGN 2.4)"""
    num, den = th
    if n_chain & (n_chain - 1) == 0:
        return True  # dyadic masses: float arithmetic is exact
    return (num * n_chain) % den != 0


class Cmp:
    def __init__(self, state, mode):
        self.state = state
        self.mode = mode
        self.bad = []
        self.n = 0
        self.feature_suffix = None

    def check(self, site, ok, impl, model, feature=None):
        self.n += 1
        if not ok:
            self.bad.append({"site": site, "feature": feature, "impl": impl, "model": model, "embedding": self.feature_suffix})


def bag_of_rows(g):
    return tuple(sorted(row_id(r) for r in g))


def bag_of_alleles(g):
    return tuple(sorted(int(x) for x in g))


def compare_posterior(c, site, genos, probs, sm, to_bag, n):
    got = {}
    dup = False
    for g, p in zip(genos, probs):
        bg = to_bag(g)
        if bg in got:
            dup = True
        got[bg] = as_count(p, n)
    want = {tuple(g): cnt for g, cnt in sm["post"]}
    c.check(site, (not dup) and got == want, {"post": sorted(got.items()), "dup": dup}, sorted(want.items()))


def check_incongruence(c, site, trace, sm, thetas, n_chain):
    """sm["inc"][q]: the flags the functional admits at thetas[q].  sm["incD8"][q] (haplotype traces): the flags under the
    reading of the open finding D8 (bound = size of the first compared chain's support instead of the ploidy) - never
    admitted, it only names the mismatch: a flag that reading does not produce either is a different failure
    (feature suffix -notD8), so that it cannot hide behind the listed finding."""
    d8 = sm.get("incD8") if site.startswith("GenotypeMultiTrace.") else None
    for qi, (th, allowed) in enumerate(zip(thetas, sm["inc"])):
        if not theta_safe(th, n_chain):
            continue
        v = trace.replicate_incongruence(th[0] / th[1])
        feature = None
        if int(v) not in allowed:
            feature = "flag%d-model%s" % (int(v), "".join(str(a) for a in sorted(allowed)))
            if d8 is not None and int(v) not in d8[qi]:
                feature += "-notD8"
        c.check(site, int(v) in allowed, {"theta": th, "flag": int(v)}, {"allowed": sorted(allowed)}, feature)


def check_mset(c, flat, to_bag, sm, k, p, make):
    """mset.unique_counts / count / categorize on the retained steps."""
    n = sm["n"]
    want = {tuple(g): cnt for g, cnt in sm["post"]}
    cats, counts = mset.unique_counts(flat)
    got = {to_bag(g): int(x) for g, x in zip(cats, counts)}
    c.check("mset.unique_counts", got == want and len(cats) == len(want), sorted(got.items()), sorted(want.items()))
    allg = colex_genotypes(k, p)
    catarr = np.array([make(g) for g in allg], dtype=flat.dtype)
    cnt = mset.count(flat, catarr)
    exp = [want.get(g, 0) for g in allg]
    c.check("mset.count", [int(x) for x in cnt] == exp, [int(x) for x in cnt], exp)
    lab = mset.categorize(flat, catarr)
    c.check("mset.categorize", [int(x) for x in lab] == list(sm["ranks"]), [int(x) for x in lab], sm["ranks"])
    # categories with every other genotype removed: absent -> -1
    keep = list(range(0, len(allg), 2))
    lab2 = mset.categorize(flat, catarr[keep])
    exp2 = [(r // 2 if r % 2 == 0 else -1) for r in sm["ranks"]]
    c.check("mset.categorize", [int(x) for x in lab2] == exp2, [int(x) for x in lab2], exp2, "absent-category")
    c.check("retained-steps", len(flat) == n, int(len(flat)), n)


def check_allele_trace(c, trace, sm, thetas, k_rel, n_chain, prefix=""):
    """trace: GenotypeAllelesMultiTrace already burnt (and relabelled)."""
    n, P, K = sm["n"], sm["ploidy"], sm["nAllele"]
    post = trace.posterior()
    compare_posterior(c, prefix + "GenotypeAllelesMultiTrace.posterior", post.genotypes, post.probabilities, sm, bag_of_alleles, n)
    sorted_ok = all(list(g) == sorted(g) for g in post.genotypes.tolist())
    c.check(prefix + "GenotypeAllelesMultiTrace.posterior", sorted_ok, post.genotypes.tolist(), "ascending alleles", "sorted")
    modes = {tuple(m) for m in sm["modes"]}
    maxc = max(cnt for _, cnt in sm["post"])
    g, p = post.mode()
    c.check(prefix + "PosteriorGenotypeAllelesDistribution.mode", bag_of_alleles(g) in modes and as_count(p, n) == maxc,
            [bag_of_alleles(g), float(p)], {"modes": sorted(modes), "count": maxc})
    calls = {(tuple(cl[0]), cl[1], cl[2]) for cl in sm["calls"]}
    g, p, sp = post.mode(genotype_support=True)
    obs = (bag_of_alleles(g), as_count(p, n), as_count(sp, n))
    c.check(prefix + "PosteriorGenotypeAllelesDistribution.mode(genotype_support)", obs in calls, list(obs), sorted(calls))
    fr, ct, oc = trace.posterior_frequencies()
    ok = len(fr) == K and len(ct) == K and len(oc) == K
    if ok:
        got_c = [as_count(x, n) for x in ct]
        got_f = [as_count(x * P, n) for x in fr]
        got_o = [as_count(x, n) for x in oc]
        ok = got_c == list(sm["acount"]) and got_f == list(sm["acount"]) and got_o == list(sm["occ"])
    c.check(prefix + "GenotypeAllelesMultiTrace.posterior_frequencies", ok,
            {"freq": [float(x) for x in fr], "count": [float(x) for x in ct], "occ": [float(x) for x in oc]},
            {"acount": sm["acount"], "occ": sm["occ"], "n": n})
    arr = post.as_array(K)
    nz = sorted((int(i), as_count(arr[i], n)) for i in np.nonzero(arr)[0])
    c.check(prefix + "PosteriorGenotypeAllelesDistribution.as_array",
            len(arr) == sm["arrLen"] and nz == sorted((a, b) for a, b in sm["arr"]),
            {"len": int(len(arr)), "nonzero": nz}, {"len": sm["arrLen"], "nonzero": sorted(sm["arr"])})
    check_incongruence(c, prefix + "GenotypeAllelesMultiTrace.replicate_incongruence", trace, sm, thetas, n_chain)
    flat = trace.genotypes.reshape(-1, P)
    check_mset(c, flat, bag_of_alleles, sm, K, P, lambda g: list(g))


def run_state(st, mode, c):
    kind, ps, K, C, S, b = st["kind"], st["ps"], st["k"], st["c"], st["s"], st["b"]
    thetas = st["thetas"]
    sm = st["sm"]
    tr = st["tr"]
    if kind == "hap":
        P = ps[0]
        nv = n_snv(K)
        g = np.array([[[hap_row(h, K) for h in tr[ci][si][0]] for si in range(S)] for ci in range(C)], dtype=np.int8)
        g_in = g.copy()
        t = AC.GenotypeMultiTrace(g, np.zeros((C, S)))
        c.check("GenotypeMultiTrace.__post_init__", np.array_equal(g, g_in), "input mutated", "input untouched", "aliasing")
        # history: summaries asked of the un-burnt trace first must not leak into the burnt one (every second state)
        if (S + b + sum(sum(x[0]) for ch in tr for x in ch)) % 2 == 0:
            _ = t.posterior()
            _ = t.posterior().mode()
            _ = t.split()
        tb = t.burn(b)
        s0 = sm[0]
        n = s0["n"]
        c.check("GenotypeMultiTrace.burn", tb.genotypes.shape == (C, S - b, P, nv) and tb.llks.shape == (C, S - b),
                list(tb.genotypes.shape), [C, S - b, P, nv])
        # retained cells are exactly steps b+1..S of each chain (as bags)
        want_cells = [[tuple(sorted(tr[ci][si][0])) for si in range(b, S)] for ci in range(C)]
        got_cells = [[bag_of_rows(tb.genotypes[ci, si]) for si in range(S - b)] for ci in range(C)]
        c.check("GenotypeMultiTrace.burn", got_cells == want_cells, got_cells, want_cells, "cells")
        post = tb.posterior()
        compare_posterior(c, "GenotypeMultiTrace.posterior", post.genotypes, post.probabilities, s0, bag_of_rows, n)
        modes = {tuple(m) for m in s0["modes"]}
        maxc = max(cnt for _, cnt in s0["post"])
        gm, pm = post.mode()
        c.check("PosteriorGenotypeDistribution.mode", bag_of_rows(gm) in modes and as_count(pm, n) == maxc,
                [bag_of_rows(gm), float(pm)], {"modes": sorted(modes), "count": maxc})
        ms = post.mode_genotype_support()
        got_members = sorted((bag_of_rows(x), as_count(p, n)) for x, p in zip(ms.genotypes, ms.probabilities))
        want_sets = [sorted((tuple(m[0]), m[1]) for m in u["members"]) for u in s0["modeSupports"]]
        c.check("PosteriorGenotypeDistribution.mode_genotype_support", got_members in want_sets, got_members, want_sets)
        al = sorted(row_id(r) for r in ms.alleles())
        c.check("GenotypeSupportDistribution.alleles", al in [sorted(u["alleles"]) for u in s0["modeSupports"]], al,
                [sorted(u["alleles"]) for u in s0["modeSupports"]])
        calls = {(tuple(cl[0]), cl[1], cl[2]) for cl in s0["calls"]}
        gc, pc = ms.mode_genotype()
        obs = (bag_of_rows(gc), as_count(pc, n), as_count(ms.probabilities.sum(), n))
        c.check("GenotypeSupportDistribution.mode_genotype", obs in calls, list(obs), sorted(calls))
        for dosage in (False, True):
            haps, fr, oc = post.allele_frequencies(dosage=dosage)
            ids = [row_id(r) for r in haps]
            want_ids = [a for a in range(K) if s0["occ"][a] > 0]
            got_f = {i: as_count(x * (1 if dosage else P), n) for i, x in zip(ids, fr)}
            got_o = {i: as_count(x, n) for i, x in zip(ids, oc)}
            ok = (sorted(ids) == want_ids and len(set(ids)) == len(ids)
                  and all(got_f[i] == s0["acount"][i] and got_o[i] == s0["occ"][i] for i in ids))
            c.check("PosteriorGenotypeDistribution.allele_frequencies", ok,
                    {"haps": ids, "freq": [float(x) for x in fr], "occ": [float(x) for x in oc], "dosage": dosage},
                    {"acount": s0["acount"], "occ": s0["occ"], "n": n})
        check_incongruence(c, "GenotypeMultiTrace.replicate_incongruence", tb, s0, thetas, S - b)
        flat = tb.genotypes.reshape(-1, P, nv)
        check_mset(c, flat, bag_of_rows, s0, K, P, lambda gg: [hap_row(h, K) for h in gg])
    elif kind == "allele":
        P = ps[0]
        g = np.array([[tr[ci][si][0] for si in range(S)] for ci in range(C)], dtype=np.int8)
        t = CC.GenotypeAllelesMultiTrace(g, np.zeros((C, S)), K)
        tb = t.burn(b)
        c.check("GenotypeAllelesMultiTrace.burn", tb.genotypes.shape == (C, S - b, P) and tb.llks.shape == (C, S - b)
                and np.array_equal(tb.genotypes, g[:, b:]), list(tb.genotypes.shape), [C, S - b, P])
        lab = st["lab"]
        if lab != list(range(K)):
            tb = tb.relabel(np.array(lab))
            c.check("GenotypeAllelesMultiTrace.relabel", tb.n_allele == sm[0]["nAllele"], int(tb.n_allele), sm[0]["nAllele"])
        check_allele_trace(c, tb, sm[0], thetas, K, S - b)
    elif kind == "ped":
        N = len(ps)
        maxp = max(ps)
        # unused cells of lower-ploidy individuals: any negative filler (the sampler keeps the caller's; -1 and -2 both occur)
        g = np.full((C, S, N, maxp), -1 if (C + S + b + N) % 2 == 0 else -2, dtype=np.int16)
        for ci in range(C):
            for si in range(S):
                for i in range(N):
                    g[ci, si, i, : ps[i]] = tr[ci][si][i]
        pt = PC.PedigreeAllelesMultiTrace(g, n_allele=K)
        pb = pt.burn(b)
        c.check("PedigreeAllelesMultiTrace.burn", pb.genotypes.shape == (C, S - b, N, maxp) and np.array_equal(pb.genotypes, g[:, b:]),
                list(pb.genotypes.shape), [C, S - b, N, maxp])
        for i in range(N):
            ti = pb.individual(i)
            c.check("PedigreeAllelesMultiTrace.individual", ti.genotypes.shape == (C, S - b, ps[i]) and ti.n_allele == K,
                    list(ti.genotypes.shape), [C, S - b, ps[i]])
            if ti.genotypes.shape == (C, S - b, ps[i]):
                check_allele_trace(c, ti, sm[i], thetas, K, S - b, prefix="individual:")
    else:
        raise ValueError(kind)
    return c


def state_features(st):
    """non-triviality facts about a model state (counted by the check)"""
    f = []
    for s in st["sm"]:
        if len(s["modes"]) > 1:
            f.append("tied-mode")
        if len(s["modeSupports"]) > 1:
            f.append("tied-support")
        if any(len(a) > 1 for a in s["inc"]):
            f.append("inc-relational")
        if any(a != [0] for a in s["inc"]):
            f.append("inc-nonzero")
        if any(2 in a for a in s["inc"]):
            f.append("inc-2")
        if len(s["post"]) > 1:
            f.append("multi-genotype")
        modes = {tuple(m) for m in s["modes"]}
        if not any(tuple(cl[0]) in modes for cl in s["calls"]):
            f.append("call-differs-from-mode")
    if st["kind"] == "hap" and any(list(g[0]) != sorted(g[0]) for ch in st["tr"] for g in ch):
        f.append("unsorted-storage")
    if st["b"] > 0:
        f.append("burn>0")
    return f


def run(task):
    op = task["op"]
    if op == "states":
        out = {"n": 0, "checks": 0, "bad": [], "errors": [], "features": {}, "nontrivial": 0}
        for st in task["states"]:
            c = Cmp(st, task.get("mode", "jit"))
            try:
                with np.errstate(all="ignore"):
                    run_state(st, task.get("mode", "jit"), c)
                    # every wide_every-th haplotype-trace state is also replayed embedded in a locus of 60+ SNVs
                    if st["kind"] == "hap" and task.get("wide_every") and out["n"] % task["wide_every"] == 0:
                        global EMB
                        for emb in ((60, 0), (0, 57), (33, 30)):
                            EMB = emb
                            try:
                                c.feature_suffix = "wide%d+%d" % emb
                                run_state(st, task.get("mode", "jit"), c)
                            finally:
                                EMB = (0, 0)
                                c.feature_suffix = None
                        out["wide"] = out.get("wide", 0) + 1
            except Exception as e:  # an exception inside a summary method is a finding, not a crash
                import traceback

                out["errors"].append({"state": st, "error": "%s: %s" % (type(e).__name__, e),
                                      "tb": traceback.format_exc()[-1200:]})
            out["n"] += 1
            out["checks"] += c.n
            fs = state_features(st)
            for f in fs:
                out["features"][f] = out["features"].get(f, 0) + 1
            if "multi-genotype" in fs:
                out["nontrivial"] += 1
            for bd in c.bad:
                if len(out["bad"]) < 400:
                    bd["state"] = st            # complete model state (with the model's summary): replayable
                    out["bad"].append(bd)
                else:
                    out["bad_overflow"] = out.get("bad_overflow", 0) + 1
        return out
    if op == "programs":
        from impl import c14_programs

        return c14_programs.run(task)
    raise ValueError(op)


def slim(st):
    return {k: st[k] for k in ("kind", "ps", "k", "c", "s", "b", "lab", "tr")}
