"""Implementation side of C06 (runs inside a worker importing the tree under test).

ops
  replay  : TLC states (stream + model output per configuration class) -> generated BAMs ->
            extract_read_variants(read_dicts=True) for every configuration, subset requests,
            encode_sample_reads for units and pools; compared here against the model output
            carried in the task, mismatches returned.
  record  : code -> spec.  Real BAMs (the repository's, or seeded random ones) are read by the
            implementation and, independently, abstracted by the SAM-text walker; returns the
            trace events for TraceReadExtract.tla.
  cli     : `mchap assemble` / `call-exact` argument parsing + encode_sample_reads (+ full run,
            FORMAT fields parsed from stdout) on a generated data set.
"""
import io
import os
import random
import shutil
import sys
import contextlib

import numpy as np

ERR = 0.125  # base error rate used everywhere (exact in binary)


def _qn(q):
    """row key of the read dictionary as text (the documented key is the read name; anything else must show up as a
    mismatch with the model's rows, not as a failure of the harness)"""
    return q if isinstance(q, str) else repr(q)


def setup():
    global pysam, bamgen, samwalk, extract_read_variants, Locus, read_bed4, assemble, call_exact, FORMAT, baseclass
    import pysam
    from vlib import bamgen, samwalk
    from mchap.io import extract_read_variants, Locus
    from mchap.io.loci import read_bed4
    from mchap.application import assemble, call_exact, baseclass
    import mchap.io.vcf.formatfields as FORMAT


MODEL_RGS = [("a1", "A"), ("a2", "A"), ("b1", "B")]
MODEL_ALLELES = [("A", ("C",)), ("C", ("A", "T"))]


def decode_cfg(cid):
    return {
        "minq": 30 if cid & 32 else 20,
        "kd": bool(cid & 16),
        "kq": bool(cid & 8),
        "ks": bool(cid & 4),
        "field": "ID" if cid & 2 else "SM",
        "layout": "split" if cid & 1 else "one",
    }


def file_of(rg, layout):
    return 2 if (layout == "split" and rg == "a2") else 1


class DataSet:
    """Reference, SNV file, BED and locus for one geometry."""

    def __init__(self, d, rng, alleles, spacing=None):
        os.makedirs(d, exist_ok=True)
        self.dir = d
        self.alleles = alleles
        self.geom = bamgen.Geometry.build(rng, [a[0] for a in alleles], **({"spacing": tuple(spacing)} if spacing else {}))
        g = self.geom
        self.contigs = {g.contig: len(g.ref)}
        self.fasta = bamgen.write_fasta(os.path.join(d, "ref.fa"), {g.contig: g.ref})
        self.vcf = bamgen.write_snv_vcf(os.path.join(d, "snv.vcf"), self.contigs,
                                        [(g.contig, p, a[0], a[1]) for p, a in zip(g.sites, alleles)])
        self.bed = bamgen.write_bed(os.path.join(d, "loci.bed"), [(g.contig, g.start, g.stop, "L1")])
        self.locus = next(iter(read_bed4(self.bed))).set_sequence(self.fasta).set_variants(self.vcf)


def extract(ds, fh, cfg, samples=None):
    """-> ("ok", {key: {qname: chars}}) or ("err", message)"""
    try:
        d = extract_read_variants(
            ds.locus, fh, samples=samples, id=cfg["field"], min_quality=cfg["minq"],
            skip_duplicates=not cfg["kd"], skip_qcfail=not cfg["kq"], skip_supplementary=not cfg["ks"],
            read_dicts=True)
    except ValueError as e:
        return "err", str(e)
    return "ok", {k: {_qn(q): [str(c) for c in v[0]] for q, v in rows.items()} for k, rows in d.items()}


def make_program(ds, cfg, sample_bams, phred=False):
    samples = list(sample_bams)
    return assemble.program(
        vcf=ds.vcf, ref=ds.fasta, samples=samples, sample_bams=sample_bams,
        sample_ploidy={s: 2 for s in samples}, sample_inbreeding={s: 0.0 for s in samples},
        read_group_field=cfg["field"], base_error_rate=ERR, ignore_base_phred_scores=not phred,
        mapping_quality=cfg["minq"], skip_duplicates=not cfg["kd"], skip_qcfail=not cfg["kq"],
        skip_supplementary=not cfg["ks"], info_fields=[], format_fields=[], bed=ds.bed)


def observed_stats(data, s, n_alleles):
    """What encode_sample_reads stored for sample/pool s, in the model's vocabulary."""
    sd = data.sampledata
    calls = data.read_calls[s]
    dists = data.read_dists[s]
    counts = data.read_counts[s]
    uniq = {}
    bad = None
    for row, k in zip(dists, counts):
        cr = []
        for j, vec in enumerate(row):
            na = n_alleles[j]
            if np.isnan(vec[0]):
                # a gap / non-allele call: no information at this site
                cr.append(-1)
                if not all(np.isnan(v) or v == 0.0 for v in vec):
                    bad = "gap distribution at site %d: %s" % (j, vec.tolist())
                continue
            a = int(np.nanargmax(vec))
            cr.append(a)
            for x in range(len(vec)):
                want = (1 - ERR) if x == a else (ERR / 3 if x < na else 0.0)
                if not abs(vec[x] - want) <= 1e-12:
                    bad = "distribution row %s at site %d: %s" % (cr, j, vec.tolist())
        uniq[tuple(cr)] = uniq.get(tuple(cr), 0) + int(k)
    bag = {}
    for r in calls:
        t = tuple(int(x) for x in r)
        bag[t] = bag.get(t, 0) + 1
    return {
        "stat": [int(sd[FORMAT.RCOUNT][s]), [int(x) for x in np.atleast_1d(sd[FORMAT.SNVDP][s])],
                 float(sd[FORMAT.DP][s]), int(sd[FORMAT.RCALLS][s])],
        "uniq": uniq,
        "bag": bag,
        "bad_dist": bad,
    }


def model_uniq(u):
    return {tuple(v): int(k) for v, k in u}


def cmp_stats(obs, stat, uniq):
    """-> list of (field, impl, model)"""
    out = []
    names = ["RCOUNT", "SNVDP", "DP", "RCALLS"]
    for i, nm in enumerate(names):
        if nm == "DP":
            if obs["stat"][i] not in stat[i]:  # the model gives the set of admissible roundings
                out.append((nm, obs["stat"][i], stat[i]))
        elif obs["stat"][i] != stat[i]:
            out.append((nm, obs["stat"][i], stat[i]))
    mu = model_uniq(uniq)
    if obs["bag"] != mu:
        out.append(("allele-matrix", sorted(obs["bag"].items()), sorted(mu.items())))
    if obs["uniq"] != mu:
        out.append(("dedup", sorted(obs["uniq"].items()), sorted(mu.items())))
    if obs["bad_dist"]:
        out.append(("encoding", obs["bad_dist"], None))
    return out


def replay(task):
    rng0 = bamgen.seeded("c06", task["seed"], task["chunk"])
    wd = os.path.join(task["wd"], "chunk-%s" % task["chunk"])
    shutil.rmtree(wd, ignore_errors=True)
    ds = DataSet(wd, rng0, MODEL_ALLELES)
    g = ds.geom
    n_alleles = [1 + len(a[1]) for a in MODEL_ALLELES]
    res = {"evals": 0, "states": 0, "mismatch": [], "nontrivial": 0, "shapes": {}, "orders": 0}
    for si, s in enumerate(task["states"]):
        rng = bamgen.seeded("c06", task["seed"], task["chunk"], si)
        hist = s["hist"]
        res["states"] += 1
        files = {}
        sams = {}
        for layout in ("one", "split"):
            alns = []
            for a in hist:
                deco = [x for x, pr in (("reverse", 0.5), ("paired", 0.4), ("proper", 0.2)) if rng.random() < pr]
                al = bamgen.realise(dict(a, flags=list(a["flags"]) + deco), g, rng)
                al.note = (al.note or "") + " rg=" + a["rg"]
                alns.append(al)
                k = (al.note or "").split(" ")[0]
                res["shapes"][k] = res["shapes"].get(k, 0) + 1
            bamgen.pair_up(alns)
            rng.shuffle(alns)  # equal start positions keep list order: vary it
            paths = {}
            for f in (1, 2) if layout == "split" else (1,):
                rgs = [{"ID": r, "SM": sm} for r, sm in MODEL_RGS if file_of(r, layout) == f]
                mine = [al for al in alns if file_of(al.rg, layout) == f]
                p = os.path.join(wd, "%s%d.bam" % (layout, f))
                ordered = bamgen.write_bam(p, ds.contigs, rgs, mine)
                paths[f] = p
                sams[(layout, f)] = [x.sam() for x in ordered]
            files[layout] = paths
        handles = {(l, f): pysam.AlignmentFile(p) for l, ps in files.items() for f, p in ps.items()}
        try:
            for cls in s["outs"]:
                o = cls["o"]
                errs = {(e[0], e[1]) for e in o["e"]}
                units = {(u[0], u[1]): u for u in o["u"]}
                rep = cls["c"][rng.randrange(len(cls["c"]))]
                for cid in cls["c"]:
                    cfg = decode_cfg(cid)
                    layout = cfg["layout"]

                    def report(kind, detail):
                        res["mismatch"].append({"kind": kind, "cfg": cfg, "hist": hist, "detail": detail,
                                                "sam": {"%s%d" % k: v for k, v in sams.items() if k[0] == layout},
                                                "geom": g.as_dict()})

                    for f in files[layout]:
                        fh = handles[(layout, f)]
                        res["evals"] += 1
                        kind, got = extract(ds, fh, cfg)
                        exp_err = any(e[0] == f for e in errs)
                        want = {k[1]: {r[0]: r[1] for r in u[2]} for k, u in units.items() if k[0] == f}
                        if exp_err:
                            if kind != "err":
                                report("mismatch-not-reported", {"file": f, "impl": got, "model": "ValueError (reference mismatch)"})
                        elif kind == "err":
                            report("unexpected-error", {"file": f, "impl": got, "model": want})
                        elif got != want:
                            report("rows", {"file": f, "impl": got, "model": want})
                        # a request for one sample key
                        for (uf, key), u in units.items():
                            if uf != f:
                                continue
                            res["evals"] += 1
                            kind, got = extract(ds, fh, cfg, samples=key)
                            w1 = {key: {r[0]: r[1] for r in u[2]}}
                            if (f, key) in errs:
                                if kind != "err":
                                    report("mismatch-not-reported", {"file": f, "request": key, "impl": got})
                            elif kind == "err":
                                report("unexpected-error", {"file": f, "request": key, "impl": got, "model": w1})
                            elif got != w1:
                                report("rows", {"file": f, "request": key, "impl": got, "model": w1})
                    if cid != rep:
                        continue
                    # encode_sample_reads on every unit and on two pools
                    smof = dict(MODEL_RGS)
                    ukeys = sorted(units)
                    pools = {"u%d" % i: [k] for i, k in enumerate(ukeys)}
                    pools["PA"] = [k for k in ukeys if (k[1] == "A" if cfg["field"] == "SM" else smof[k[1]] == "A")]
                    pools["PALL"] = list(ukeys)
                    rng.shuffle(pools["PALL"])
                    expect = {"u%d" % i: (units[k][3], None) for i, k in enumerate(ukeys)}
                    expect["PA"] = (o["pA"][0], o["pA"][1])
                    expect["PALL"] = (o["pAll"][0], o["pAll"][1])
                    for pname, members in pools.items():
                        res["evals"] += 1
                        sb = {pname: [(k[1], files[layout][k[0]]) for k in members]}
                        prog = make_program(ds, cfg, sb)
                        data = prog._locus_data(ds.locus, sb)
                        exp_err = any(k in errs for k in members)
                        try:
                            prog.encode_sample_reads(data)
                        except baseclass.SampleAssemblyError as e:
                            if not exp_err:
                                report("unexpected-error", {"pool": members, "impl": repr(e.__cause__)})
                            elif not isinstance(e.__cause__, ValueError):
                                report("unexpected-error", {"pool": members, "impl": repr(e.__cause__)})
                            continue
                        if exp_err:
                            report("mismatch-not-reported", {"pool": members, "impl": "encode_sample_reads returned"})
                            continue
                        obs = observed_stats(data, pname, n_alleles)
                        stat, uniq = expect[pname]
                        if uniq is None:
                            k = members[0]
                            uniq_d = {}
                            for r in units[k][2]:
                                uniq_d[tuple(r[2])] = uniq_d.get(tuple(r[2]), 0) + 1
                            uniq = [[list(v), c] for v, c in uniq_d.items()]
                        for fld, a, b in cmp_stats(obs, stat, uniq):
                            report("stat-" + fld, {"pool": members, "impl": a, "model": b})
                if len(hist) >= 2 and len(s["outs"]) > 4:
                    pass
            if any(len(u[2]) > 0 for cls in s["outs"] for u in cls["o"]["u"]) and len(hist) >= 2:
                res["nontrivial"] += 1
        finally:
            for h in handles.values():
                h.close()
        if len(res["mismatch"]) > 40:
            break
    shutil.rmtree(wd, ignore_errors=True)
    return res


# ----------------------------------------------------------------------------
# code -> spec
# ----------------------------------------------------------------------------
def _events_for(tid, ds_like, bam_paths, hdr, alleles, cfg, locus, contig, start, stop, sites, pools, ref_fasta=None, phred=False):
    """Trace of one (locus, files, configuration): begin, one aln event per record of the files
    (SAM-text walker), then what the implementation produced."""
    ev = [{"op": "begin", "tid": tid, "hdr": hdr, "alleles": [list(a) for a in alleles], "cfg": cfg, "n": len(sites)}]
    for f, p in sorted(bam_paths.items()):
        for w in samwalk.walk_bam(p, reference_filename=ref_fasta):
            a = samwalk.abstract(w, contig, start, stop, sites)
            ev.append({"op": "aln", "tid": tid, "file": f, "qname": a["qname"], "rg": a["rg"], "flags": a["flags"],
                       "mapq": a["mapq"], "cells": a["cells"], "refbase": a["refbase"], "overlap": a["overlap"],
                       "quals": a["quals"]})
    # implementation: rows per file
    for f, p in sorted(bam_paths.items()):
        with pysam.AlignmentFile(p, reference_filename=ref_fasta) as fh:
            try:
                d = extract_read_variants(locus, fh, samples=None, id=cfg["field"], min_quality=cfg["minq"],
                                          skip_duplicates=not cfg["kd"], skip_qcfail=not cfg["kq"],
                                          skip_supplementary=not cfg["ks"], read_dicts=True)
            except ValueError as e:
                ev.append({"op": "error", "tid": tid, "file": f, "msg": str(e)[:200]})
                continue
            ev.append({"op": "keys", "tid": tid, "file": f, "keys": list(d.keys())})
            for key, rows in d.items():
                ev.append({"op": "rows", "tid": tid, "file": f, "key": key,
                           "rows": [[_qn(q), [str(c) for c in v[0]]] for q, v in rows.items()],
                           "quals": [[_qn(q), [int(x) for x in v[1]]] for q, v in rows.items()]})
    # implementation: reported counts for pools
    n_alleles = [len(a) for a in alleles]
    for pname, members in pools.items():
        sb = {pname: [(key, bam_paths[f]) for f, key in members]}
        prog = assemble.program(
            vcf="", ref=ref_fasta, samples=[pname], sample_bams=sb, sample_ploidy={pname: 2},
            sample_inbreeding={pname: 0.0}, read_group_field=cfg["field"], base_error_rate=ERR,
            ignore_base_phred_scores=True, mapping_quality=cfg["minq"], skip_duplicates=not cfg["kd"],
            skip_qcfail=not cfg["kq"], skip_supplementary=not cfg["ks"], info_fields=[], format_fields=[], bed="")
        data = prog._locus_data(locus, sb)
        try:
            prog.encode_sample_reads(data)
        except baseclass.SampleAssemblyError as e:
            ev.append({"op": "poolerror", "tid": tid, "pool": [list(m) for m in members], "msg": repr(e.__cause__)[:200]})
            continue
        obs = observed_stats(data, pname, n_alleles)
        ev.append({"op": "stats", "tid": tid, "pool": [list(m) for m in members], "stat": [obs["stat"][0], obs["stat"][1], int(obs["stat"][2]), obs["stat"][3]],
                   "dp_is_int": float(obs["stat"][2]) == int(obs["stat"][2]),
                   "uniq": [[list(k), v] for k, v in sorted(obs["uniq"].items())],
                   "bag": [[list(k), v] for k, v in sorted(obs["bag"].items())],
                   "bad_dist": obs["bad_dist"] or ""})
    return ev


def rand_cfg(rng):
    return {"minq": rng.choice([0, 20, 20, 30]), "kd": rng.random() < 0.4, "kq": rng.random() < 0.4, "ks": rng.random() < 0.4,
            "field": rng.choice(["SM", "ID"])}


def record_repo(task):
    """The repository's own BAMs (simple.sample*.bam, deep variants) at the loci of simple.bed."""
    data = task["data"]  # a copy of the repository's test data under work/ (never read /repo in place: pysam may write indexes)
    fasta = os.path.join(data, "simple.fasta")
    vcf = os.path.join(data, "simple.vcf.gz")
    bed = os.path.join(data, "simple.bed")
    rng = random.Random(task["seed"])
    out = []
    tid = task["tid0"]
    loci = [l.set_sequence(fasta).set_variants(vcf) for l in read_bed4(bed)]
    loci = [l for l in loci if len(l.variants) > 0]  # DP/SNVDP are NaN by construction without variants: not modelled
    for name in task["bams"]:
        p = os.path.join(data, name)
        rgs = samwalk.header_read_groups(p)
        hdr = [{"rg": r, "sm": sm, "file": 1} for r, sm in rgs]
        for locus in loci:
            for k in range(task["cfgs_per_locus"]):
                cfg = rand_cfg(rng) if k else {"minq": 20, "kd": False, "kq": False, "ks": False, "field": "SM"}
                keys = sorted({(1, h["sm"] if cfg["field"] == "SM" else h["rg"]) for h in hdr})
                pools = {"P%d" % i: [k_] for i, k_ in enumerate(keys)}
                pools["PALL"] = keys
                tid += 1
                out.append(_events_for(tid, None, {1: p}, hdr, locus.alleles, cfg, locus, locus.contig, locus.start, locus.stop,
                                       locus.positions, pools, ref_fasta=fasta))
    return out


def record_random(task):
    """Seeded random BAMs: longer reads, 5-8 SNVs, ~30 alignments over 2 files, free-form CIGARs."""
    out = []
    wd = os.path.join(task["wd"], "rand-%s" % task["chunk"])
    shutil.rmtree(wd, ignore_errors=True)
    os.makedirs(wd)
    tid = task["tid0"]
    for it in range(task["n"]):
        rng = bamgen.seeded("c06rand", task["seed"], task["chunk"], it)
        n = rng.randint(*task.get("n_sites", (5, 8)))
        alleles = []
        for j in range(n):
            ref = rng.choice("ACGT")
            alts = rng.sample([b for b in "ACGT" if b != ref], rng.choice([1, 1, 2]))
            alleles.append((ref, tuple(alts)))
        ds = DataSet(os.path.join(wd, "d%d" % it), rng, alleles, spacing=task.get("spacing"))
        g = ds.geom
        snp_bases = {}
        for p, a in zip(g.sites, alleles):
            other = [b for b in "ACGT" if b != a[0] and b not in a[1]]
            snp_bases[p] = [a[0]] * 4 + list(a[1]) * 3 + other[:1] + ["N"]
        rgl = [("g1", "S1", 1), ("g2", "S1", 1), ("g3", "S2", 1), ("g4", "S1", 2), ("g5", "S3", 2)]
        names = ["r%d" % i for i in range(rng.randint(*task.get("names", (8, 22))))]
        per_file = {1: [], 2: []}
        for i in range(task.get("alns", 30)):
            rg, sm, f = rng.choice(rgl)
            al = bamgen.random_alignment(rng, g, rng.choice(names), rg, wrong_md_prob=task.get("wrong_md", 0.01), snp_bases=snp_bases,
                                         min_qual=2, max_qual=41, **({"length": tuple(task["length"])} if "length" in task else {}))
            per_file[f].append(al)
        paths = {}
        for f in (1, 2):
            bamgen.pair_up(per_file[f])
            paths[f] = os.path.join(ds.dir, "f%d.bam" % f)
            bamgen.write_bam(paths[f], ds.contigs, [{"ID": r, "SM": sm} for r, sm, ff in rgl if ff == f], per_file[f],
                             sort=rng.choice(["python", "pysam"]))
        hdr = [{"rg": r, "sm": sm, "file": f} for r, sm, f in rgl]
        for k in range(task.get("cfgs", 3)):
            cfg = rand_cfg(rng)
            keys = sorted({(h["file"], h["sm"] if cfg["field"] == "SM" else h["rg"]) for h in hdr})
            pools = {"PALL": keys, "PS1": [k_ for k_ in keys if (k_[1] == "S1" if cfg["field"] == "SM" else k_[1] in ("g1", "g2", "g4"))]}
            tid += 1
            out.append(_events_for(tid, ds, paths, hdr, [(a[0],) + a[1] for a in alleles], cfg, ds.locus, g.contig, g.start, g.stop,
                                   g.sites, pools, ref_fasta=ds.fasta))
    shutil.rmtree(wd, ignore_errors=True)
    return out


# ----------------------------------------------------------------------------
# CLI level
# ----------------------------------------------------------------------------
def parse_vcf_format(text):
    """Independent reader of the records of an MCHap VCF: -> list of {sample: {field: value}}"""
    recs = []
    samples = None
    for line in text.splitlines():
        if line.startswith("##") or not line.strip():
            continue
        f = line.split("\t")
        if line.startswith("#CHROM"):
            samples = f[9:]
            continue
        keys = f[8].split(":")
        rec = {"chrom": f[0], "pos": int(f[1]), "info": f[7], "samples": {}}
        for s, col in zip(samples, f[9:]):
            rec["samples"][s] = dict(zip(keys, col.split(":")))
        recs.append(rec)
    return recs


def cli(task):
    """Build a data set from an abstract stream, run the real CLI entry points on it."""
    rng = bamgen.seeded("c06cli", task["seed"], task["chunk"])
    wd = os.path.join(task["wd"], "cli-%s" % task["chunk"])
    shutil.rmtree(wd, ignore_errors=True)
    alleles = MODEL_ALLELES
    out = []
    for si, s in enumerate(task["states"]):
        ds = DataSet(os.path.join(wd, "s%d" % si), rng, alleles)
        g = ds.geom
        hist = s["hist"]
        for cls in s["outs"]:
            cid = cls["c"][rng.randrange(len(cls["c"]))]
            cfg = decode_cfg(cid)
            if cfg["layout"] == "split" and cfg["field"] == "SM":
                continue  # the CLI refuses one sample id in two files (by design)
            layout = cfg["layout"]
            alns = [bamgen.realise(a, g, rng) for a in hist]
            bamgen.pair_up(alns)
            paths = {}
            for f in (1, 2) if layout == "split" else (1,):
                rgs = [{"ID": r, "SM": sm} for r, sm in MODEL_RGS if file_of(r, layout) == f]
                paths[f] = os.path.join(ds.dir, "%s%d-%d.bam" % (layout, f, cid))
                bamgen.write_bam(paths[f], ds.contigs, rgs, [al for al in alns if file_of(al.rg, layout) == f])
            o = cls["o"]
            units = {(u[0], u[1]): u for u in o["u"]}
            errs = {(e[0], e[1]) for e in o["e"]}
            smof = dict(MODEL_RGS)
            ukeys = sorted(units)
            pa = [k for k in ukeys if (k[1] == "A" if cfg["field"] == "SM" else smof[k[1]] == "A")]
            poolfile = os.path.join(ds.dir, "pools-%d.txt" % cid)
            with open(poolfile, "w") as fh:
                for k in ukeys:
                    fh.write("%s\t%s\n" % (k[1], k[1]))
                for k in pa:
                    fh.write("%s\tPA\n" % k[1])
                for k in ukeys:
                    fh.write("%s\tPALL\n" % k[1])
            argv = ["mchap", task["program"], "--bam"] + [paths[f] for f in sorted(paths)] + [
                "--reference", ds.fasta, "--ploidy", "2", "--sample-pool", poolfile,
                "--base-error-rate", str(ERR), "--mapping-quality", str(cfg["minq"]), "--read-group-field", cfg["field"],
                "--report", "SNVDP"]
            if cfg["kd"]:
                argv.append("--keep-duplicate-reads")
            if cfg["kq"]:
                argv.append("--keep-qcfail-reads")
            if cfg["ks"]:
                argv.append("--keep-supplementary-reads")
            if task["program"] == "assemble":
                argv += ["--targets", ds.bed, "--variants", ds.vcf, "--mcmc-steps", "60", "--mcmc-burn", "20", "--mcmc-chains", "1"]
                mod = assemble
            else:
                hv = os.path.join(ds.dir, "haps.vcf")
                ref = g.ref[g.start:g.stop]
                # ALT haplotypes presenting every listed allele, in the order of the SNV file
                nalt = max(len(a[1]) for a in alleles)
                alts = []
                for k in range(nalt):
                    h = list(ref)
                    for p, a in zip(g.sites, alleles):
                        if k < len(a[1]):
                            h[p - g.start] = a[1][k]
                    alts.append("".join(h))
                text = ("##fileformat=VCFv4.3\n##contig=<ID=%s,length=%d>\n##INFO=<ID=SNVPOS,Number=.,Type=Integer,Description=\"x\">\n"
                        "#CHROM\tPOS\tID\tREF\tALT\tQUAL\tFILTER\tINFO\n%s\t%d\tL1\t%s\t%s\t.\t.\tSNVPOS=%s\n") % (
                    g.contig, len(g.ref), g.contig, g.start + 1, ref, ",".join(alts), ",".join(str(p - g.start + 1) for p in g.sites))
                hv = bamgen.write_text_vcf(hv, text)
                argv += ["--haplotypes", hv]
                mod = call_exact
            rec = {"cfg": cfg, "hist": hist, "argv": argv, "program": task["program"]}
            buf = io.StringIO()
            try:
                prog = mod.program.cli(argv)
                with contextlib.redirect_stdout(buf):
                    prog.run_stdout()
                rec["status"] = "ok"
            except SystemExit as e:
                rec["status"] = "exit %s" % e.code
            except Exception as e:  # LocusAssemblyError etc.
                c = e
                chain = []
                while c is not None:
                    chain.append(type(c).__name__)
                    c = c.__cause__
                rec["status"] = "raise " + "<-".join(chain)
                rec["msg"] = str(e)[:200]
            exp_err = bool(errs)
            expect = {k[1]: units[k][3] for k in ukeys}
            expect["PA"] = o["pA"][0]
            expect["PALL"] = o["pAll"][0]
            rec["expect_error"] = exp_err
            rec["mismatch"] = []
            if exp_err:
                if rec["status"] == "ok":
                    rec["mismatch"].append(("mismatch-not-reported", rec["status"], "error exit"))
            elif rec["status"] != "ok":
                rec["mismatch"].append(("unexpected-error", rec["status"] + " " + rec.get("msg", ""), "ok"))
            else:
                recs = parse_vcf_format(buf.getvalue())
                if len(recs) != 1:
                    rec["mismatch"].append(("n-records", len(recs), 1))
                else:
                    for sname, st in expect.items():
                        col = recs[0]["samples"].get(sname)
                        if col is None:
                            rec["mismatch"].append(("sample-missing", sname, None))
                            continue
                        got = [int(col["RCOUNT"]), [int(x) for x in col["SNVDP"].split(",")], int(col["DP"]), int(col["RCALLS"])]
                        if got[:2] + got[3:] != st[:2] + st[3:] or got[2] not in st[2]:
                            rec["mismatch"].append(("FORMAT " + sname, got, st))
            out.append(rec)
    shutil.rmtree(wd, ignore_errors=True)
    return out


def cli_exit(task):
    """Reference base disagreeing between SNV file (v), FASTA (f) and alignment (a): the real
    command line program in a subprocess; returns exit status and number of records."""
    import subprocess

    c = task["case"]
    rng = bamgen.seeded("c06exit", task["seed"], c["v"], c.get("v2", "none"), c["f"], c["a"])
    wd = os.path.join(task["wd"], "exit-%s%s%s%s" % (c["v"], c.get("v2", "none"), c["f"], c["a"]))
    shutil.rmtree(wd, ignore_errors=True)
    os.makedirs(wd)
    g = bamgen.Geometry.build(rng, [c["f"], "G"])
    contigs = {g.contig: len(g.ref)}
    fasta = bamgen.write_fasta(os.path.join(wd, "ref.fa"), {g.contig: g.ref})
    alt = "T"
    rows = [(g.contig, g.sites[0], c["v"], (alt,))]
    if c.get("v2", "none") != "none":
        # the same position listed a second time with another ALT (and possibly another REF)
        rows.append((g.contig, g.sites[0], c["v2"], ("G",)))
    rows.append((g.contig, g.sites[1], "G", ("A",)))
    vcf = bamgen.write_snv_vcf(os.path.join(wd, "snv.vcf"), contigs, rows)
    bed = bamgen.write_bed(os.path.join(wd, "loci.bed"), [(g.contig, g.start, g.stop, "L1")])
    alns = []
    for i in range(3):
        if c["a"] == "none":
            ab = {"qname": "r%d" % i, "rg": "a1", "flags": [], "mapq": 60, "cells": ["none", rng.choice("GA")]}
        else:
            ab = {"qname": "r%d" % i, "rg": "a1", "flags": [], "mapq": 60, "cells": [rng.choice([c["v"], alt]), rng.choice(["G", "A", "none"])],
                  "claimed": [c["a"], None]}
        alns.append(bamgen.realise(ab, g, rng))
    bam = os.path.join(wd, "x.bam")
    bamgen.write_bam(bam, contigs, [{"ID": "a1", "SM": "A"}], alns)
    argv = ["mchap", task["program"], "--bam", bam, "--reference", fasta, "--ploidy", "2", "--targets", bed, "--variants", vcf,
            "--mcmc-steps", "60", "--mcmc-burn", "20", "--mcmc-chains", "1"]
    code = "import sys; sys.argv = %r; from mchap.application.cli import main; main()" % (argv,)
    p = subprocess.run([sys.executable, "-c", code], capture_output=True, text=True, cwd=wd, timeout=600)
    recs = [l for l in p.stdout.splitlines() if l and not l.startswith("#")]
    out = {"case": c, "rc": p.returncode, "records": len(recs), "stderr_tail": p.stderr[-400:], "sam": [x.sam() for x in alns],
           "site": g.sites[0], "fasta_base": g.ref[g.sites[0]]}
    shutil.rmtree(wd, ignore_errors=True)
    return out


def run(task):
    op = task["op"]
    if op == "cli_exit":
        return cli_exit(task)
    if op == "replay":
        return replay(task)
    if op == "record_repo":
        return record_repo(task)
    if op == "record_random":
        return record_random(task)
    if op == "cli":
        return cli(task)
    raise ValueError(op)
