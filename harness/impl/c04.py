"""Implementation side of C04: the read-likelihood entry points.

Runs inside a worker process that imports the tree under test (jit or py mode).
Read tensors are built here directly from integer cell codes (gap = -1 or the called
allele), independently of mchap's own encoder:
    called slot 7/8, other allele slots (1/8)/3, slots >= n_alleles 0, gap NaN on the allele slots.
"""
import itertools
import math
import os
import random

import numpy as np

PY = os.environ.get("NUMBA_DISABLE_JIT") == "1"
P_CALL = 7 / 8
P_ERR = (1 / 8) / 3


def setup():
    global AL, CL, PL, J, AM
    from mchap.assemble import likelihood as AL
    from mchap.calling import likelihood as CL
    from mchap.pedigree import likelihood as PL
    from mchap import jitutils as J
    from mchap.assemble import arraymap as AM


def tensor(cells_list, A, width):
    R, N = len(cells_list), len(A)
    T = np.zeros((R, N, width), dtype=np.float64)
    for r, cells in enumerate(cells_list):
        for j, c in enumerate(cells):
            for a in range(A[j]):
                T[r, j, a] = np.nan if c < 0 else (P_CALL if a == c else P_ERR)
    return T


def int_dict():
    if PY:
        return {}
    from numba import types
    from numba.typed import Dict

    return Dict.empty(key_type=types.int64, value_type=types.float64)


def pair_dict():
    if PY:
        return {}
    from numba import types
    from numba.typed import Dict

    return Dict.empty(key_type=types.UniTuple(types.int64, 2), value_type=types.float64)


def f(x):
    return float(x)


def call(fn, *a, **k):
    try:
        with np.errstate(all="ignore"):
            v = fn(*a, **k)
        return v
    except Exception as e:  # noqa
        return "ERR %s: %s" % (type(e).__name__, e)


def fl(v):
    if isinstance(v, str):
        return v
    if isinstance(v, tuple):
        return float(v[0])
    return float(v)


def hap_table(M, N):
    return np.array(list(itertools.product(range(M), repeat=N)), dtype=np.int8).reshape(-1, N)


def hap_index(row, M):
    i = 0
    for x in row:
        i = i * M + int(x)
    return i


_pool_turn = 0


def eval_mix(s, rnd):
    P, N, A = s["P"], s["N"], s["A"]
    G = np.array(s["G"], dtype=np.int8)
    M = max(max(A), int(G.max()) + 1)
    cells = [r[0] for r in s["rds"]]
    counts = np.array([r[1] for r in s["rds"]], dtype=np.int64)
    T = tensor(cells, A, M)
    den = s["den"]
    o = {}
    # per-read single evaluations -> exact numerators
    o["single"] = []
    for k in range(len(cells)):
        v = call(AL.log_likelihood, T[k: k + 1], G)
        o["single"].append(v if isinstance(v, str) else math.exp(v) * den)
    o["ll"] = fl(call(AL.log_likelihood, T, G, counts))
    # the same instance with its SNV columns repeated TILE times (a long locus; products of many small factors)
    TILE = 16
    Tt = np.tile(T, (1, TILE, 1))
    Gt = np.tile(G, (1, TILE))
    o["tiled"] = [fl(call(AL.log_likelihood, Tt[k: k + 1], Gt)) for k in range(len(cells))]
    o["tiled_struct"] = [fl(call(AL.log_likelihood_structural_change, Tt[k: k + 1], Gt, np.arange(P), (0, 0))) for k in range(len(cells))]
    o["ll_i32"] = fl(call(AL.log_likelihood, T, G, counts.astype(np.int32)))
    # k copies with no counts at all
    rep = [k for k in range(len(cells)) for _ in range(int(counts[k]))]
    if rep:
        o["ll_expand"] = fl(call(AL.log_likelihood, T[rep], G))
        o["ll_expand_ones"] = fl(call(AL.log_likelihood, T[rep], G, np.ones(len(rep), dtype=np.int64)))
    # haplotype order / read order
    perm = list(range(P))
    rnd.shuffle(perm)
    o["perm"] = perm
    o["ll_hperm"] = fl(call(AL.log_likelihood, T, G[perm], counts))
    o["ll_hrev"] = fl(call(AL.log_likelihood, T, G[::-1].copy(), counts))
    o["ll_rrev"] = fl(call(AL.log_likelihood, T[::-1].copy(), G, counts[::-1].copy()))
    # cached wrapper: no cache, miss, hit
    o["ll_c_none"] = fl(call(AL.log_likelihood_cached, T, G, counts, None))
    cache = AL.new_log_likelihood_cache(P, N, M)
    r1 = call(AL.log_likelihood_cached, T, G, counts, cache)
    if isinstance(r1, str):
        o["ll_c_miss"] = o["ll_c_hit"] = r1
    else:
        o["ll_c_miss"] = float(r1[0])
        r2 = call(AL.log_likelihood_cached, T, G, counts, r1[1])
        o["ll_c_hit"] = fl(r2)
    # allele-indexed entry points
    haps = hap_table(M, N)
    alleles = np.array([hap_index(row, M) for row in G], dtype=np.int64)
    o["lla"] = fl(call(CL.log_likelihood_alleles, T, counts, haps, alleles))
    o["lla_perm"] = fl(call(CL.log_likelihood_alleles, T, counts, haps, alleles[perm]))
    o["lla_c_none"] = fl(call(CL.log_likelihood_alleles_cached, T, counts, haps, alleles, None))
    d = int_dict()
    o["lla_c_miss"] = fl(call(CL.log_likelihood_alleles_cached, T, counts, haps, alleles, d))
    o["lla_c_hit"] = fl(call(CL.log_likelihood_alleles_cached, T, counts, haps, alleles[perm], d))
    o["lla_c_size"] = len(d)
    srt = np.sort(alleles)
    # (PaddingInvariant) the locus extended by PAD SNVs without any base call, after / before the real ones (positions beyond 127)
    PAD = 130
    R = len(cells)
    gapT = np.full((R, PAD, M), np.nan)
    zeros = np.zeros((P, PAD), dtype=np.int8)
    lead = zeros.copy()
    lead[:, 0] = 1
    Te, Ge = np.concatenate([T, gapT], axis=1), np.concatenate([G, zeros], axis=1)
    Ts, Gs = np.concatenate([gapT, T], axis=1), np.concatenate([lead, G], axis=1)
    o["ll_padend"] = fl(call(AL.log_likelihood, Te, Ge, counts))
    o["ll_padstart"] = fl(call(AL.log_likelihood, Ts, Gs, counts))
    o["lls_padend"] = fl(call(AL.log_likelihood_structural_change, Te, Ge, np.arange(P), (0, 0), counts))
    o["lls_padstart"] = fl(call(AL.log_likelihood_structural_change, Ts, Gs, np.arange(P)[::-1].copy(), (0, PAD), counts))
    cache = AL.new_log_likelihood_cache(P, N + PAD, M)
    r1 = call(AL.log_likelihood_cached, Te, Ge, counts, cache)
    if isinstance(r1, str):
        o["ll_c_padmiss"] = o["ll_c_padhit"] = r1
    else:
        o["ll_c_padmiss"] = float(r1[0])
        # a different genotype that agrees with the first over the padding only
        r2 = call(AL.log_likelihood_cached, Te, Ge, counts, r1[1])
        o["ll_c_padhit"] = fl(r2)
    hz = np.zeros((len(haps), PAD), dtype=np.int8)
    hl = hz.copy()
    hl[:, 0] = 1
    haps_e, haps_s = np.concatenate([haps, hz], axis=1), np.concatenate([hl, haps], axis=1)
    o["lla_padend"] = fl(call(CL.log_likelihood_alleles, Te, counts, haps_e, alleles))
    o["lla_padstart"] = fl(call(CL.log_likelihood_alleles, Ts, counts, haps_s, alleles))
    o["ped_padend"] = fl(call(PL.log_likelihood_alleles_cached, Te, counts, haps_e, 0, srt, None))
    # (PoolingInvariant) a pool of POOL copies of the genotype: more than 127 copies of every allele it carries
    global _pool_turn
    _pool_turn += 1
    if not PY or _pool_turn % 4 == 0:
        POOL = 130
        Gp = np.tile(G, (POOL, 1))
        ap = np.tile(alleles, POOL)
        o["ll_pool"] = fl(call(AL.log_likelihood, T, Gp, counts))
        o["lla_pool"] = fl(call(CL.log_likelihood_alleles, T, counts, haps, np.sort(ap)))
        o["lla_pool_unsorted"] = fl(call(CL.log_likelihood_alleles, T, counts, haps, ap))
        o["ped_pool"] = fl(call(PL.log_likelihood_alleles_cached, T, counts, haps, 0, np.sort(ap), None))
    # the allele-indexed entry points on the long locus (columns repeated TILE times)
    haps_t = np.tile(haps, (1, TILE))
    o["lla_tiled"] = [fl(call(CL.log_likelihood_alleles, Tt[k: k + 1], np.ones(1, dtype=np.int64), haps_t, alleles)) for k in range(len(cells))]
    o["ped_tiled"] = [fl(call(PL.log_likelihood_alleles_cached, Tt[k: k + 1], np.ones(1, dtype=np.int64), haps_t, 0, srt, None)) for k in range(len(cells))]
    o["ped_none"] = fl(call(PL.log_likelihood_alleles_cached, T, counts, haps, 0, srt, None))
    d2 = pair_dict()
    o["ped_miss"] = fl(call(PL.log_likelihood_alleles_cached, T, counts, haps, 3, srt, d2))
    o["ped_hit"] = fl(call(PL.log_likelihood_alleles_cached, T, counts, haps, 3, srt, d2))
    o["ped_size"] = len(d2)
    return o


def all_reads(A):
    return [list(c) for c in itertools.product(*[range(-1, a) for a in A])]


_tensors = {}


def eval_struct(s):
    P, N, A = s["P"], s["N"], s["A"]
    G = np.array(s["G"], dtype=np.int8)
    G0 = G.copy()
    M = max(max(A), int(G.max()) + 1)
    key = (tuple(A), M)
    if key not in _tensors:
        rs = all_reads(A)
        _tensors[key] = (rs, tensor(rs, A, M))
    rs, T = _tensors[key]
    idx = np.array([i - 1 for i in s["idx"]], dtype=np.int64)
    iv = (s["lo"], s["hi"])
    den = s["den"]
    o = {}
    # the in-place rearrangement itself
    W = G.copy()
    e = call(J.structural_change, W, idx, iv)
    o["applied"] = e if isinstance(e, str) else W.tolist()
    if iv == (0, N):
        W2 = G.copy()
        e = call(J.structural_change, W2, idx)
        o["applied_none"] = e if isinstance(e, str) else W2.tolist()
    Wm = np.array(s["work"], dtype=np.int8)  # the model's rearranged genotype
    # per read: proposal likelihood through the redirect, and likelihood of the rearranged genotype
    o["struct"], o["direct"] = [], []
    for i in range(len(rs)):
        v = call(AL.log_likelihood_structural_change, T[i: i + 1], G, idx, iv)
        o["struct"].append(v if isinstance(v, str) else math.exp(v) * den)
        v = call(AL.log_likelihood, T[i: i + 1], Wm)
        o["direct"].append(v if isinstance(v, str) else math.exp(v) * den)
    o["input_unchanged"] = bool((G == G0).all())
    # whole read set with counts
    counts = np.array([(i % 3) + 1 for i in range(len(rs))], dtype=np.int64)
    o["set_struct"] = fl(call(AL.log_likelihood_structural_change, T, G, idx, iv, counts))
    o["set_direct"] = fl(call(AL.log_likelihood, T, Wm, counts))
    if iv == (0, N):
        o["set_struct_none"] = fl(call(AL.log_likelihood_structural_change, T, G, idx, None, counts))
    # cached wrapper: no cache; miss; hit; and the entry is filed under the REARRANGED genotype
    o["c_none"] = fl(call(AL.log_likelihood_structural_change_cached, T, G, idx, iv, counts, None))
    cache = AL.new_log_likelihood_cache(P, N, M)
    r1 = call(AL.log_likelihood_structural_change_cached, T, G, idx, iv, counts, cache)
    if isinstance(r1, str):
        o["c_miss"] = o["c_hit"] = o["c_key"] = r1
    else:
        o["c_miss"] = float(r1[0])
        r2 = call(AL.log_likelihood_structural_change_cached, T, G, idx, iv, counts, r1[1])
        o["c_hit"] = fl(r2)
        stored = call(AM.get, r1[1], Wm.ravel())
        o["c_key"] = fl(stored)
    o["input_unchanged"] = o["input_unchanged"] and bool((G == G0).all())
    return o


def random_trace(task):
    """code -> spec: random tensors (N <= 5, P <= 4, 2..4 alleles per SNV, gaps, haplotypes that may
    carry a zero-probability non-allele, counts 0..3), recorded as integer cell codes."""
    rnd = random.Random(task["seed"])
    ev = []
    sets = []
    for _ in range(task["n"]):
        P = rnd.randint(1, 4)
        N = rnd.randint(1, 5)
        A = [rnd.randint(2, 4) for _ in range(N)]
        M = 4
        nonallele = rnd.random() < 0.2
        G = [[rnd.randrange(M if nonallele else A[j]) for j in range(N)] for _ in range(P)]
        if rnd.random() < 0.3 and P > 1:
            G[rnd.randrange(P)] = list(G[0])  # duplicated haplotype
        Ga = np.array(G, dtype=np.int8)
        den = P * 24**N
        R = rnd.randint(1, 6)
        cells = [[(-1 if rnd.random() < 0.3 else rnd.randrange(A[j])) for j in range(N)] for _ in range(R)]
        counts = [rnd.choice([1, 1, 1, 2, 3, 0]) for _ in range(R)]
        T = tensor(cells, A, M)
        ev.append({"op": "begin", "P": P, "N": N, "A": A, "G": G})
        singles = []
        for k in range(R):
            v = call(AL.log_likelihood, T[k: k + 1], Ga)
            if isinstance(v, str):
                ev.append({"op": "error", "what": "log_likelihood", "value": v})
                singles.append(None)
                continue
            singles.append(float(v))
            x = math.exp(v) * den
            ev.append({"op": "read", "cells": cells[k], "count": counts[k], "num": int(round(x)),
                       "frac6": int(round(abs(x - round(x)) * 10**6))})
        # rearrangements: any index vector, any interval
        for _k in range(3):
            idx = [rnd.randrange(P) for _ in range(P)]
            lo = rnd.randint(0, N)
            hi = rnd.randint(lo, N)
            W = Ga.copy()
            e = call(J.structural_change, W, np.array(idx, dtype=np.int64), (lo, hi))
            if isinstance(e, str):
                ev.append({"op": "error", "what": "structural_change", "value": e})
            else:
                ev.append({"op": "apply", "idx": [i + 1 for i in idx], "lo": lo, "hi": hi, "out": W.tolist()})
            k = rnd.randrange(R)
            v = call(AL.log_likelihood_structural_change, T[k: k + 1], Ga, np.array(idx, dtype=np.int64), (lo, hi))
            if isinstance(v, str):
                ev.append({"op": "error", "what": "log_likelihood_structural_change", "value": v})
            else:
                x = math.exp(v) * den
                ev.append({"op": "struct", "idx": [i + 1 for i in idx], "lo": lo, "hi": hi, "cells": cells[k],
                           "num": int(round(x)), "frac6": int(round(abs(x - round(x)) * 10**6))})
        ca = np.array(counts, dtype=np.int64)
        ll = fl(call(AL.log_likelihood, T, Ga, ca))
        ev.append({"op": "end"})
        sets.append({"P": P, "N": N, "A": A, "G": G, "cells": cells, "counts": counts, "singles": singles, "ll": ll})
    return {"events": ev, "sets": sets}


def float_tensors(task):
    """Arbitrary float tensors (not on the 7/8 grid): the TLC-checked theorems as code-vs-code relations."""
    rnd = random.Random(task["seed"])
    nr = np.random.RandomState(task["seed"] % (2**31))
    out = []
    for _ in range(task["n"]):
        P = rnd.randint(1, 4)
        N = rnd.randint(1, 6)
        M = rnd.randint(2, 4)
        R = rnd.randint(1, 7)
        T = nr.dirichlet(np.ones(M), size=(R, N))
        T[nr.rand(R, N) < 0.25] = np.nan
        G = nr.randint(0, M, size=(P, N)).astype(np.int8)
        counts = nr.randint(1, 4, size=R).astype(np.int64)
        idx = nr.randint(0, P, size=P).astype(np.int64)
        lo = rnd.randint(0, N)
        hi = rnd.randint(lo, N)
        perm = nr.permutation(P)
        rperm = nr.permutation(R)
        W = G.copy()
        J.structural_change(W, idx, (lo, hi))
        rep = np.repeat(np.arange(R), counts)
        # independent float oracle of the documented formula
        ref = 0.0
        for r in range(R):
            tot = 0.0
            for h in range(P):
                pr = 1.0
                for j in range(N):
                    v = T[r, j, G[h, j]]
                    if not math.isnan(v):
                        pr *= v
                tot += pr
            ref += counts[r] * math.log(tot / P)
        out.append({
            "shape": [P, N, M, R], "ref": ref,
            "ll": fl(call(AL.log_likelihood, T, G, counts)),
            "ll_hperm": fl(call(AL.log_likelihood, T, G[perm], counts)),
            "ll_rperm": fl(call(AL.log_likelihood, T[rperm], G, counts[rperm])),
            "ll_expand": fl(call(AL.log_likelihood, T[rep], G)),
            "ll_struct": fl(call(AL.log_likelihood_structural_change, T, G, idx, (lo, hi), counts)),
            "ll_applied": fl(call(AL.log_likelihood, T, W, counts)),
            "idx": idx.tolist(), "lo": lo, "hi": hi,
        })
    return out


def run(task):
    op = task["op"]
    if op == "mix":
        rnd = random.Random(task.get("seed", 0))
        return [eval_mix(s, rnd) for s in task["states"]]
    if op == "struct":
        return [eval_struct(s) for s in task["states"]]
    if op == "random_trace":
        return random_trace(task)
    if op == "float_tensors":
        return float_tensors(task)
    raise ValueError(op)
