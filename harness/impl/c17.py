"""Implementation side of C17: trio_log_pmf, gamete_log_pmf, trio_valid, duo_valid.

Runs inside a worker process importing the tree under test.  Genotypes are padded
with -1 to the maximum ploidy of the trio and the scratch arrays are sized like
that, exactly as mchap.pedigree.mcmc.mcmc_sampler does.
"""
import math
import random
from itertools import combinations_with_replacement

import numpy as np


def setup():
    global PR, VA
    from mchap.pedigree import prior as PR
    from mchap.pedigree import validation as VA


def vcf_order(K, P):
    gs = list(combinations_with_replacement(range(K), P))
    gs.sort(key=lambda g: tuple(reversed(g)))
    return [list(g) for g in gs]


def _row(g, n, dtype):
    a = np.full(n, -1, dtype=dtype)
    a[: len(g)] = g
    return a


def _logf(f):
    with np.errstate(all="ignore"):
        return np.log(np.array(f, dtype=np.float64))


def trio_lpmf(child, Gp, Gq, tp, tq, lp, lq, ep, eq, logf, dtype=np.int16, pad=0):
    Pp, Pq = len(Gp), len(Gq)
    n = max(len(child), Pp, Pq) + pad
    prog = _row(child, n, dtype)
    # an unknown parent is passed as ploidy 0 / error 1 with an arbitrary row
    # (the sampler indexes sample_genotypes[-1])
    par_p = _row(Gp, n, dtype) if Pp else _row(child[::-1], n, dtype)
    par_q = _row(Gq, n, dtype) if Pq else _row(child[::-1], n, dtype)
    z = [np.zeros(n, dtype=np.int64) for _ in range(7)]
    dlf = np.zeros(n, dtype=np.float64)
    return float(
        PR.trio_log_pmf(
            prog, par_p, par_q, Pp, Pq, tp, tq, lp, lq,
            ep if Pp else 1.0, eq if Pq else 1.0, logf,
            z[0], z[1], z[2], z[3], z[4], z[5], z[6], dlf,
        )
    )


def trio_valid(child, Gp, Gq, tp, tq, lp, lq, dtype=np.int16):
    return bool(
        VA.trio_valid(
            np.array(child, dtype=dtype), np.array(Gp, dtype=dtype), np.array(Gq, dtype=dtype),
            tp, tq, lp, lq,
        )
    )


def duo_valid(child, G, tau, lam, dtype=np.int16):
    return bool(VA.duo_valid(np.array(child, dtype=dtype), np.array(G, dtype=dtype), tau, lam))


def gamete_lpmf(g, Gp, lam, K):
    """two layouts of the dose arrays: per allele 0..K-1, and the first-occurrence
    layout the samplers use (set_allelic_dosage / set_parental_copies)."""
    tau, Pp = len(g), len(Gp)
    gd = np.array([g.count(a) for a in range(K)], dtype=np.int64)
    pd = np.array([Gp.count(a) for a in range(K)], dtype=np.int64)
    v1 = float(PR.gamete_log_pmf(gd, tau, pd, Pp, lam))
    n = max(tau, Pp)
    ga = _row(g, n, np.int64)
    d = np.zeros(n, dtype=np.int64)
    dp = np.zeros(n, dtype=np.int64)
    PR.set_allelic_dosage(ga, d)
    PR.set_parental_copies(_row(Gp, n, np.int64), ga, dp)
    v2 = float(PR.gamete_log_pmf(d, tau, dp, Pp, lam))
    return v1, v2


def fl(x):
    return x[0] / x[1]


def pederr_walks(task):
    """PEDERR of a trace in which the PARENTS change from step to step (often only in their last alleles) while the
    progeny stays: the statistic must be recomputed for every step"""
    from mchap.pedigree.classes import PedigreeAllelesMultiTrace
    out = []
    for w in task["walks"]:
        K, tp, tq, lp, lq = w["K"], w["tp"], w["tq"], fl(w["lp"]), fl(w["lq"])
        steps, child = w["steps"], w["child"]
        np_, nq = len(steps[0][0]), len(steps[0][1])
        mp = max(np_, nq, tp + tq)
        tr = np.full((1, len(steps), 3, mp), -2, dtype=np.int16)
        for t, (Gp, Gq) in enumerate(steps):
            tr[0, t, 0, :np_] = Gp
            tr[0, t, 1, :nq] = Gq
            tr[0, t, 2, : tp + tq] = child
        pl = np.array([np_, nq, tp + tq])
        tau = np.array([[1, 1], [1, 1], [tp, tq]])
        lam = np.array([[0.0, 0.0], [0.0, 0.0], [lp, lq]])
        mt = PedigreeAllelesMultiTrace(tr, n_allele=K)
        out.append(float(mt.incongruence(pl, np.array([[-1, -1], [-1, -1], [0, 1]]), tau, lam)[2]))
    return out


def run(task):
    op = task["op"]
    if op == "pederr_walks":
        return pederr_walks(task)
    if op == "trio_rows":
        out = []
        for s in task["insts"]:
            K, Gp, Gq, tp, tq = s["K"], s["Gp"], s["Gq"], s["tp"], s["tq"]
            lp, lq, ep, eq = fl(s["lp"]), fl(s["lq"]), fl(s["ep"]), fl(s["eq"])
            logf = _logf([fl(x) for x in s["f"]])
            r = {"l": [], "valid": [], "duop": [], "duoq": []}
            lam_ok = lp < 1.0 and lq < 1.0
            for child in vcf_order(K, tp + tq):
                r["l"].append(trio_lpmf(child, Gp, Gq, tp, tq, lp, lq, ep, eq, logf))
                if lam_ok:
                    if Gp and Gq:
                        r["valid"].append(trio_valid(child, Gp, Gq, tp, tq, lp, lq))
                    if Gp:
                        r["duop"].append(duo_valid(child, Gp, tp, lp))
                    if Gq:
                        r["duoq"].append(duo_valid(child, Gq, tq, lq))
            # PEDERR: the statistic call-pedigree reports = fraction of trace steps whose (progeny, parents) fail the validity
            # test; the walk itself is used as the progeny's trace, with both parents known / only p known / only q known
            if lam_ok and Gp and Gq:
                from mchap.pedigree.classes import PedigreeAllelesMultiTrace
                walk = vcf_order(K, tp + tq)
                mp = max(len(Gp), len(Gq), tp + tq)
                tr = np.full((1, len(walk), 3, mp), -1, dtype=np.int16)
                for t, child in enumerate(walk):
                    tr[0, t, 0, : len(Gp)] = Gp
                    tr[0, t, 1, : len(Gq)] = Gq
                    tr[0, t, 2, : tp + tq] = child
                pl = np.array([len(Gp), len(Gq), tp + tq])
                tau = np.array([[1, 1], [1, 1], [tp, tq]])
                lam = np.array([[0.0, 0.0], [0.0, 0.0], [lp, lq]])
                mt = PedigreeAllelesMultiTrace(tr, n_allele=K)
                r["pederr"] = []
                for par in ([0, 1], [0, -1], [-1, 1]):
                    parents = np.array([[-1, -1], [-1, -1], par])
                    r["pederr"].append(float(mt.incongruence(pl, parents, tau, lam)[2]))
            out.append(r)
        return out
    if op == "gamete_rows":
        out = []
        for s in task["insts"]:
            K, Gp, tau = s["K"], s["Gp"], s["tp"]
            lam = fl(s["lp"])
            logf = _logf([fl(x) for x in s["f"]])
            r = {"l1": [], "l2": [], "iid": []}
            for g in vcf_order(K, tau):
                v1, v2 = gamete_lpmf(g, Gp, lam, K)
                r["l1"].append(v1)
                r["l2"].append(v2)
                gd = np.array([g.count(a) for a in range(K)], dtype=np.int64)
                r["iid"].append(float(PR.log_unknown_dosage_prior(gd, logf)))
            out.append(r)
        return out
    if op == "random_trace":
        return random_trace(task["n"], task["seed"])
    raise ValueError(op)


def _v9(l):
    if l == -math.inf:
        return 0, True
    return int(round(math.exp(l) * 1e9)), False


def random_trace(n, seed):
    """code -> spec: seeded random trios (ploidy up to 6, K up to 4, parameters k/16)."""
    rnd = random.Random(seed)
    Q = 16
    ev = []
    while len(ev) < n:
        K = rnd.choice([2, 3, 3, 4])
        Pp = rnd.choice([0, 2, 4, 4, 6])
        Pq = rnd.choice([0, 2, 4, 4, 6])
        tp = rnd.randint(0 if Pq else 1, min(Pp, 3)) if Pp else rnd.randint(1, 3)
        tq = rnd.randint(0 if (Pp and tp) else 1, min(Pq, 3)) if Pq else rnd.randint(1, 3)
        if tp + tq < 1 or tp + tq > 6:
            continue
        if rnd.random() < 0.1 and Pq:     # clone of q
            tp, tq = 0, Pq
        lpN = rnd.choice([0, 0, 1, 4, 8, 15]) if (Pp and tp == 2) else 0
        lqN = rnd.choice([0, 0, 1, 4, 8, 15]) if (Pq and tq == 2) else 0
        epN = rnd.choice([0, 0, 1, 8, 15, 16]) if (Pp and tp) else 16
        eqN = rnd.choice([0, 0, 1, 8, 15, 16]) if (Pq and tq) else 16
        cuts = sorted(rnd.randint(0, Q) for _ in range(K - 1))
        fN = [b - a for a, b in zip([0] + cuts, cuts + [Q])]
        Gp = sorted(rnd.randrange(K) for _ in range(Pp))
        Gq = sorted(rnd.randrange(K) for _ in range(Pq))
        # progeny: mostly built from gametes of the parents so that the pmf is non-zero
        if rnd.random() < 0.7:
            gp = rnd.sample(Gp, tp) if Pp else [rnd.randrange(K) for _ in range(tp)]
            if lpN and rnd.random() < 0.5:
                gp = [gp[0], gp[0]]
            gq = rnd.sample(Gq, tq) if Pq else [rnd.randrange(K) for _ in range(tq)]
            if lqN and rnd.random() < 0.5:
                gq = [gq[0], gq[0]]
            child = sorted(gp + gq)
        else:
            child = sorted(rnd.randrange(K) for _ in range(tp + tq))
        base = {"K": K, "Gp": Gp, "Gq": Gq, "tp": tp, "tq": tq, "lp": lpN, "lq": lqN,
                "ep": epN, "eq": eqN, "f": fN, "child": child}
        logf = _logf([x / Q for x in fN])
        l = trio_lpmf(child, Gp, Gq, tp, tq, lpN / Q, lqN / Q, epN / Q, eqN / Q, logf,
                      dtype=np.int64, pad=rnd.choice([0, 0, 1]))
        v9, ninf = _v9(l)
        ev.append(dict(base, op="trio", v9=v9, neginf=ninf))
        if Pp and Pq:
            ev.append(dict(base, op="trio_valid",
                           valid=trio_valid(child, Gp, Gq, tp, tq, lpN / Q, lqN / Q, dtype=np.int64)))
        if Pp:
            ev.append(dict(base, op="duo_valid",
                           valid=duo_valid(child, Gp, tp, lpN / Q, dtype=np.int64)))
            if tp:
                g = sorted(rnd.sample(Gp, tp)) if rnd.random() < 0.7 else sorted(rnd.randrange(K) for _ in range(tp))
                if lpN and rnd.random() < 0.4:
                    g = [g[0], g[0]]
                v1, v2 = gamete_lpmf(g, Gp, lpN / Q, K)
                v9, ninf = _v9(v1)
                ev.append({"op": "gamete", "K": K, "Gp": Gp, "g": g, "lp": lpN, "v9": v9, "neginf": ninf})
    return ev[:n]
