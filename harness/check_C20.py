"""C20: atomize emits the per-SNV projection of every haplotype record.

spec  : spec/Atomize/{AtomizeOps,Atomize,TraceAtomize}.tla
bind  : spec -> code : every complete record TLC reaches is rendered to a VCF file (vlib.vcfgen), run through the
                       real `atomize_vcf`, the printed text is split by an independent reader (vlib.vcftext) and
                       compared field by field with the model's lines (exact rationals, 3-decimal text tolerance);
        code -> spec : the atomizer's output on the repo's golden haplotype VCFs, on fresh assemble / call /
                       call-exact runs and on seeded random records beyond the model bounds is validated line by
                       line by TraceAtomize.tla (TLC computes the expected projection and names the failing clause).
"""
import json
import os
import random
import sys
from fractions import Fraction

sys.path.insert(0, os.path.dirname(os.path.abspath(__file__)))
from vlib import env, tlc, pool, vcfgen, vcftext
from vlib.report import Check
from vlib.compare import close_text3

SPEC = os.path.join(env.SPEC, "Atomize")
SITE = "atomize_vcf"
SHAPE_EXAMPLE = {}
PENDING = []   # violations of the replay, emitted round-robin over their keys (only the first 25 are printed in full)


def flush_pending(ck):
    seen_n, order = {}, []
    for i, (kind, detail, key) in enumerate(PENDING):
        k = json.dumps(key, sort_keys=True)
        seen_n[k] = seen_n.get(k, 0) + 1
        order.append((seen_n[k], i))
    for _, i in sorted(order):
        kind, detail, key = PENDING[i]
        ck.violation(kind, detail, key=key)
    del PENDING[:]

GOLDEN_SKIP = ("basis", "atomize")


# ----------------------------------------------------------------------------
# abstract record  ->  VCF text
# ----------------------------------------------------------------------------
def dec3(m):
    """thousandths -> decimal text"""
    s = "%d.%03d" % (m // 1000, m % 1000)
    s = s.rstrip("0").rstrip(".")
    return s


def render(rec, chrom="CHR1", contig_len=1000, rid=None, with_header=True):
    n = len(rec["gts"])
    samples = ["S%d" % (i + 1) for i in range(n)]
    if (len(rec["alts"]) + sum(len(g) for g in rec["gts"]) + len(rec["snvpos"] or [])) % 3 == 0:
        # sample identifiers are arbitrary strings, including ones that spell a fixed VCF column
        samples = ["REF", "INFO", "ID", "ALT"][:n]
    fmt = ["GT", "SQ"]
    if rec["dp"]:
        fmt.append("SNVDP")
    if rec["kind"] != "none":
        fmt.append(rec["kind"])
    hdr = vcfgen.header([(chrom, contig_len)], info=["AN", "SNVPOS"], fmt=fmt, filters=["PASS", "NOA", "AF0"],
                        samples=samples) if with_header else ""
    sdata = []
    for s in range(n):
        d = {"GT": "/".join("." if a < 0 else str(a) for a in rec["gts"][s]),
             "SQ": None if rec.get("mode") == "AFPM" else 10 * (s + 1)}
        if rec["dp"]:
            d["SNVDP"] = rec["dp"][s] if rec["dp"][s] else None
        if rec["kind"] != "none":
            d[rec["kind"]] = ",".join(dec3(x) for x in rec["acp"][s]) if rec["acp"][s] else None
        sdata.append(d)
    line = vcfgen.record(
        chrom, rec["pos"], "".join(rec["ref"]), ["".join(a) for a in rec["alts"]],
        info=[("AN", sum(1 for g in rec["gts"] for a in g if a >= 0)), ("SNVPOS", rec["snvpos"] or None)],
        fmt=fmt, samples=sdata, id=rid or ".",
    )
    return hdr + line


def shape_of(rec, lines):
    if not rec["snvpos"]:
        return "no-snv"
    if not rec["alts"]:
        return "no-alt"
    if rec["kind"] != "none" and any(not a for a in rec["acp"]):
        return "missing-posterior"
    if any(l["mono"] for l in lines):
        return "monomorphic-site"
    return "regular"


# ----------------------------------------------------------------------------
# spec -> code comparison of one record
# ----------------------------------------------------------------------------
def compare_record(ck, rec, mlines, out_text, chrom="CHR1"):
    """returns list of (field, detail) mismatches that the property states, and informational ones"""
    bad, info = [], []
    try:
        v = vcftext.parse(out_text)
    except Exception as e:
        return [("unparsable-output", str(e))], info
    by_pos = {}
    for r in v.records:
        by_pos.setdefault(r.pos, []).append(r)
    model_pos = {l["pos"]: l for l in mlines}
    for p in by_pos:
        if p not in model_pos:
            bad.append(("line-at-unknown-position", p))
    for l in mlines:
        got = by_pos.get(l["pos"], [])
        if l["mono"]:
            if len(got) > 1:
                bad.append(("one-line-per-site", {"pos": l["pos"], "n": len(got)}))
        elif len(got) != 1:
            bad.append(("one-line-per-site", {"pos": l["pos"], "n": len(got)}))
        for r in got[:1]:
            if r.chrom != chrom:
                bad.append(("chrom", r.chrom))
            if r.ref != l["ref"]:
                bad.append(("ref", {"pos": r.pos, "impl": r.ref, "model": l["ref"]}))
            if r.alts != l["alts"]:
                bad.append(("alt", {"pos": r.pos, "impl": r.alts, "model": l["alts"]}))
            if r.info.get("PS") != str(rec["pos"]):
                bad.append(("ps", {"impl": r.info.get("PS"), "model": rec["pos"]}))
            m = len(l["alts"])
            # GT
            for s, smp in enumerate(r.samples):
                try:
                    al, phased = vcftext.gt(smp.get("GT", ""))
                except Exception:
                    bad.append(("gt", {"impl": smp.get("GT"), "sample": s}))
                    continue
                want = [None if a < 0 else a for a in l["gt"][s]]
                if al != want:
                    bad.append(("gt", {"pos": r.pos, "sample": s, "impl": smp.get("GT"), "model": want}))
                if len(want) > 1 and not phased:
                    bad.append(("gt-not-phased", {"impl": smp.get("GT")}))
            if len(r.samples) != len(l["gt"]):
                bad.append(("n-samples", len(r.samples)))
            # AC
            try:
                ac = vcftext.floats(r.info.get("AC"))
            except Exception:
                ac = ["unparsable"]
            if m == 0:
                if ac not in ([], [None]):
                    bad.append(("ac", {"impl": r.info.get("AC"), "model": "none"}))
            elif ac != [float(x) for x in l["ac"]]:
                bad.append(("ac", {"pos": r.pos, "impl": r.info.get("AC"), "model": l["ac"]}))
            # DS / ACP
            try:
                acp = vcftext.floats(r.info.get("ACP"))
                ds = [vcftext.floats(smp.get("DS")) for smp in r.samples]
            except Exception as e:
                bad.append(("posterior-unparsable", str(e)))
                continue
            if rec["kind"] == "none":
                if any(x is not None for x in acp) or any(x is not None for d in ds for x in d):
                    bad.append(("posterior-without-source", {"ACP": r.info.get("ACP")}))
            else:
                vals = [[Fraction(nn, a["den"]) for nn in a["num"]] if a["den"] else None for a in l["acp"]]
                for s, d in enumerate(ds):
                    if vals[s] is None:  # sample posterior is "." (filtered record): nothing to report
                        if any(x is not None for x in d):
                            bad.append(("posterior-without-source", {"DS": d, "sample": s}))
                        continue
                    if m == 0:
                        if d not in ([], [None]):
                            bad.append(("ds", {"impl": d, "model": "none"}))
                        continue
                    if len(d) != m or any(x is None or not close_text3(x, q) for x, q in zip(d, vals[s][1:])):
                        bad.append(("ds", {"pos": r.pos, "sample": s, "impl": d, "model": [str(q) for q in vals[s][1:]]}))
                if all(x is not None for x in vals):  # else: population total undefined, unconstrained
                    tot = [sum(vals[s][a] for s in range(len(vals))) for a in range(m + 1)]
                    if len(acp) != m + 1 or any(x is None or not close_text3(x, q) for x, q in zip(acp, tot)):
                        bad.append(("acp", {"pos": r.pos, "impl": acp, "model": [str(q) for q in tot]}))
            # DP / PQ: documented by the program's help text, not part of the stated property -> informational
            for s, smp in enumerate(r.samples):
                wdp = str(l["dp"][s]) if l["dp"] else "."
                if smp.get("DP") != wdp:
                    info.append(("format-dp", smp.get("DP"), wdp))
                if smp.get("PQ") != ("." if rec.get("mode") == "AFPM" else str(10 * (s + 1))):
                    info.append(("format-pq", smp.get("PQ")))
            wdp = str(sum(l["dp"])) if l["dp"] else "."
            got_dp = r.info.get("DP")
            if got_dp != wdp and not (got_dp not in (None, ".") and wdp != "." and float(got_dp) == float(wdp)):
                info.append(("info-dp", got_dp, wdp))
    return bad, info


# ----------------------------------------------------------------------------
# code -> spec: haplotype VCF + atomizer output -> trace events
# ----------------------------------------------------------------------------
def abstract_record(r):
    """vcftext record of a haplotype VCF -> abstract record of AtomizeOps (or None if it cannot be expressed)"""
    sp = r.info.get("SNVPOS")
    snvpos = [] if sp in (None, ".", True) else [int(x) for x in sp.split(",")]
    gts = []
    for smp in r.samples:
        al, _ = vcftext.gt(smp["GT"])
        gts.append([-1 if a is None else a for a in al])
    kind = "none"
    acp = []
    for k in ("ACP", "AFP"):
        if k in r.format:
            kind = k
            for smp in r.samples:
                t = smp.get(k)
                try:
                    vals = vcftext.milli(t) if t not in (None, ".") else []
                except ValueError:
                    return None
                acp.append([] if any(x is None for x in vals) else vals)
            break
    dp = []
    if "SNVDP" in r.format:
        for smp in r.samples:
            t = smp.get("SNVDP")
            vals = vcftext.ints(t) if t not in (None, ".") else []
            dp.append([-1 if x is None else x for x in vals])
    return {
        "pos": r.pos, "ref": list(r.ref), "alts": [list(a) for a in r.alts], "snvpos": snvpos, "gts": gts,
        "kind": kind, "acp": acp, "dp": dp,
    }


def abstract_line(r, chrom):
    gt, ph = [], []
    for smp in r.samples:
        al, phased = vcftext.gt(smp.get("GT", "."))
        gt.append([-1 if a is None else a for a in al])
        ph.append(bool(phased) or len(al) == 1)

    def mil(t):
        return [-1 if x is None else x for x in vcftext.milli(t)]

    return {
        "pos": r.pos, "chrom_ok": r.chrom == chrom, "ref": r.ref, "alts": r.alts,
        "ps": int(r.info["PS"]) if str(r.info.get("PS", "")).isdigit() else -1,
        "gt": gt, "phased": ph,
        "ac": [-1 if x is None else int(x) for x in vcftext.floats(r.info.get("AC"))],
        "acp": mil(r.info.get("ACP")),
        "ds": [mil(smp.get("DS")) for smp in r.samples],
    }


def random_record(rnd, wide=False):
    """wide: a record listing 130 - 300 haplotypes over 8 - 9 SNVs (allele numbers beyond a signed / unsigned byte)"""
    L = rnd.randint(2, 8) if not wide else rnd.randint(9, 11)
    ns = rnd.randint(0, min(4, L)) if not wide else rnd.randint(8, 9)
    snvpos = sorted(rnd.sample(range(1, L + 1), ns))
    ref = [rnd.choice("ACGT") for _ in range(L)]
    k = (rnd.randint(0, 5) if ns else 0) if not wide else rnd.choice([130, 200, 260, 300])
    haps = [ref]
    for _ in range(k):
        for _try in range(20):
            h = list(ref)
            for p in snvpos:
                if rnd.random() < 0.5:
                    h[p - 1] = rnd.choice("ACGT")
            if h not in haps:
                haps.append(h)
                break
    k = len(haps) - 1
    nsamp = rnd.randint(1, 4)
    gts = []
    for _ in range(nsamp):
        P = rnd.choice([1, 2, 2, 4, 4, 6])
        gts.append([rnd.choice([-1] + list(range(k + 1)) * 2) for _ in range(P)] if not wide else
                   [rnd.choice([-1, 0, 1, 126, 127, 128, 129, k - 1, k, rnd.randint(0, k), rnd.randint(120, k)]) for _ in range(P)])
    kind = rnd.choice(["none", "ACP", "AFP"])
    acp = []
    if kind != "none":
        for g in gts:
            scale = len(g) * 1000 if kind == "ACP" else 1000
            w = [rnd.choice([0, 1, 1, 2, 3]) for _ in range(k + 1)]
            if sum(w) == 0:
                w[rnd.randrange(k + 1)] = 1
            tot = sum(w)
            vals = [x * scale // tot for x in w]
            if rnd.random() < 0.4:  # not normalised (unreported haplotypes hold the rest)
                vals = [x * 3 // 4 for x in vals]
            if sum(vals) == 0:
                vals[0] = 1
            acp.append(vals)
    dp = [[rnd.randint(0, 40) for _ in snvpos] for _ in gts] if (rnd.random() < 0.5 and ns) else []
    return {"pos": rnd.randint(1, 50), "ref": ref, "alts": haps[1:], "snvpos": snvpos, "gts": gts, "kind": kind,
            "acp": acp, "dp": dp}


def replay(ck, states, seen, wdir, shapes, crashes, info_counts, ok_for_multi):
    """spec -> code: every complete record of one TLC run through the real atomize_vcf"""
    # ---- spec -> code ------------------------------------------------------
    uniq = []
    for s in states:
        r = s["rec"]
        k = json.dumps([r["ref"], r["alts"], r["snvpos"], r["gts"], r["kind"], r["acp"], r["dp"]])
        if k not in seen:
            seen.add(k)
            uniq.append(s)
    states = uniq
    CH = 250
    chunks = [states[i:i + CH] for i in range(0, len(states), CH)]
    tasks = []
    for ci, c in enumerate(chunks):
        items = []
        for j, s in enumerate(c):
            rid = None if s["rec"]["mode"] == "none" else "L%d" % j
            items.append({"id": j, "text": render(s["rec"], rid=rid)})
        tasks.append({"op": "atomize", "dir": wdir, "items": items})
    res = pool.map_tasks("impl.c20", tasks, mode="jit", warm_first=False)
    for c, rr in zip(chunks, res):
        if not rr["ok"]:
            ck.machinery_failure("worker failed: %s" % rr["error"])
        for s, o in zip(c, rr["result"]):
            rec, ml = s["rec"], s["lines"]
            ck.evaluations += 1
            shp = shape_of(rec, ml)
            shapes[shp] = shapes.get(shp, 0) + 1
            SHAPE_EXAMPLE.setdefault(shp, s)
            if any(l["hidx"] != list(range(len(l["hidx"]))) for l in ml) or any(a < 0 for g in rec["gts"] for a in g):
                ck.nontrivial += 1
            if "error" in o:
                kk = (shp, o.get("etype"), o.get("where"))
                crashes[kk] = crashes.get(kk, 0) + 1
                PENDING.append((
                    "shape-rejected",
                    {"record": rec, "vcf_line": render(rec, with_header=False).strip(), "error": o["error"], "in": o.get("where"),
                     "expected": "one line per polymorphic SNVPOS entry; monomorphic sites omitted or ALT '.'"},
                    {"site": SITE, "shape": shp, "error": o.get("etype")},
                ))
                continue
            bad, info = compare_record(ck, rec, ml, o["out"])
            for f, d in bad:
                PENDING.append(("projection-mismatch", {"field": f, "detail": d, "record": rec,
                                                        "vcf_line": render(rec, with_header=False).strip()},
                                {"site": SITE, "field": f, "shape": shp}))
            for t in info:
                info_counts[t[0]] = info_counts.get(t[0], 0) + 1
            if not bad and len(ok_for_multi) < 4000:
                ok_for_multi.append((s, o["out"]))
    if states:
        ck.sample({"kind": "model-record", "record": states[len(states) // 3]["rec"],
                   "model_lines": states[len(states) // 3]["lines"]})
    return len(states)


class Phases:
    """wall time per phase of the check, written into the evidence (coverage.phase_s)"""

    def __init__(self, ck):
        import time

        self.ck, self.t, self.cur, self.d, self.time = ck, time.time(), "tlc+replay", {}, time

    def mark(self, name):
        now = self.time.time()
        self.d[self.cur] = round(self.d.get(self.cur, 0) + now - self.t, 1)
        self.t, self.cur = now, name
        self.ck.note("phase_s", dict(self.d))


def main():
    ck = Check("C20")
    ph = Phases(ck)
    tier = ck.tier
    ck.rule = (
        "TLC builds every haplotype record of the bounded domain (<= 2 ALT x <= 2 SNV sites over {A,C,G}, layouts of SNVPOS "
        "incl. none, two diploid samples with sorted GTs incl. '.', and a haploid+diploid pair with every ordered GT; 5 posterior modes: "
        "none / ACP / un-normalised ACP + SNVDP / AFP / AFP '.') through the build actions and atomizes it site by site; each "
        "complete record is rendered to VCF, run through atomize_vcf and compared with the model lines. Non-trivial = record "
        "with >= 1 SNV site whose site numbering differs from the haplotype numbering, or with a monomorphic site, or a '.' allele."
    )
    cfgs = ["MC_quick.cfg", "MC_ordered.cfg"] if tier == "quick" else ["MC_full.cfg", "MC_ordered.cfg", "MC_thorough.cfg", "MC_tetra.cfg"]
    wdir = os.path.join(ck.wd, "tmp")
    os.makedirs(wdir, exist_ok=True)
    shapes, crashes, info_counts, ok_for_multi = {}, {}, {}, []
    seen = set()
    n_records = 0
    try:
        for cfg in cfgs:
            r = tlc.run(SPEC, "Atomize", cfg, timeout=1500, keep_stdout=False)
            ck.add_tlc(r, "Atomize/" + cfg)
            if r.violated:
                ck.violation("model", {"cfg": cfg, "invariant": r.violated, "text": r.error_text[:1500]},
                             key={"model": "Atomize", "cfg": cfg})
            n_records += replay(ck, r.printed, seen, wdir, shapes, crashes, info_counts, ok_for_multi)
            del r
        killed = 0
        for cfg, inv in (("Mutant_sorted.cfg", "ProjectionConsistent"), ("Mutant_nonorm.cfg", "ACPSumsToPloidy")):
            m = tlc.run(SPEC, "Atomize", cfg)
            if m.violated != inv:
                ck.machinery_failure("mutant spec %s not killed (%s)" % (cfg, m.violated))
            killed += 1
        ck.note("mutant_specs_killed", killed)
    except tlc.TLCError as e:
        ck.machinery_failure(str(e))
    flush_pending(ck)
    ck.traces += n_records
    ck.note("model_records_replayed", n_records)
    ck.note("record_shapes", shapes)
    ck.note("crashes_by_shape", {"/".join(map(str, k)): v for k, v in crashes.items()})
    ck.note("informational_mismatches_outside_property", info_counts)

    ph.mark("multi-record")
    # several records in one file: the output is the concatenation of the per-record outputs
    rnd = random.Random(ck.seed)
    multi_tasks, multi_expect = [], []
    nfiles = 12 if tier == "quick" else 60
    for f in range(nfiles):
        if len(ok_for_multi) < 5:
            break
        pick = rnd.sample(ok_for_multi, min(12, len(ok_for_multi)))
        text = ""
        exp = []
        for j, (s, out) in enumerate(pick):
            rec = dict(s["rec"])
            rec["pos"] = 5 + 10 * j
            # all records of a file share the FORMAT definitions -> only same-mode records
            if rec["mode"] != pick[0][0]["rec"]["mode"]:
                continue
            text += render(rec, with_header=(text == ""), rid="R%d" % j)
            shift = rec["pos"] - s["rec"]["pos"]
            exp.append((rec, [dict(l, pos=l["pos"] + shift, ps=rec["pos"]) for l in s["lines"]]))
        multi_tasks.append({"op": "atomize", "dir": wdir, "items": [{"id": f, "text": text}]})
        multi_expect.append(exp)
    for exp, rr in zip(multi_expect, pool.map_tasks("impl.c20", multi_tasks, mode="jit", warm_first=False)):
        if not rr["ok"]:
            ck.machinery_failure("worker failed: %s" % rr["error"])
        o = rr["result"][0]
        ck.evaluations += 1
        if "error" in o:
            ck.violation("shape-rejected", {"multi_record_file": True, "error": o["error"]},
                         key={"site": SITE, "shape": "multi-record", "error": o.get("etype")})
            continue
        v = vcftext.parse(o["out"])
        for rec, ml in exp:
            sub = "\n".join(r.line for r in v.records if r.info.get("PS") == str(rec["pos"]))
            bad, _ = compare_record(ck, rec, ml, sub)
            for f_, d in bad:
                ck.violation("projection-mismatch", {"field": f_, "detail": d, "record": rec, "multi_record_file": True},
                             key={"site": SITE, "field": f_, "shape": "multi-record"})
        ck.traces += 1

    ph.mark("cli")
    # ---- the real command line: `mchap atomize <file>` in a fresh interpreter, one file per record shape ----
    cli = []
    for shp, s in sorted(SHAPE_EXAMPLE.items()):
        pth = os.path.join(wdir, "cli-%s.vcf" % shp)
        with open(pth, "w") as fh:
            fh.write(render(s["rec"], rid="C1"))
        cli.append((shp, s, pth))
    cres = pool.map_tasks("impl.c20", [{"op": "cli", "argv": ["atomize", pth]} for _, _, pth in cli], mode="jit", warm_first=False)
    for (shp, s, pth), rr in zip(cli, cres):
        if not rr["ok"]:
            ck.machinery_failure("cli worker: %s" % rr["error"])
        r = rr["result"]
        ck.evaluations += 1
        if r["rc"] != 0:
            last = ([l for l in r["err"].strip().splitlines() if l.strip()] or ["?"])[-1]
            ck.violation("shape-rejected", {"cli": "mchap atomize", "exit_status": r["rc"], "stderr_tail": r["err"][-300:],
                                            "vcf_line": render(s["rec"], with_header=False).strip()},
                         key={"site": SITE, "shape": shp, "error": last.split(":")[0].split(".")[-1]})
            continue
        bad, _ = compare_record(ck, s["rec"], s["lines"], r["out"])
        for f_, d in bad:
            ck.violation("projection-mismatch", {"cli": "mchap atomize", "field": f_, "detail": d, "record": s["rec"]},
                         key={"site": "cli:atomize", "field": f_, "shape": shp})
    ck.note("cli_runs", len(cli))

    ph.mark("programs")
    # ---- code -> spec ------------------------------------------------------
    events, sources = [], []
    hap_texts = []  # (label, text)
    # (a) golden haplotype VCFs of the repo
    data = os.path.join(env.REPO, "mchap", "tests", "test_io", "data")
    for fn in sorted(os.listdir(data)):
        if fn.endswith(".vcf") and fn.startswith("simple.output") and not any(x in fn for x in GOLDEN_SKIP):
            with open(os.path.join(data, fn)) as fh:
                hap_texts.append(("golden:" + fn, fh.read()))
    # (b) fresh program runs
    bams3 = ["@simple.sample1.bam", "@simple.sample2.deep.bam", "@simple.sample3.bam"]
    asm = ["--bam"] + bams3 + ["--ploidy", "4", "--targets", "@simple.bed.gz", "--variants", "@simple.vcf.gz",
                               "--reference", "@simple.fasta", "--mcmc-steps", "300", "--mcmc-burn", "100"]
    runs = [("assemble", asm + ["--mcmc-seed", str(11 + ck.seed), "--report", "ACP", "SNVDP"])]
    if tier == "thorough":
        runs += [
            ("assemble", asm + ["--mcmc-seed", str(5 + ck.seed), "--report", "AFP", "--haplotype-posterior-threshold", "0.6"]),
            ("assemble", asm + ["--mcmc-seed", str(7 + ck.seed), "--report", "ACP", "AFP", "SNVDP", "--inbreeding", "0.3"]),
            ("assemble", ["--bam", "@simple.sample1.bam", "--ploidy", "2", "--targets", "@simple.bed.gz", "--variants",
                          "@simple.vcf.gz", "--reference", "@simple.fasta", "--mcmc-steps", "300", "--mcmc-burn", "100",
                          "--mcmc-seed", str(3 + ck.seed), "--report", "SNVDP"]),
        ]
    pr = pool.map_tasks("impl.c20", [{"op": "program", "name": n, "argv": a} for n, a in runs], mode="jit", warm_first=False)
    for (n, a), rr in zip(runs, pr):
        if not rr["ok"] or "error" in rr["result"]:
            ck.note("program_run_failed", str(rr)[:400])  # other properties own program failures
            continue
        hap_texts.append(("run:%s#%d %s" % (n, len(hap_texts), " ".join(a[-4:])), rr["result"]["out"]))
    callruns = []
    for label, text in list(hap_texts):
        if label.startswith("run:assemble"):
            p = os.path.join(ck.wd, "asm-%d.vcf" % len(callruns))
            with open(p, "w") as fh:
                fh.write(text)
            for prog_, extra in (("call-exact", ["--report", "AFP"]), ("call", ["--report", "ACP", "SNVDP", "--mcmc-steps", "300", "--mcmc-burn", "100"])):
                callruns.append((prog_, ["--bam"] + bams3 + ["--ploidy", "4", "--haplotypes", p] + extra))
            if tier == "quick":
                callruns = callruns[:1]
    pr = pool.map_tasks("impl.c20", [{"op": "program", "name": n, "argv": a} for n, a in callruns], mode="jit", warm_first=False)
    for (n, a), rr in zip(callruns, pr):
        if not rr["ok"] or "error" in rr["result"]:
            ck.note("program_run_failed", str(rr)[:400])
            continue
        hap_texts.append(("run:%s#%d" % (n, len(hap_texts)), rr["result"]["out"]))
    # (c) seeded random records beyond the model bounds
    nrand = 600 if tier == "quick" else 6000
    rtext = []
    for i in range(nrand):
        rec = random_record(rnd)
        rtext.append(("random:%d" % i, render(rec, rid="X%d" % i if i % 2 else None)))
    for i in range(6 if tier == "quick" else 40):
        rec = random_record(rnd, wide=True)
        rtext.append(("random-wide:%d" % i, render(rec, rid="W%d" % i if i % 2 else None)))

    ph.mark("atomize-traces")
    # atomize record by record (so that one rejected record does not hide the others) and whole files
    items, meta = [], []
    for label, text in hap_texts + rtext:
        v = vcftext.parse(text)
        head = "\n".join(v.meta + ["#" + "\t".join(v.columns)]) + "\n"
        for i, r in enumerate(v.records):
            items.append({"id": len(items), "text": head + r.line + "\n"})
            meta.append((label, i, r))
    whole = [{"id": i, "text": t} for i, (l, t) in enumerate(hap_texts)]
    tasks = [{"op": "atomize", "dir": wdir, "items": items[i:i + 100]} for i in range(0, len(items), 100)]
    tasks.append({"op": "atomize", "dir": wdir, "items": whole})
    res = pool.map_tasks("impl.c20", tasks, mode="jit", warm_first=False)
    flat = []
    for rr in res[:-1]:
        if not rr["ok"]:
            ck.machinery_failure("worker failed: %s" % rr["error"])
        flat.extend(rr["result"])
    per_file_lines = {}
    for (label, i, r), o in zip(meta, flat):
        a = abstract_record(r)
        if a is None:
            ck.bump("records_not_expressible")
            continue
        ev = {"rec": a, "crashed": "error" in o, "lines": [], "malformed": False}
        if "error" not in o:
            try:
                outv = vcftext.parse(o["out"])
                ev["lines"] = [abstract_line(x, r.chrom) for x in outv.records]
                per_file_lines.setdefault(label, []).extend(x.line for x in outv.records)
            except Exception as e:
                ev["malformed"] = True
                ev["why"] = str(e)[:200]
        events.append(ev)
        sources.append((label, i, r.line, o.get("error"), o.get("etype"), o.get("where")))
    if res[-1]["ok"]:
        for (label, text), o in zip(hap_texts, res[-1]["result"]):
            ck.evaluations += 1
            if "error" in o:
                continue  # reported per record below
            got = [x.line for x in vcftext.parse(o["out"]).records]
            if got != per_file_lines.get(label, []):
                ck.violation("stream-mismatch", {"file": label, "whole_file_lines": len(got),
                                                 "per_record_lines": len(per_file_lines.get(label, []))},
                             key={"site": SITE, "field": "whole-file-vs-per-record"})
    ph.mark("trace")
    tf = os.path.join(ck.wd, "trace.json")
    with open(tf, "w") as fh:
        json.dump(events, fh)
    try:
        t = tlc.run(SPEC, "TraceAtomize", "Trace.cfg", workers=1, extra_env={"TRACE_FILE": tf}, timeout=1500)
    except tlc.TLCError as e:
        ck.machinery_failure(str(e))
    ck.add_tlc(t, "TraceAtomize")
    consumed = [p for p in t.printed if "consumed" in p]
    if not consumed or consumed[0]["consumed"] != len(events):
        ck.machinery_failure("trace not fully consumed: %s of %d" % (consumed, len(events)))
    for p in t.printed:
        if "reject" in p:
            e = events[p["reject"] - 1]
            label, i, line, err, etype, where = sources[p["reject"] - 1]
            shp = "no-snv" if not e["rec"]["snvpos"] else ("no-alt" if not e["rec"]["alts"] else None)
            if shp is None:
                cols = [[h[q - 1] for h in [e["rec"]["ref"]] + e["rec"]["alts"]] for q in e["rec"]["snvpos"]]
                shp = "monomorphic-site" if any(len(set(c)) == 1 for c in cols) else "regular"
                if shp == "regular" and e["rec"]["kind"] != "none" and any(not a for a in e["rec"]["acp"]):
                    shp = "missing-posterior"
            if p["clause"] == "EveryShapeAccepted":
                ck.violation("shape-rejected", {"source": label, "record_index": i, "vcf_line": line, "error": err, "in": where},
                             key={"site": SITE, "shape": shp, "error": etype})
            else:
                ck.violation("trace-reject", {"source": label, "record_index": i, "clause": p["clause"], "vcf_line": line,
                                              "atomized": e["lines"]},
                             key={"site": SITE, "clause": p["clause"], "shape": shp})
    ck.traces += len(events)
    ck.evaluations += len(events)
    ck.note("trace_events", {"golden_or_run_records": sum(1 for s in sources if not s[0].startswith("random")),
                             "random_records": sum(1 for s in sources if s[0].startswith("random")),
                             "haplotype_files": len(hap_texts)})
    rejected = {p["reject"] - 1 for p in t.printed if "reject" in p}
    good = [e for i, e in enumerate(events) if i not in rejected and not e["crashed"] and any(l["alts"] for l in e["lines"])
            and e["lines"][0]["alts"] and e["lines"][0]["gt"][0][0] >= 0]
    if good:
        ck.sample({"kind": "atomized-record", "event": good[0]})
        # binding demonstration: corrupted recorded outputs must be rejected, each by the right clause
        import copy

        bads = []
        b = copy.deepcopy(good[0]); b["lines"][0]["pos"] += 1; bads.append((b, "LineAtUnknownPosition"))
        b = copy.deepcopy(good[0]); b["lines"][0]["gt"][0][0] = 1 - max(0, b["lines"][0]["gt"][0][0]); bads.append((b, "GTProjection"))
        b = copy.deepcopy(good[0]); b["lines"][0]["ac"][0] += 1; bads.append((b, "AC"))
        b = copy.deepcopy(good[0]); b["lines"] = b["lines"][1:]; bads.append((b, "OneLinePerSite"))
        b = copy.deepcopy(good[0]); b["lines"][0]["ps"] += 1; bads.append((b, "PS"))
        multi = [e for e in good if any(len(l["alts"]) >= 2 for l in e["lines"])]
        good = good[:1]
        if multi:
            b = copy.deepcopy(multi[0])
            for l in b["lines"]:
                if len(l["alts"]) >= 2:
                    l["alts"] = l["alts"][::-1]
            bads.append((b, "AltBases"))
        wp = [e for e in good if e["rec"]["kind"] != "none" and all(e["rec"]["acp"])]
        if wp:
            b = copy.deepcopy(wp[0])
            for l in b["lines"]:
                if l["alts"] and l["ds"][0][0] >= 0:
                    l["ds"][0][0] += 2
                    break
            bads.append((b, "DS"))
        tfb = os.path.join(ck.wd, "trace-corrupt.json")
        with open(tfb, "w") as fh:
            json.dump([b for b, _ in bads], fh)
        t = tlc.run(SPEC, "TraceAtomize", "Trace.cfg", workers=1, extra_env={"TRACE_FILE": tfb})
        rej = {p["reject"]: p["clause"] for p in t.printed if "reject" in p}
        for i, (_, clause) in enumerate(bads):
            if rej.get(i + 1) != clause:
                ck.machinery_failure("corrupted trace %d not rejected by %s (got %s)" % (i + 1, clause, rej.get(i + 1)))
        ck.note("corrupted_traces_rejected", len(bads))
    elif not ck.violations:
        ck.machinery_failure("no accepted atomized record to corrupt")
    try:
        import shutil

        shutil.rmtree(wdir, ignore_errors=True)
    except Exception:
        pass
    ph.mark("end")
    ck.exhaustive = True
    ck.assumptions = [
        "TLC and the CommunityModules Json/IOUtils operators are correct",
        "the VCF text writer (vlib/vcfgen.py) renders the abstract record faithfully; output is read by vlib/vcftext.py, not pysam",
        "exhaustive within the stated record domain; larger records (length <= 8, <= 5 ALT, ploidy <= 6) are seeded random",
        "FORMAT DP/PQ/GQ and INFO DP of the atomized file are outside the stated property (reported informationally)",
    ]
    ck.finish()


if __name__ == "__main__":
    main()
