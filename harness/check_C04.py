"""C04: read likelihood has the documented mixture semantics and symmetries.

spec  : spec/Likelihood/{Likelihood,TraceLikelihood}.tla (+ spec/common/ReadWeights.tla)
bind  : every TLC state of SpecMixture (genotype x read set, exact per-read numerators) ->
        assemble.likelihood.log_likelihood (+ _cached), calling.likelihood.log_likelihood_alleles (+ _cached),
        pedigree.likelihood.log_likelihood_alleles_cached;  every terminal state of SpecStructural
        (genotype x index vector x interval, the rearranged genotype and the numerators of EVERY read of the
        alphabet) -> jitutils.structural_change, log_likelihood_structural_change (+ _cached);
        compiled and interpreted;  random tensors recorded as cell codes -> TraceLikelihood.tla
"""
import json
import math
import os
import sys
from fractions import Fraction

sys.path.insert(0, os.path.dirname(os.path.abspath(__file__)))
from vlib import env, tlc, pool
from vlib.report import Check
from vlib.compare import close_log, log_fraction

SPEC = os.path.join(env.SPEC, "Likelihood")

MUTANTS = [
    ("Mutant_interval.cfg", "StructuralEqualsApplied"),
    ("Mutant_nocache.cfg", "ApplyIsRearranged"),
    ("Mutant_gap.cfg", "GapIsOne"),
    ("Mutant_count.cfg", "CountIsDuplication"),
    ("Mutant_mean.cfg", "AllGapIsCertain"),
]
REL = 1e-9


def close_ll(v, want):
    """v: implementation log-likelihood; want: float (may be -inf)"""
    if isinstance(v, str) or v is None or (isinstance(v, float) and math.isnan(v)):
        return False
    if want == -math.inf:
        return v == -math.inf
    if v == -math.inf:
        return False
    return abs(v - want) <= REL * max(1.0, abs(want))


def exact_num(x, want):
    """x = exp(llk) * den as float; want: model integer numerator.  round(x) must be the integer
    exactly, and x must be integral up to float noise."""
    if isinstance(x, str) or x is None or math.isnan(x):
        return False
    return round(x) == want and abs(x - want) <= 1e-7 * max(1.0, want)


def set_loglik(factors, den):
    """sum of count * ln(num/den); -inf if a factor with positive count is zero; None if undefined
    (zero count on a zero-probability read: 0 * -inf is not defined by the property)"""
    if any(num == 0 and cnt == 0 for num, cnt in factors):
        return None
    tot = 0.0
    for num, cnt in factors:
        if num == 0:
            return -math.inf
        tot += cnt * log_fraction(Fraction(num, den))
    return tot


def shape_key(s):
    return (s["P"], s["N"], tuple(s["A"]))


MIX_LL = ["ll", "ll_i32", "ll_hperm", "ll_hrev", "ll_rrev", "ll_c_none", "ll_c_miss", "ll_c_hit",
          "lla", "lla_perm", "lla_c_none", "lla_c_miss", "lla_c_hit", "ped_none", "ped_miss", "ped_hit"]
MIX_EMBEDDED = ["ll_padend", "ll_padstart", "lls_padend", "lls_padstart", "ll_c_padmiss", "ll_c_padhit", "lla_padend", "lla_padstart", "ped_padend",
                "ll_pool", "lla_pool", "lla_pool_unsorted", "ped_pool"]
SITE = {"lls": "assemble.likelihood.log_likelihood_structural_change", "ll": "assemble.likelihood.log_likelihood", "ll_c": "assemble.likelihood.log_likelihood_cached",
        "lla": "calling.likelihood.log_likelihood_alleles", "lla_c": "calling.likelihood.log_likelihood_alleles_cached",
        "ped": "pedigree.likelihood.log_likelihood_alleles_cached"}


def site_of(name):
    for pre in ("ll_c", "lla_c", "lla", "lls", "ped", "ll"):
        if name.startswith(pre):
            return SITE[pre]
    return name


def compare_mix(ck, s, o, mode, stats):
    den = s["den"]
    f = [(int(a), int(b)) for a, b in s["f"]]
    want = set_loglik(f, den)
    has_gap = any(c < 0 for r in s["rds"] for c in r[0])
    base = {"shape": "P%dN%d" % (s["P"], s["N"]), "n_reads": len(f)}
    for k, (num, cnt) in enumerate(f):
        stats["evals"] += 1
        if not exact_num(o["single"][k], num):
            ck.violation("mixture-numerator", {"mode": mode, "state": s, "read": k, "impl_times_den": o["single"][k], "model_num": num},
                         key=dict(base, site=SITE["ll"], variant="single-read", gap=has_gap))
    # long locus: columns repeated 16 times; exact numerator = sum_h HapNum_h^16 over P * 24^(16 N)
    if "hn" in s and "tiled" in o:
        for k, hn in enumerate(s["hn"]):
            big = sum(int(x) ** 16 for x in hn)
            for nm in ("tiled", "tiled_struct", "lla_tiled", "ped_tiled"):
                if nm not in o:
                    continue
                v = o[nm][k]
                stats["evals"] += 1
                if big == 0:
                    ok = (not isinstance(v, str)) and v == -math.inf
                    wl = "-inf"
                else:
                    wl = math.log(big) - math.log(s["P"]) - 16 * s["N"] * math.log(24)
                    ok = (not isinstance(v, str)) and abs(v - wl) <= 1e-9 * max(1.0, abs(wl))
                if not ok:
                    ck.violation("mixture-long-locus", {"mode": mode, "state": {k2: s[k2] for k2 in ("P", "N", "A", "G", "rds")}, "read": k, "columns_repeated": 16,
                                                        "impl_log": v, "model_log": wl},
                                 key=dict(base, site={"tiled": SITE["ll"], "tiled_struct": SITE["lls"], "lla_tiled": SITE["lla"], "ped_tiled": SITE["ped"]}[nm],
                                          variant="long-locus"))
    if want is None:
        stats["undefined"] += 1
        return
    names = list(MIX_LL) + [nm for nm in MIX_EMBEDDED if nm in o]
    if "ll_expand" in o:
        names += ["ll_expand", "ll_expand_ones"]
    for nm in names:
        stats["evals"] += 1
        # the pedigree entry point drops zero-count reads, the others multiply by zero: same value when defined
        if not close_ll(o[nm], want):
            ck.violation("likelihood-value", {"mode": mode, "state": s, "fn": nm, "impl": o[nm], "model": want, "perm": o.get("perm")},
                         key=dict(base, site=site_of(nm), variant=nm, gap=has_gap))
    # how the dict caches key their entries is cache behaviour (C09), not a clause of C04: informational only
    if o["lla_c_size"] != 1 or o["ped_size"] != 1:
        stats["cache_entries_not_one"] = stats.get("cache_entries_not_one", 0) + 1


def compare_struct(ck, s, o, mode, stats):
    den = s["den"]
    base = {"shape": "P%dN%d" % (s["P"], s["N"]), "perm": sorted(s["idx"]) == list(range(1, s["P"] + 1)),
            "full": s["lo"] == 0 and s["hi"] == s["N"], "empty": s["lo"] == s["hi"]}
    stats["evals"] += 1
    if o["applied"] != s["work"]:
        ck.violation("rearrangement", {"mode": mode, "state": s, "impl": o["applied"]},
                     key=dict(base, site="jitutils.structural_change", variant="interval"))
    if "applied_none" in o:
        stats["evals"] += 1
        if o["applied_none"] != s["work"]:
            ck.violation("rearrangement", {"mode": mode, "state": s, "impl": o["applied_none"]},
                         key=dict(base, site="jitutils.structural_change", variant="interval-none"))
    if not o["input_unchanged"]:
        # not a clause of C04 by itself (wrong values that follow from it are reported below)
        stats["input_mutated"] = stats.get("input_mutated", 0) + 1
    for i, num in enumerate(s["nums"]):
        stats["evals"] += 2
        if not exact_num(o["struct"][i], num):
            ck.violation("structural-numerator", {"mode": mode, "state": s,
                                                  "read_index": i, "impl_times_den": o["struct"][i], "model_num": num},
                         key=dict(base, site="assemble.likelihood.log_likelihood_structural_change", variant="single-read"))
        if not exact_num(o["direct"][i], num):
            ck.violation("mixture-numerator", {"mode": mode, "state": s,
                                               "read_index": i, "impl_times_den": o["direct"][i], "model_num": num},
                         key=dict(base, site=SITE["ll"], variant="single-read-rearranged"))
    counts = [(i % 3) + 1 for i in range(len(s["nums"]))]
    want = set_loglik(list(zip(s["nums"], counts)), den)
    names = ["set_struct", "set_direct", "c_none", "c_miss", "c_hit"]
    # where the cached wrapper files its entry is cache behaviour (C09): informational only
    if not close_ll(o["c_key"], want):
        stats["cache_entry_not_under_rearranged_genotype"] = stats.get("cache_entry_not_under_rearranged_genotype", 0) + 1
    if "set_struct_none" in o:
        names.append("set_struct_none")
    for nm in names:
        stats["evals"] += 1
        if not close_ll(o[nm], want):
            site = ("assemble.likelihood.log_likelihood_structural_change_cached" if nm.startswith("c_")
                    else "assemble.likelihood.log_likelihood_structural_change" if "struct" in nm else SITE["ll"])
            ck.violation("likelihood-value", {"mode": mode, "state": s,
                                              "fn": nm, "impl": o[nm], "model": want},
                         key=dict(base, site=site, variant=nm))


def run_replay(ck, states, op, compare, stats, chunk, label, sample_rule):
    chunks = [states[i: i + chunk] for i in range(0, len(states), chunk)]
    for mode in ("jit", "py"):
        res = pool.map_tasks("impl.c04", [{"op": op, "states": c, "seed": ck.seed + i} for i, c in enumerate(chunks)], mode=mode)
        for c, rr in zip(chunks, res):
            if not rr["ok"]:
                ck.violation("impl-error", {"mode": mode, "error": rr["error"], "tb": rr.get("tb"), "first_state": c[0]},
                             key={"site": label, "mode": mode})
                continue
            for s, o in zip(c, rr["result"]):
                compare(ck, s, o, mode, stats)
        ck.sample({"kind": label, "mode": mode, "state": states[sample_rule(len(states))]})


def replay_one(ck, path):
    with open(path) as fh:
        rec = json.load(fh)
    s = rec["detail"].get("state")
    if not s or "G" not in s:
        print("nothing to replay in %s (kind=%s)" % (path, rec.get("kind")))
        sys.exit(2)
    op = "struct" if "idx" in s and "nums" in s else "mix" if "rds" in s and "f" in s else None
    if op is None:
        print("violation file does not carry the full model state; re-run ./check C04")
        sys.exit(2)
    stats = {"evals": 0, "undefined": 0}
    for mode in ("jit", "py"):
        rr = pool.map_tasks("impl.c04", [{"op": op, "states": [s], "seed": ck.seed}], mode=mode)[0]
        print("replay mode=%s impl=%s" % (mode, json.dumps(rr)[:2000]))
        if rr["ok"]:
            (compare_struct if op == "struct" else compare_mix)(ck, s, rr["result"][0], mode, stats)
    ck.evaluations = stats["evals"]
    ck.states = ck.transitions = 1
    ck.sample({"kind": "replayed-state", "state": s})
    ck.finish()


def main():
    ck = Check("C04")
    tier = ck.tier
    for fn in ([] if os.environ.get("VERIF_REPLAY") else os.listdir(ck.wd)):   # nothing is reused from an earlier run
        if fn.startswith(("violation-", "trace-")):
            os.remove(os.path.join(ck.wd, fn))
    import time as _time
    _t = [_time.time()]
    phases = {}

    def lap(name):
        phases[name] = round(_time.time() - _t[0], 1)
        _t[0] = _time.time()
        ck.note("phase_wall_s", phases)

    ck.rule = (
        "TLC enumerates (a) every genotype x read set of each shape (read cells over gap + the alleles of each SNV, "
        "P(correct)=7/8; pairs of reads with counts 0..2 for the smallest shape; haplotypes may carry zero-probability "
        "non-alleles) and (b) every genotype x index vector (all functions 1..P -> 1..P) x half-open interval, running "
        "the in-place rearrangement column by column; each state is replayed into the real likelihood functions "
        "(compiled and interpreted) and single-read values must reproduce the integer numerators exactly. "
        "Non-trivial = mixture state with a gap or a non-allele or two reads; structural state whose index vector is "
        "not the identity and whose interval is neither empty nor full."
    )
    if os.environ.get("VERIF_REPLAY"):
        replay_one(ck, os.environ["VERIF_REPLAY"])
    try:
        r = tlc.run(SPEC, "Likelihood", "MC_%s.cfg" % tier, timeout=2400, name="Likelihood-mix")
        ck.add_tlc(r, "Likelihood-mixture")
        if r.violated:
            ck.violation("model", {"invariant": r.violated, "text": r.error_text[:1500]}, key={"model": "Likelihood/SpecMixture"})
        mix = r.printed
        if len(mix) != r.distinct:
            ck.machinery_failure("mixture: dumped %d states but TLC found %d" % (len(mix), r.distinct))
        r2 = tlc.run(SPEC, "Likelihood", "Struct_%s.cfg" % tier, timeout=2400, name="Likelihood-struct")
        ck.add_tlc(r2, "Likelihood-structural")
        if r2.violated:
            ck.violation("model", {"invariant": r2.violated, "text": r2.error_text[:1500]}, key={"model": "Likelihood/SpecStructural"})
        st = r2.printed
        killed = 0
        for cfg, inv in MUTANTS:
            m = tlc.run(SPEC, "Likelihood", cfg)
            if m.violated != inv:
                ck.machinery_failure("mutant spec %s not killed (expected %s violated, got %s)" % (cfg, inv, m.violated))
            killed += 1
        ck.note("mutant_specs_killed", killed)
        # every action of both state machines must actually be taken (TLC -coverage on the small instance set)
        cov = {}
        for cfg, acts in (("MC_tiny.cfg", ["MIncG", "MIncCell", "MIncCount", "MAddRead"]),
                          ("Struct_tiny.cfg", ["SIncG", "SIncIdx", "SIncHi", "SIncLo", "SBegin", "SColumn", "SFinish"])):
            c = tlc.run(SPEC, "Likelihood", cfg, coverage=True, name="Likelihood-coverage")
            for a in acts:
                n = c.coverage.get(a, (0, 0))
                cov[a] = {"distinct": min(n), "generated": max(n)}
                if max(n) == 0:
                    ck.machinery_failure("action %s never taken in %s" % (a, cfg))
        ck.note("action_coverage_small_instances", cov)
    except tlc.TLCError as e:
        ck.machinery_failure(str(e))
    lap("tlc_model_checking_mutants_coverage")
    if not mix or not st:
        ck.machinery_failure("no states dumped")

    # ---- spec -> code ---------------------------------------------------------
    stats = {"evals": 0, "undefined": 0}
    mix.sort(key=lambda s: json.dumps(s, sort_keys=True))
    st.sort(key=lambda s: json.dumps([s["P"], s["N"], s["A"], s["G"], s["idx"], s["lo"], s["hi"]]))
    run_replay(ck, mix, "mix", compare_mix, stats, 500, "mixture-state", lambda n: (2 * n) // 3)
    lap("replay_mixture_jit_py")
    run_replay(ck, st, "struct", compare_struct, stats, 150, "structural-terminal-state", lambda n: n // 2)
    lap("replay_structural_jit_py")
    ck.evaluations += stats["evals"]
    ck.note("undefined_zero_count_on_zero_probability_read", stats["undefined"])
    for k in ("cache_entries_not_one", "input_mutated", "cache_entry_not_under_rearranged_genotype"):
        ck.note("info_" + k, stats.get(k, 0))
    nt = 0
    for s in mix:
        A = s["A"]
        if len(s["rds"]) > 1 or any(c < 0 for rd in s["rds"] for c in rd[0]) or any(x >= A[j] for hp in s["G"] for j, x in enumerate(hp)):
            nt += 1
    for s in st:
        if s["idx"] != list(range(1, s["P"] + 1)) and s["lo"] < s["hi"] and not (s["lo"] == 0 and s["hi"] == s["N"]):
            nt += 1
    ck.nontrivial += nt
    ck.note("mixture_states", len(mix))
    ck.note("structural_terminal_states", len(st))
    ck.note("structural_nonpermutation_index_vectors", sum(1 for s in st if sorted(s["idx"]) != list(range(1, s["P"] + 1))))
    ck.traces += len(st)  # each terminal state is one complete rearrangement behaviour (inst -> apply* -> done)

    # ---- code -> spec: random tensors --------------------------------------------
    n_inst = 240 if tier == "quick" else 3000
    batches = 2 if tier == "quick" else 12
    res = pool.map_tasks("impl.c04", [{"op": "random_trace", "n": n_inst // batches, "seed": ck.seed * 1000 + b} for b in range(batches)],
                         mode="jit", warm_first=False)
    first_ev = None
    for b, rr in enumerate(res):
        if not rr["ok"]:
            ck.violation("impl-error", {"error": rr["error"], "tb": rr.get("tb")}, key={"site": "random_trace"})
            continue
        ev, sets = rr["result"]["events"], rr["result"]["sets"]
        for e in ev:
            if e["op"] == "error":
                ck.violation("impl-error", {"event": e}, key={"site": e["what"], "variant": "random-trace"})
        ev = [e for e in ev if e["op"] != "error"]
        first_ev = first_ev or ev
        tf = os.path.join(ck.wd, "trace-%d.json" % b)
        with open(tf, "w") as fh:
            json.dump(ev, fh)
        try:
            t = tlc.run(SPEC, "TraceLikelihood", "Trace.cfg", workers=1, extra_env={"TRACE_FILE": tf}, name="TraceLikelihood-%d" % b, timeout=1800)
        except tlc.TLCError as e:
            ck.machinery_failure(str(e))
        ck.add_tlc(t, "TraceLikelihood-%d" % b)
        consumed = [p for p in t.printed if "consumed" in p]
        if not consumed or consumed[0]["consumed"] != len(ev):
            ck.machinery_failure("trace %s not fully consumed: %s %s" % (tf, consumed, t.error_text[:800]))
        rejected_lines = set()
        for p in t.printed:
            if "reject" in p:
                e = ev[p["reject"] - 1]
                rejected_lines.add(p["reject"])
                inst = next((x for x in reversed(ev[: p["reject"]]) if x["op"] == "begin"), None)
                ck.violation("trace-reject", {"file": tf, "line": p["reject"], "clause": p["clause"], "event": e, "instance": inst},
                             key={"site": e["op"], "clause": p["clause"]})
        # the bag TLC accumulated over the read lines predicts the set-level value
        bags = [p for p in t.printed if "setline" in p]
        bags.sort(key=lambda p: p["setline"])
        if len(bags) != len(sets):
            ck.machinery_failure("trace %s: %d bags for %d read sets" % (tf, len(bags), len(sets)))
        for bg, ss in zip(bags, sets):
            ck.evaluations += 1
            if bg["nreads"] != len(ss["cells"]):
                continue  # a read line was an error event (already reported)
            zero_undefined = any(c == 0 and (v is not None and v == -math.inf) for c, v in zip(ss["counts"], ss["singles"]))
            if zero_undefined:
                ck.bump("undefined_zero_count_on_zero_probability_read_random")
                continue
            want = set_loglik([(int(a), int(c)) for a, c in bg["bag"]], bg["den"])
            if any(v == -math.inf and c > 0 for c, v in zip(ss["counts"], ss["singles"])):
                want = -math.inf
            if not close_ll(ss["ll"], want):
                ck.violation("set-likelihood", {"instance": ss, "model_bag": bg["bag"], "den": bg["den"], "impl": ss["ll"], "model": want},
                             key={"site": SITE["ll"], "variant": "read-set-vs-bag"})
        ck.traces += len(ev)
        ck.evaluations += len(ev)
        ck.nontrivial += sum(1 for e in ev if e["op"] in ("struct", "apply") and e["lo"] < e["hi"])
    if first_ev:
        ck.sample({"kind": "recorded-trace-prefix", "events": first_ev[:3]})
    # binding demonstration, built from the MODEL's own values (independent of the implementation):
    # the faithful trace must be accepted line by line, each corrupted field rejected for its own clause
    import itertools
    sd = next(s for s in st if s["idx"] != list(range(1, s["P"] + 1)) and 0 < s["hi"] - s["lo"] < s["N"])
    reads = [list(c) for c in itertools.product(*[range(-1, a) for a in sd["A"]])]
    k = len(reads) // 2
    good = [{"op": "begin", "P": sd["P"], "N": sd["N"], "A": sd["A"], "G": sd["G"]},
            {"op": "read", "cells": reads[k], "count": 2, "num": sd["base"][k], "frac6": 0},
            {"op": "apply", "idx": sd["idx"], "lo": sd["lo"], "hi": sd["hi"], "out": sd["work"]},
            {"op": "struct", "idx": sd["idx"], "lo": sd["lo"], "hi": sd["hi"], "cells": reads[k], "num": sd["nums"][k], "frac6": 0},
            {"op": "end"}]
    bad = json.loads(json.dumps(good))
    bad[1]["num"] += 1
    bad[2]["out"][0][0] = (bad[2]["out"][0][0] + 1) % 4
    bad[3]["num"] += 3
    bad.insert(2, dict(bad[1], num=good[1]["num"], frac6=40))
    wanted = ["MixtureNumeratorExact", "NumeratorIsIntegral", "ApplyIsRearranged", "StructuralEqualsApplied"]
    for name, evs, want in (("trace-faithful.json", good, []), ("trace-corrupt.json", bad, wanted)):
        tfb = os.path.join(ck.wd, name)
        with open(tfb, "w") as fh:
            json.dump(evs, fh)
        try:
            t = tlc.run(SPEC, "TraceLikelihood", "Trace.cfg", workers=1, extra_env={"TRACE_FILE": tfb}, name="TraceLikelihood-demo")
        except tlc.TLCError as e:
            ck.machinery_failure(str(e))
        got = [p["clause"] for p in t.printed if "reject" in p]
        if got != want:
            ck.machinery_failure("%s: expected rejections %s, got %s" % (name, want, got))
    ck.note("corrupted_traces_rejected", len(wanted))

    lap("trace_validation")
    # ---- arbitrary float tensors: the TLC-checked theorems as code-vs-code relations ----
    nf = 200 if tier == "quick" else 4000
    res = pool.map_tasks("impl.c04", [{"op": "float_tensors", "n": nf // 4, "seed": ck.seed * 31 + b} for b in range(4)], mode="jit", warm_first=False)
    nfl = 0
    for rr in res:
        if not rr["ok"]:
            ck.violation("impl-error", {"error": rr["error"], "tb": rr.get("tb")}, key={"site": "float_tensors"})
            continue
        for x in rr["result"]:
            nfl += 1
            for nm, ref, theorem in (("ll", x["ref"], "MixtureDefinition"), ("ll_hperm", x["ll"], "HapOrderInvariant"),
                                     ("ll_rperm", x["ll"], "ReadOrderInvariant"), ("ll_expand", x["ll"], "CountIsDuplication"),
                                     ("ll_struct", x["ll_applied"], "StructuralEqualsApplied")):
                ck.evaluations += 1
                if not close_ll(x[nm], ref if not isinstance(ref, str) else math.nan):
                    ck.violation("float-relation", {"theorem": theorem, "instance": x},
                                 key={"site": SITE["ll"] if nm != "ll_struct" else "assemble.likelihood.log_likelihood_structural_change",
                                      "variant": "float-" + theorem})
    ck.note("float_tensor_instances", nfl)
    lap("float_relations")

    ck.exhaustive = True
    ck.assumptions = [
        "TLC and CommunityModules Json are correct; Python fractions",
        "exhaustive inside the stated shapes (every genotype, read, index vector, interval); beyond them seeded random "
        "tensors (7/8 grid validated by TLC, arbitrary floats through the TLC-checked relations evaluated code-vs-code)",
        "float bridge: single-read values must round to the exact integer numerator (|x - num| <= 1e-7*num); "
        "set-level |llk - sum count*ln(num/den)| <= 1e-9*max(1,|.|); probability zero <=> -inf",
        "a zero count on a zero-probability read (0 * -inf) is not defined by the property and is not compared",
    ]
    ck.finish()


if __name__ == "__main__":
    main()
