"""C01: every assemble move leaves the (tempered) posterior over unordered genotypes invariant.

spec : spec/AssembleMoves/{AssembleMoves,TraceAssemble}.tla
bind : (a) every bag TLC reaches, in EVERY row order, x every interval x move kind -> the compiled option functions
           (option classes, option count, return count from relabelled labels and recomputed from scratch, copy counts);
       (b) interpreted base_step / interval_step with random_choice replaced by a recorder: the probability vector of
           every (ordered state, site / interval) equals the model kernel row instantiated with real factors
           u(G) = log-likelihood + log-prior, and the extracted kernel satisfies detailed balance w.r.t. exp(t u(G)) directly;
       (c) chain_swap_acceptance (compiled) vs the exchange rule;
       (d) complete interpreted DenovoMCMC.fit runs recorded as Mutate/Interval/Exchange/Record events and validated by
           TraceAssemble.tla (temperature per rung, sweep completeness, options, exchange swaps matrices AND likelihoods).
"""
import json
import os
import sys
from concurrent.futures import ThreadPoolExecutor
from math import comb

sys.path.insert(0, os.path.dirname(os.path.abspath(__file__)))
from vlib import env, tlc, pool
from vlib.report import Check

SPEC = os.path.join(env.SPEC, "AssembleMoves")
GRID = {  # cfg -> (P, A)
    "MC_2_1_3": (2, [3]), "MC_2_3_223": (2, [2, 2, 3]), "MC_3_2_23": (3, [2, 3]), "MC_4_2_22": (4, [2, 2]),
    "MC_3_3_222": (3, [2, 2, 2]), "MC_6_2_22": (6, [2, 2]), "MC_5_2_22": (5, [2, 2]), "MC_4_3_222": (4, [2, 2, 2]), "MC_4_3_223": (4, [2, 2, 3]),
    "MC_4_4_2222": (4, [2, 2, 2, 2]),
}
MUTANTS = ["Mutant_nret", "Mutant_propinv", "Mutant_ratioinv", "Mutant_tempprop"]


def prod(xs):
    r = 1
    for x in xs:
        r *= x
    return r


def main():
    ck = Check("C01")
    quick = ck.tier == "quick"
    ck.rule = (
        "TLC reaches every unordered genotype (bag of haplotypes) of each (ploidy, alleles-per-SNV) instance from the all-reference "
        "genotype through the moves themselves (irreducibility) and checks novelty, distinctness, reversibility and detailed balance "
        "of every mutation / recombination / dosage option at two temperatures, for every interval. Every bag is replayed in every "
        "row order into the real code. Non-trivial = bags with a duplicated haplotype (where copy-count and return-count terms matter)."
    )
    cfgs = ["MC_2_1_3", "MC_2_3_223", "MC_3_2_23", "MC_4_2_22", "MC_3_3_222", "MC_6_2_22", "MC_5_2_22"]
    if not quick:
        cfgs += ["MC_4_3_222", "MC_4_3_223"]
    results = {}
    try:
        with ThreadPoolExecutor(max_workers=4) as ex:
            jobs = cfgs + MUTANTS
            for c, r in zip(jobs, ex.map(lambda c: tlc.run(SPEC, "AssembleMoves", c + ".cfg", workers=4 if quick else 8, timeout=6000), jobs)):
                results[c] = r
    except tlc.TLCError as e:
        ck.machinery_failure(str(e))
    for m in MUTANTS:
        if not results[m].violated:
            ck.machinery_failure("mutant spec %s not killed" % m)
    ck.note("mutant_specs_killed", len(MUTANTS))
    states = {}
    for c in cfgs:
        r = results[c]
        ck.add_tlc(r, "AssembleMoves/" + c)
        P, A = GRID[c]
        if r.violated:
            ck.violation("model", {"cfg": c, "invariant": r.violated, "text": r.error_text[:1500]}, key={"model": c})
            continue
        want = comb(prod(A) + P - 1, P)
        if r.distinct != want:
            ck.violation("model-irreducible", {"cfg": c, "reached": r.distinct, "all_bags": want}, key={"model": c, "clause": "Irreducible"})
        seen = {}
        for p in r.printed:
            seen[tuple(p["g"])] = p
        states[c] = list(seen.values())
        r.printed = None
    ck.sample({"kind": "bag-with-moves", "cfg": "MC_3_2_23", "state": next(s for s in states["MC_3_2_23"] if len(set(s["g"])) == 2)})

    # ---- (a) options, compiled, every ordering -------------------------------------------
    tasks = []
    for c in cfgs:
        P, A = GRID[c]
        st = states.get(c, [])
        for i in range(0, len(st), 40):
            tasks.append({"op": "options", "A": A, "states": st[i : i + 40], "cfg": c})
    res = pool.map_tasks("impl.c01", tasks, mode="jit")
    for t, rr in zip(tasks, res):
        if not rr["ok"]:
            ck.violation("options-error", {"cfg": t["cfg"], "error": rr["error"], "tb": rr.get("tb", "")[-500:]}, key={"site": "structural-options"})
            continue
        o = rr["result"]
        ck.evaluations += o["n"]
        ck.nontrivial += o["dup_states"]
        ck.traces += len(t["states"])
        for b in o["bad"]:
            ck.violation("options-mismatch", dict(b, cfg=t["cfg"]), key={"site": "structural-options", "what": b["what"], "kind": b.get("kind")})

    # ---- (b) kernel rows, interpreted -------------------------------------------------------
    params = [(0.0, 1.0), (0.1, 0.5), (0.3, 0.25), (0.25, 1.0)] if quick else [(0.0, 1.0), (0.1, 0.5), (0.3, 0.25), (0.25, 1.0), (0.0, 0.37), (0.47, 0.81), (0.9, 0.05), (0.05, 0.999)]
    ktasks = []
    kcfgs = [c for c in cfgs if c not in ("MC_6_2_22", "MC_4_3_223")] if quick else cfgs
    for c in kcfgs:
        P, A = GRID[c]
        big = len(states.get(c, [])) > 150
        for i, (F, temp) in enumerate(params[: 2 if big and quick else len(params)]):
            ktasks.append({"op": "kernel", "A": A, "P": P, "states": states.get(c, []), "seed": ck.seed * 101 + i, "F": F, "temp": temp, "cfg": c,
                           "counts": i % 2 == 0, "n_reads": 4 + i % 3})
        # a SNV no read covers, reads without any base call, unequal read counts; a heated chain with inbreeding
        if not (big and quick):
            for i, (F, temp) in enumerate([(0.3, 0.5)] if quick else [(0.3, 0.5), (0.0, 0.25), (0.6, 1.0)]):
                ktasks.append({"op": "kernel", "A": A, "P": P, "states": states.get(c, []), "seed": ck.seed * 101 + 50 + i, "F": F, "temp": temp, "cfg": c,
                               "counts": True, "n_reads": 5 + i, "sparse": True})
    ktasks.sort(key=lambda t: -len(t["states"]) * prod(t["A"]))
    res = pool.map_tasks("impl.c01", ktasks, mode="py")
    maxres = 0.0
    for t, rr in zip(ktasks, res):
        if not rr["ok"]:
            ck.violation("kernel-error", {"cfg": t["cfg"], "F": t["F"], "temp": t["temp"], "error": rr["error"], "tb": rr.get("tb", "")[-700:]}, key={"site": "kernel"})
            continue
        o = rr["result"]
        ck.evaluations += o["n"]
        maxres = max(maxres, o["maxres"])
        for b in o["bad"]:
            ck.violation("kernel-mismatch", dict(b, cfg=t["cfg"], F=t["F"], temp=t["temp"], seed=t["seed"]), key={"site": "kernel", "what": b["what"]})
    ck.note("kernel_rows_param_sets", len(ktasks))
    ck.note("max_detailed_balance_relative_residual", maxres)
    ck.sample({"kind": "kernel-parameter-set", "cfg": ktasks[0]["cfg"], "inbreeding": ktasks[0]["F"], "inverse_temperature": ktasks[0]["temp"]})

    # ---- (c) exchange acceptance ----------------------------------------------------------------
    rr = pool.map_tasks("impl.c01", [{"op": "exchange", "seed": ck.seed, "n": 2000 if quick else 20000}], mode="jit")[0]
    if not rr["ok"]:
        ck.violation("exchange-error", {"error": rr["error"]}, key={"site": "chain_swap_acceptance"})
    else:
        ck.evaluations += rr["result"]["n"]
        for b in rr["result"]["bad"]:
            ck.violation("exchange-acceptance", b, key={"site": "chain_swap_acceptance"})

    # ---- (c1) chain_swap_step: acceptance boundary, with the chain's own prior (inbreeding) and temperatures --------
    xt = []
    for i, (F, ti, tj) in enumerate([(0.0, 1.0, 0.5), (0.3, 1.0, 0.1), (0.5, 0.6, 0.01), (0.15, 1.0, 0.9)]):
        # ploidy 4 and more: genotypes with the same number of distinct haplotypes but different priors (3:1 vs 2:2)
        for c in ("MC_3_2_23", "MC_2_3_223", "MC_4_2_22") if quick else ("MC_3_2_23", "MC_2_3_223", "MC_4_2_22", "MC_3_3_222", "MC_5_2_22"):
            P, A = GRID[c]
            xt.append({"op": "exchange_step", "A": A, "P": P, "states": [{"g": s["g"]} for s in states.get(c, [])], "seed": ck.seed + i, "F": F, "ti": ti, "tj": tj})
    res = pool.map_tasks("impl.c01", xt, mode="py")
    for t, rr in zip(xt, res):
        if not rr["ok"]:
            ck.violation("exchange-step-error", {"error": rr["error"], "tb": rr.get("tb", "")[-500:]}, key={"site": "chain_swap_step"})
            continue
        ck.evaluations += rr["result"]["n"]
        for b in rr["result"]["bad"]:
            ck.violation("exchange-step", b, key={"site": "chain_swap_step"})

    # ---- (c2) random_choice realises the probability vectors (inverse CDF against the same uniform draw) ----
    for mode in ("py", "jit"):
        rr = pool.map_tasks("impl.c01", [{"op": "choice", "seed": ck.seed + 3, "n": 300 if quick else 3000}], mode=mode)[0]
        if not rr["ok"]:
            ck.violation("choice-error", {"mode": mode, "error": rr["error"]}, key={"site": "random_choice", "mode": mode})
        else:
            ck.evaluations += rr["result"]["n"]
            for b in rr["result"]["bad"]:
                ck.violation("random-choice", dict(b, mode=mode), key={"site": "random_choice"})

    # ---- (c3) the chain starts and stays inside the genotype space (uncovered SNVs, differing allele counts) ----
    for mode in ("py", "jit"):
        rr = pool.map_tasks("impl.c01", [{"op": "init_state", "seed": ck.seed + 11 + i, "n": (8 if mode == "py" else 40) * (1 if quick else 5),
                                          "steps": 10 if mode == "py" else 40} for i in range(4)], mode=mode)
        for r1 in rr:
            if not r1["ok"]:
                ck.violation("init-state-error", {"mode": mode, "error": r1["error"], "tb": r1.get("tb", "")[-400:]}, key={"site": "DenovoMCMC._mcmc", "mode": mode})
                continue
            ck.evaluations += r1["result"]["n"]
            for b in r1["result"]["bad"]:
                ck.violation("genotype-out-of-range", dict(b, mode=mode), key={"site": "DenovoMCMC._mcmc", "clause": b["what"]})

    # ---- (d) recorded fits ---------------------------------------------------------------------------
    ft = []
    k = 0
    for P, A in ((2, [2, 2]), (2, [2, 3, 2]), (3, [2, 3]), (3, [2, 2, 2]), (4, [2, 2]), (4, [2, 2, 3]), (2, [3, 2, 2, 2])):
        for temps in ([1.0], [0.4, 1.0], [0.1, 0.5, 1.0], [0.0, 1.0]):      # 0.0: a flat chain (the likelihood has no weight)
            for cache in (-1, 0):
                k += 1
                if quick and k % 3 and not (temps[0] == 0.0 and k % 4 == 0):
                    continue
                ft.append({"op": "fit_trace", "A": A, "P": P, "seed": ck.seed * 53 + k, "steps": 6 if quick else 25, "temps": temps,
                           "F": [0.0, 0.15][k % 2], "cache": cache})
    res = pool.map_tasks("impl.c01", ft, mode="py")
    docs = []
    for t, rr in zip(ft, res):
        if not rr["ok"]:
            ck.violation("fit-error", {"task": t, "error": rr["error"], "tb": rr.get("tb", "")[-600:]}, key={"site": "fit-trace"})
        else:
            docs.append((t, rr["result"]))

    def val(i):
        t, d = docs[i]
        tf = os.path.join(ck.wd, "trace-%d.json" % i)
        with open(tf, "w") as fh:
            json.dump(d, fh)
        return tlc.run(SPEC, "TraceAssemble", "Trace.cfg", workers=1, extra_env={"TRACE_FILE": tf}, timeout=1800, name="TraceAssemble-%d" % i)

    nev = 0
    nex = 0
    try:
        with ThreadPoolExecutor(max_workers=max(2, env.NCPU // 2)) as ex:
            for (t, d), r in zip(docs, ex.map(val, range(len(docs)))):
                ck.add_tlc(r, None)
                cons = [p for p in r.printed if "consumed" in p]
                if not cons or cons[0]["consumed"] != len(d["events"]):
                    ck.machinery_failure("trace not fully consumed: %s of %d" % (cons, len(d["events"])))
                nev += len(d["events"])
                acc = sum(1 for e in d["events"] if e["op"] == "Exchange" and e["ai"] != e["bi"])
                nex += acc
                if acc:
                    ck.nontrivial += 1
                for p in r.printed:
                    if "reject" in p:
                        e = d["events"][p["reject"] - 1]
                        ck.violation("trace-reject", {"line": p["reject"], "clause": p["clause"], "event": e, "header": d["header"], "task": t},
                                     key={"site": e["op"], "clause": p["clause"]})
    except tlc.TLCError as e:
        ck.machinery_failure(str(e))
    ck.traces += len(docs)
    ck.evaluations += nev
    ck.note("recorded_fits", {"runs": len(docs), "events": nev, "accepted_exchanges": nex})
    if docs and nex == 0:
        ck.machinery_failure("no recorded fit contained an accepted exchange (vacuous)")
    ck.sample({"kind": "recorded-exchange", "event": next(e for t, d in docs for e in d["events"] if e["op"] == "Exchange" and e["ai"] != e["bi"])})

    # ---- binding demonstration: corrupted traces must be rejected --------------------------------------
    good = lambda e: e["op"] == "Exchange" and e["ai"] != e["bi"] and e["li0"] != e["lj0"]
    t0, d0 = next((t, d) for t, d in docs if any(good(e) for e in d["events"]))
    ev = [dict(e) for e in d0["events"]]
    xi = next(i for i, e in enumerate(ev) if good(e))
    ev[xi]["lj1"] = ev[xi]["lj0"]  # exchange that forgot to swap the carried likelihood of the warmer chain
    mi = next(i for i, e in enumerate(ev) if e["op"] == "Mutate" and i > xi)
    ev[mi]["t"] = ev[mi]["t"] + 1  # move executed with a temperature that is not the rung's
    tfb = os.path.join(ck.wd, "trace-corrupt.json")
    with open(tfb, "w") as fh:
        json.dump({"header": d0["header"], "events": ev}, fh)
    r = tlc.run(SPEC, "TraceAssemble", "Trace.cfg", workers=1, extra_env={"TRACE_FILE": tfb}, name="TraceAssemble-corrupt")
    rej = {p["reject"] - 1 for p in r.printed if "reject" in p}
    if not ({xi, mi} <= rej):
        ck.machinery_failure("corrupted trace lines not rejected: %s wanted %s" % (sorted(rej)[:10], (xi, mi)))
    ck.note("corrupted_traces_rejected", 2)
    ck.exhaustive = True
    ck.assumptions = [
        "numba compiles the source that the interpreted (NUMBA_DISABLE_JIT=1) run executes: probability vectors of base_step / interval_step are observable only in interpreted mode; the option / count functions and chain_swap_acceptance are also exercised compiled",
        "the factors u(G) entering the real kernels are evaluated with the repository's log_likelihood and log_genotype_prior (subjects of C04 / C05); TLC decides the structure with an abstract positive class weight",
        "irrational temperatures / inbreeding are covered numerically by the harness, rational ones (t in {1/2, 1}) exactly by TLC",
    ]
    ck.finish()


if __name__ == "__main__":
    main()
