"""Datasets of the C10 regimes that go beyond the three-sample population:

* multi_sample_bam    : the alignments of several generated samples stored in ONE alignment file (every read keeps
                        its read group, every read group its SM) - the "one" layout of SampleFlow.tla
* make_wide_population: many diploid samples with private haplotypes over one locus, so that the joint assemble
                        run lists more ALT alleles than a narrow integer type can number
"""
import os
import random

import pysam

from vlib import datasets


def multi_sample_bam(out_path, man, sample_names=None):
    """One BAM holding the alignments of the named generated samples, read groups and SM values kept."""
    contigs = [tuple(c) for c in man["contigs"]]
    reads, rgs = [], []
    for s in man["samples"]:
        if sample_names is not None and s["name"] not in sample_names:
            continue
        with pysam.AlignmentFile(s["bam"]) as bf:
            for rg in bf.header.to_dict()["RG"]:
                rgs.append((rg["ID"], rg["SM"]))
            for a in bf.fetch(until_eof=True):
                reads.append({"qname": a.query_name, "contig": a.reference_name, "pos0": a.reference_start,
                              "seq": a.query_sequence, "rg": a.get_tag("RG"), "flag": a.flag, "mapq": a.mapping_quality})
    return datasets.write_bam(out_path, contigs, rgs, reads)


def make_wide_population(root, seed, n_samples, n_snvs, reads_per_hap=12, name="W"):
    """n_samples diploid samples, sample i carrying the two private haplotypes with codes 2i+1 and 2i+2 (bit b of the
    code = ALT at SNV b; never the reference haplotype), error-free reads covering the whole locus.  One BAM per sample,
    plus one multi-sample BAM holding all of them.  Returns a manifest shaped like datasets.make_population's."""
    assert 2 * n_samples < 2 ** n_snvs
    os.makedirs(root, exist_ok=True)
    rnd = random.Random(("wide", seed, name, n_samples, n_snvs).__repr__())
    gap = 4
    start, stop = 20, 20 + gap * n_snvs + 4
    seq = datasets._random_seq(rnd, stop + 30)
    contigs = [("WCTG", seq)]
    ref = os.path.join(root, "ref.fa")
    datasets.write_fasta(ref, contigs)
    snv_pos = [start + 2 + gap * b for b in range(n_snvs)]
    snvs = []
    for p in snv_pos:
        alt = rnd.choice([b for b in "ACGT" if b != seq[p]])
        snvs.append({"pos0": p, "alleles": [seq[p], alt]})
    snv_vcf = datasets.write_snv_vcf(os.path.join(root, "snvs.vcf"), contigs, [("WCTG", s["pos0"], s["alleles"]) for s in snvs])
    bed = os.path.join(root, "targets.bed")
    with open(bed, "w") as fh:
        fh.write("WCTG\t%d\t%d\t%s_locus\n" % (start, stop, name))
    samples = []
    all_reads, all_rgs = [], []
    r0, r1 = start - 8, stop + 8
    for i in range(n_samples):
        sname = "%s%03d" % (name, i + 1)
        rg = "rg_" + sname
        reads = []
        for code in (2 * i + 1, 2 * i + 2):
            chars = list(seq[r0:r1])
            for b, s in enumerate(snvs):
                if (code >> b) & 1:
                    chars[s["pos0"] - r0] = s["alleles"][1]
            for r in range(reads_per_hap):
                reads.append({"qname": "%s_h%d_r%d" % (sname, code, r), "contig": "WCTG", "pos0": r0, "seq": "".join(chars), "rg": rg})
        bam = datasets.write_bam(os.path.join(root, sname + ".bam"), contigs, [(rg, sname)], reads)
        samples.append({"name": sname, "bam": bam, "ploidy": 2, "n_reads": len(reads)})
        all_reads.extend(reads)
        all_rgs.append((rg, sname))
    multi = datasets.write_bam(os.path.join(root, "ALL.bam"), contigs, all_rgs, all_reads)
    return {"name": name, "dir": root, "ref": ref, "contigs": [list(c) for c in contigs], "snv_vcf": snv_vcf, "bed_run": bed,
            "samples": samples, "multi": multi, "n_snvs": n_snvs}
