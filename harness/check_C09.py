"""C09: likelihood caches are transparent; the carried log-likelihood equals the recomputed one.

spec : spec/ArrayMap/{ArrayMap,TraceCache}.tla
bind : every (state, set) edge TLC generates is replayed into the real arraymap (compiled and interpreted) comparing the
       complete stored structure; cache histories of real interpreted sampler runs (assemble with tiny caches forcing
       growth and flushes, call, call-pedigree with unequal numbers of distinct reads) validated by TraceCache.tla
       against the faithful model, with `fresh` values recomputed from each sample's own reads;
       same-seed trajectories with the cache disabled / enabled / resized compared.
"""
import json
import os
import sys
from concurrent.futures import ThreadPoolExecutor

sys.path.insert(0, os.path.dirname(os.path.abspath(__file__)))
from vlib import env, tlc, pool
from vlib.report import Check

SPEC = os.path.join(env.SPEC, "ArrayMap")
CFG = {  # name: (L, B, init, max)
    "MC_a": (2, 2, 2, 8), "MC_b": (2, 2, 4, 8), "MC_c": (3, 2, 2, 8), "MC_d": (2, 3, 2, 16), "MC_e": (1, 2, 2, 4), "MC_f": (1, 3, 2, 8),
    "MC_t1": (3, 2, 2, 16), "MC_t2": (2, 3, 2, 16), "MC_t3": (2, 2, 2, 16), "MC_t4": (3, 2, 4, 8),
}


def keys_of(L, B):
    out = [[]]
    for _ in range(L):
        out = [k + [b] for k in out for b in range(B)]
    return out


def validate_trace(ck, doc, label, sites=None):
    tf = os.path.join(ck.wd, "trace-%s.json" % label)
    with open(tf, "w") as fh:
        json.dump(doc, fh)
    t = tlc.run(SPEC, "TraceCache", "Trace.cfg", workers=1, extra_env={"TRACE_FILE": tf}, timeout=1500, name="TraceCache-" + label)
    if t.violated:
        ck.violation("trace-model-invariant", {"trace": label, "invariant": t.violated, "text": t.error_text[:800]}, key={"trace": label})
        return t, None
    cons = [p for p in t.printed if "consumed" in p]
    if not cons or cons[0]["consumed"] != len(doc["events"]):
        ck.machinery_failure("trace %s not fully consumed: %s of %d" % (label, cons, len(doc["events"])))
    for p in t.printed:
        if "reject" in p:
            e = doc["events"][p["reject"] - 1]
            ck.violation("trace-reject", {"trace": label, "line": p["reject"], "clause": p["clause"], "event": e, "header": doc["header"]},
                         key={"cache": doc["header"].get("kind", label).split(":")[0], "clause": p["clause"], "site": e.get("site", e["op"])})
    if cons[0].get("model_divergences"):
        ck.bump("faithful_model_divergences_traces", cons[0]["model_divergences"])
    return t, cons[0]


def main():
    ck = Check("C09")
    quick = ck.tier == "quick"
    ck.rule = (
        "ArrayMap: TLC explores every sequence of set operations (all keys x 2 values) to the stated depth for each (key length, "
        "branches, initial size, max size), deduplicated on the stored structure; every generated edge is replayed into the real "
        "arraymap. Non-trivial = edges whose set caused a flush or array growth; recorded traces containing at least one flush / "
        "a pedigree whose parents have unequal numbers of distinct reads."
    )
    cfgs = ["MC_a", "MC_b", "MC_c", "MC_d", "MC_e", "MC_f"] + ([] if quick else ["MC_t1", "MC_t2", "MC_t3", "MC_t4"])
    mutants = ["Mutant_get0", "Mutant_flush"]
    results = {}
    try:
        with ThreadPoolExecutor(max_workers=4) as ex:
            for c, r in zip(cfgs + mutants, ex.map(lambda c: tlc.run(SPEC, "ArrayMap", c + ".cfg", workers=4, timeout=1500), cfgs + mutants)):
                results[c] = r
    except tlc.TLCError as e:
        ck.machinery_failure(str(e))
    for m in mutants:
        if not results[m].violated:
            ck.machinery_failure("mutant spec %s not killed" % m)
    ck.note("mutant_specs_killed", len(mutants))

    # ---- spec -> code: replay every generated edge ---------------------------
    tasks, meta = [], []
    for c in cfgs:
        r = results[c]
        ck.add_tlc(r, "ArrayMap/" + c)
        if r.violated:
            ck.violation("model", {"cfg": c, "invariant": r.violated, "text": r.error_text[:1200]}, key={"model": c})
        L, B, init, mx = CFG[c]
        ks = keys_of(L, B)
        st = r.printed
        for i in range(0, len(st), 4000):
            tasks.append({"op": "replay", "L": L, "B": B, "init": init, "max": mx, "keys": ks, "states": st[i : i + 4000]})
            meta.append(c)
        results[c].printed = None
    ck.sample({"kind": "arraymap-behaviour", "cfg": "MC_a", "constants": CFG["MC_a"], "hist": tasks[0]["states"][min(300, len(tasks[0]["states"]) - 1)]["hist"]})
    for mode in ("jit", "py"):
        tt = tasks if mode == "jit" else [t for t, c in zip(tasks, meta) if c in ("MC_a", "MC_c", "MC_e", "MC_f")]
        res = pool.map_tasks("impl.c09", tt, mode=mode)
        for t, rr in zip(tt, res):
            if not rr["ok"]:
                ck.violation("replay-error", {"mode": mode, "error": rr["error"], "tb": rr.get("tb", "")[-500:]}, key={"site": "arraymap", "mode": mode})
                continue
            o = rr["result"]
            ck.evaluations += o["n"]
            if mode == "jit":
                ck.traces += o["n"]
                ck.nontrivial += o["flushes"]
            for b in o["bad"]:
                ck.violation("arraymap-replay", dict(b, mode=mode, constants=[t["L"], t["B"], t["init"], t["max"]]),
                             key={"site": "arraymap", "fields": ",".join(b["fields"])})
            if o["faithful_model_divergences"]:
                ck.bump("faithful_model_divergences_replay", o["faithful_model_divergences"])
                if not ck.extra.get("divergence_sample"):
                    ck.note("divergence_sample", o["divergence_samples"][:1])
    tasks = None

    # ---- code -> spec: assemble cache histories --------------------------------
    at = []
    k = 0
    for P, N in ((2, 2), (2, 3), (3, 2), (4, 2), (2, 4), (3, 3)):
        for init, mx in ((2, 16), (4, 32), (4, 64), (64, 128)):
            for temps in ([1.0], [0.3, 1.0], [0.2, 0.6, 1.0], [0.0, 1.0], [0.0, 0.5, 1.0]):      # 0.0: a flat chain (likelihood without weight)
                k += 1
                if quick and k % 4 and not (temps[0] == 0.0 and k % 3 == 0):
                    continue
                at.append({"op": "assemble_trace", "P": P, "N": N, "seed": ck.seed * 977 + k, "init": init, "max": mx, "temps": temps,
                           "steps": 8 if quick else 25, "F": [0.0, 0.2][k % 2]})
    for k2, temps in enumerate(([1.0], [0.3, 1.0])):
        at.append({"op": "assemble_trace", "P": 2 + k2, "N": 3, "seed": ck.seed * 977 + 5000 + k2, "init": 4, "max": 64, "temps": temps,
                   "steps": 6 if quick else 20, "F": 0.0, "huge_counts": True})
    res = pool.map_tasks("impl.c09", at, mode="py")
    docs = []
    for t, rr in zip(at, res):
        if not rr["ok"]:
            ck.violation("trace-error", {"task": t, "error": rr["error"], "tb": rr.get("tb", "")[-600:]}, key={"site": "assemble-trace"})
        else:
            docs.append((t, rr["result"]))

    def val(i):
        t, d = docs[i]
        return validate_trace(ck, d, "asm%d" % i)

    flush_traces = 0
    nev = 0
    try:
        with ThreadPoolExecutor(max_workers=max(2, env.NCPU // 2)) as ex:
            for (t, d), (tr, cons) in zip(docs, ex.map(val, range(len(docs)))):
                ck.add_tlc(tr, None)
                nev += len(d["events"])
                if cons and cons["flushes"]:
                    flush_traces += 1
                    ck.nontrivial += 1
    except tlc.TLCError as e:
        ck.machinery_failure(str(e))
    ck.traces += len(docs)
    ck.evaluations += nev
    ck.note("assemble_traces", {"runs": len(docs), "events": nev, "runs_with_flush": flush_traces})
    if docs and not flush_traces:
        ck.machinery_failure("no recorded assemble trace contained a cache flush (vacuous)")
    d0 = docs[0][1]
    ck.sample({"kind": "recorded-assemble-cache-history", "header": d0["header"], "first_events": d0["events"][:4]})

    # ---- code -> spec: call / pedigree dict caches ---------------------------------
    dt = []
    # ploidies 2-7 (keys must stay distinct for every ploidy) and loci with up to 40 known haplotypes (keys must stay
    # distinct for every allele index)
    shapes = [(6, 3, 4), (2, 3, 5), (5, 3, 6), (3, 6, 40), (4, 5, 28), (7, 5, 26), (3, 6, 36), (2, 5, 30), (4, 3, 6), (1, 6, 40)]
    for s in range(7 if quick else 20):
        P_, N_, K_ = shapes[s % len(shapes)]
        dt.append({"op": "call_trace", "P": P_, "N": N_, "K": K_, "seed": ck.seed * 31 + s, "step_type": ["Gibbs", "Metropolis-Hastings"][s % 2], "steps": 10 if quick else 30})
    peds = [("trio", [1, 6, 3]), ("trio", [6, 1, 3]), ("trio_rev", [1, 6, 3]), ("tetra", [2, 7, 4]), ("mixed", [1, 5, 3]), ("mixed", [5, 1, 3]), ("halfsib", [1, 6, 2, 3, 3])]
    for s in range(2 if quick else 8):
        for ped, nd in peds:
            dt.append({"op": "ped_trace", "ped": ped, "N": 4, "K": 6, "seed": ck.seed * 131 + s, "n_distinct": nd, "steps": 8 if quick else 20,
                       "step_type": ["Gibbs", "Metropolis-Hastings"][s % 2]})
    res = pool.map_tasks("impl.c09", dt, mode="py")
    events = []
    unequal = 0
    for i, (t, rr) in enumerate(zip(dt, res)):
        if not rr["ok"]:
            ck.violation("trace-error", {"task": t, "error": rr["error"], "tb": rr.get("tb", "")[-600:]}, key={"site": t["op"]})
            continue
        kind = rr["result"]["header"]["kind"]
        if t["op"] == "ped_trace":
            unequal += 1
        for e in rr["result"]["events"]:
            e = dict(e, key=[i] + e["key"], run=kind)
            events.append(e)
    doc = {"header": {"L": 1, "B": 1, "init": 2, "max": 2, "kind": "dict"}, "events": events}
    # per-kind keys for known-finding matching
    tf_doc = doc
    try:
        tf = os.path.join(ck.wd, "trace-dict.json")
        with open(tf, "w") as fh:
            json.dump(tf_doc, fh)
        t = tlc.run(SPEC, "TraceCache", "Trace.cfg", workers=1, extra_env={"TRACE_FILE": tf}, timeout=1500, name="TraceCache-dict")
    except tlc.TLCError as e:
        ck.machinery_failure(str(e))
    ck.add_tlc(t, "TraceCache/dict")
    cons = [p for p in t.printed if "consumed" in p]
    if not cons or cons[0]["consumed"] != len(events):
        ck.machinery_failure("dict trace not fully consumed: %s of %d" % (cons, len(events)))
    if cons[0].get("model_divergences"):
        ck.bump("faithful_model_divergences_traces", cons[0]["model_divergences"])
    for p in t.printed:
        if "reject" in p:
            e = events[p["reject"] - 1]
            ck.violation("trace-reject", {"line": p["reject"], "clause": p["clause"], "event": e, "task": dt[e["key"][0]]},
                         key={"cache": e["run"].split(":")[0], "clause": p["clause"], "site": e.get("site", e["op"])})
    ck.traces += len(dt)
    ck.evaluations += len(events)
    ck.nontrivial += unequal
    ck.note("dict_traces", {"runs": len(dt), "events": len(events), "pedigree_runs_unequal_reads": unequal, "dict_entries": cons[0]["dict_entries"]})
    ck.sample({"kind": "recorded-pedigree-cache-event", "event": next(e for e in events if e["run"].startswith("pedigree"))})

    # ---- trajectory clause -------------------------------------------------------------
    tj = []
    for s in range(4 if quick else 16):
        tj.append(({"op": "trajectory", "P": 2 + s % 3, "N": 3 + s % 2, "seed": ck.seed * 7 + s, "modes": [-1, 0, 10**9], "temps": [[1.0], [0.3, 1.0], [0.2, 0.6, 1.0], [0.0, 1.0]][s % 4],
                    "steps": 60 if quick else 300}, "jit"))
    for s in range(2 if quick else 8):
        tj.append(({"op": "trajectory", "P": 2 + s % 2, "N": 3, "seed": ck.seed * 7 + 100 + s, "modes": [-1, [2, 16], [4, 32], 0], "temps": [[1.0], [0.0, 0.3, 1.0]][s % 2],
                    "steps": 12 if quick else 40}, "py"))
    for mode in ("jit", "py"):
        tt = [t for t, m in tj if m == mode]
        res = pool.map_tasks("impl.c09", tt, mode=mode)
        for t, rr in zip(tt, res):
            if not rr["ok"]:
                ck.violation("trajectory-error", {"task": t, "error": rr["error"], "tb": rr.get("tb", "")[-500:]}, key={"site": "trajectory", "mode": mode})
                continue
            ck.evaluations += rr["result"]["n_modes"]
            ck.traces += 1
            for d in rr["result"]["diffs"]:
                ck.violation("trajectory-differs", {"task": t, "diff": d, "mode": mode}, key={"site": "trajectory", "what": d["what"]})
    ck.note("trajectory_comparisons", len(tj))

    # ---- binding demonstration: corrupted recorded traces are rejected ------------------
    t0, d0 = docs[0]
    ev = [dict(e) for e in d0["events"]]
    gi = next(i for i, e in enumerate(ev) if e["op"] == "get" and not e["miss"])
    ev[gi]["ret"] += 7
    si = next(i for i, e in enumerate(ev) if e["op"] == "set")
    ev[si]["v"] += 9
    ci = next(i for i, e in enumerate(ev) if e["op"] == "carried")
    ev[ci]["v"] += 5
    tfb = os.path.join(ck.wd, "trace-corrupt.json")
    with open(tfb, "w") as fh:
        json.dump({"header": d0["header"], "events": ev}, fh)
    t = tlc.run(SPEC, "TraceCache", "Trace.cfg", workers=1, extra_env={"TRACE_FILE": tfb}, name="TraceCache-corrupt")
    rej = {p["reject"] - 1: p["clause"] for p in t.printed if "reject" in p}
    if not ({gi, si, ci} <= set(rej)):
        ck.machinery_failure("corrupted trace lines not rejected: %s (wanted %s)" % (rej, (gi, si, ci)))
    ck.note("corrupted_traces_rejected", 3)
    div = ck.extra.get("faithful_model_divergences_replay", 0) + ck.extra.get("faithful_model_divergences_traces", 0)
    if div:
        print("NOTE property=C09 the implementation's cache layout / growth / flush points differ from the faithful model of arraymap.py "
              "in %d cases (informational: C09 only requires that a cache never serves a wrong value)" % div, flush=True)
    ck.exhaustive = True
    ck.assumptions = [
        "numba compiles the source that the interpreted (NUMBA_DISABLE_JIT=1) run executes (cache histories are observed in interpreted mode; arraymap itself and the trajectories are also exercised compiled)",
        "`fresh` values are recomputed with mchap.assemble.likelihood.log_likelihood on the sample's own positive-count reads (its semantics are the subject of C04)",
        "model finding: the value-array flush branch of arraymap.set is unreachable while both arrays start at the same length (TLC never takes it)",
    ]
    ck.finish()


if __name__ == "__main__":
    main()
