"""C07: output VCF records are well-formed and internally consistent.

spec  : spec/VcfRecord/VcfRecord.tla  (record predicate WellFormed, named clauses)
        spec/VcfRecord/Scenario.tla   (program x --report x shape x ploidy x genotype pattern; the
                                       documented pipeline as a state machine; WellFormed on every produced record)
        spec/VcfRecord/TraceVcf.tla   (every emitted line -> verdict naming the failing clauses)
bind  : spec -> code : every (program, --report set) TLC enumerates is run for real (in-process, jit workers)
                       on generated datasets containing every dataset shape, and the observed header keys,
                       FILTER, REFMASKED and missingness pattern are compared with the model's record;
        code -> spec : every line emitted by those runs (with the internal values captured from
                       LocusAssemblyData) and every line of the repository's golden outputs is split by an
                       independent lexical parser and validated by TLC against WellFormed.
"""
import concurrent.futures as cf
import copy
import glob
import json
import os
import random
import re
import shutil
import sys
import time

sys.path.insert(0, os.path.dirname(os.path.abspath(__file__)))
from vlib import env, tlc, pool, isolate, datasets, vcflines, vcfctx
from vlib.report import Check

SPEC = os.path.join(env.SPEC, "VcfRecord")
MUTANTS = ["Mutant_gsize.cfg", "Mutant_ac.cfg", "Mutant_ns.cfg", "Mutant_end.cfg", "Mutant_trim.cfg"]

# shape of a generated locus / hand-made haplotype record, by name (see vlib/datasets.py)
SHAPE_BY_NAME = {
    "L1_norm": "normal", "L2_nosnv": "nosnv", "L3_noreads": "noreads", "L4_refabs2": "refabsent",
    "L5_refabs1": "refabsent1", "L6_partial": "normal", "L7_empty": "nosnv", "L8_multi": "normal",
    "L1_zeroalt": "zeroalt", "L1_af0": "af0", "L1_maskref": "refabsent", "L2_noa": "noa", "L8_rare": "normal",
    "L1_zerolast": "zerolast", "L8_zerolast2": "zerolast", "L8_zeroends": "zerolast", "L1_zeroref": "zeroref", "L6_onlyref": "onlyref",
    # edge plan: loci at contig ends, 1-bp locus, SNVs on the first / last base, adjacent SNVs, soft-masked reference
    "E1_start": "normal", "E2_single": "normal", "E3_adjacent": "normal", "E4_refabs": "refabsent", "E5_end": "normal",
    "E6_nosnv_start": "nosnv", "E1_start_zerolast": "zerolast", "E1_start_af0": "af0",
}


# ---------------------------------------------------------------------------
def build_datasets(ck):
    root = os.path.join(ck.wd, "data")
    shutil.rmtree(root, ignore_errors=True)
    os.makedirs(root)
    out = {}
    variants = [("G4", (4, 4, 4)), ("Gmix", (2, 4, 6)), ("Gedge", (2, 4, 6))]
    if ck.tier == "thorough":
        variants += [("Godd", (1, 3, 2)), ("G2", (2, 2, 2)), ("G4b", (4, 4, 4)), ("Gmixb", (2, 4, 6))]
    variants += [("Gweak", (4, 4, 2))]       # not part of the rotation: used by the demanding-threshold runs only
    variants += [("Gmany", tuple([2, 4] * 130))]      # 260 samples (more than any byte-sized sample counter): its own runs only
    for i, (name, pl) in enumerate(variants):
        d = os.path.join(root, name)
        edge = name == "Gedge"
        man = datasets.make_population(d, seed=ck.seed * 101 + i, ploidies=pl, name=name, n_samples=len(pl), depth=12 if len(pl) <= 3 else 5,
                                       deep_sample=1 if name in ("G4b",) else None,
                                       plan=datasets.EDGE_PLAN if edge else datasets.WEAK_PLAN if name == "Gweak" else None,
                                       lower=[("CTG1", 95, 130), ("CTG2", 0, 10)] if edge else ())
        man["hap_vcf"] = os.path.join(d, "haps.vcf")
        man["hap_records"] = datasets.write_haplotype_vcf(man, man["hap_vcf"], seed=ck.seed)
        names = [s["name"] for s in man["samples"]]
        man["ploidy_file"] = datasets.write_map(os.path.join(d, "ploidy.txt"), [(s["name"], s["ploidy"]) for s in man["samples"]])
        # a project-wide ploidy file that also lists samples which are not part of the run
        man["ploidy_superset"] = datasets.write_map(
            os.path.join(d, "ploidy_superset.txt"), [(s["name"], s["ploidy"]) for s in man["samples"]] + [("S8", 6), ("S9", 2)])
        # BED with the reference-absent loci last (a crash there then costs no other locus)
        order = [l for l in man["loci"] if not l["shape"].startswith("refabsent")] + [l for l in man["loci"] if l["shape"].startswith("refabsent")]
        man["bed_run"] = os.path.join(d, "targets_run.bed")
        with open(man["bed_run"], "w") as fh:
            for l in order:
                fh.write("%s\t%d\t%d\t%s\n" % (l["contig"], l["start"], l["stop"], l["name"]))
        # pools: every sample alone, S1+S3 together (S1 and S3 are in two pools)
        man["pool_file"] = datasets.write_map(os.path.join(d, "pools.txt"),
                                              [(names[0], "P1"), (names[1], "P2"), (names[2], "P3"), (names[0], "P13"), (names[2], "P13")])
        pp = {"P1": pl[0], "P2": pl[1], "P3": pl[2], "P13": max(pl[0] + pl[2], 1) if pl[0] + pl[2] <= 6 else 6}
        man["pool_ploidy"] = pp
        man["pool_ploidy_file"] = datasets.write_map(os.path.join(d, "pool_ploidy.txt"), sorted(pp.items()))
        # pedigree: S2 is the child of S1 and S3; gametes sized so that they add up
        man["pedigree"] = datasets.write_map(os.path.join(d, "pedigree.txt"), [])
        with open(man["pedigree"], "w") as fh:
            fh.write("%s\t.\t.\n%s\t%s\t%s\n%s\t.\t.\n" % (names[0], names[1], names[0], names[2], names[2]))
        tau = {(4, 4, 4): [(2, 2), (2, 2), (2, 2)], (2, 4, 6): [(1, 1), (1, 3), (3, 3)], (1, 3, 2): [(1, 0), (1, 2), (1, 1)],
               (2, 2, 2): [(1, 1), (1, 1), (1, 1)], (4, 4, 2): [(2, 2), (2, 2), (1, 1)]}.get(tuple(pl), [(1, 1)] * len(pl))
        man["tau_file"] = os.path.join(d, "tau.txt")
        with open(man["tau_file"], "w") as fh:
            for n, (a, b) in zip(names, tau):
                fh.write("%s\t%d\t%d\n" % (n, a, b))
        # pedigree with an unsequenced founder (a sample column without any BAM)
        man["pedigree_dummy"] = os.path.join(d, "pedigree_dummy.txt")
        with open(man["pedigree_dummy"], "w") as fh:
            fh.write("%s\tS0\t.\n%s\t%s\t%s\n%s\t.\t.\nS0\t.\t.\n" % (names[0], names[1], names[0], names[2], names[2]))
        man["ploidy_dummy"] = datasets.write_map(os.path.join(d, "ploidy_dummy.txt"),
                                                 [(s["name"], s["ploidy"]) for s in man["samples"]] + [("S0", pl[0])])
        man["tau_dummy"] = os.path.join(d, "tau_dummy.txt")
        with open(man["tau_dummy"], "w") as fh:
            for n, (a, b) in zip(names, tau):
                fh.write("%s\t%d\t%d\n" % (n, a, b))
            fh.write("S0\t%d\t%d\n" % tau[0])
        out[name] = man
    return out


def report_args(report):
    return (["--report"] + sorted(report)) if report else []


def plan_runs(ck, configs, dsets):
    """One run per (program, --report set) TLC enumerated, per ploidy vector in thorough; the other
    option dimensions rotate so that every pair (program x option) and (report field x option) occurs."""
    rnd = random.Random(ck.seed + 7)
    pairs = sorted({(c["prog"], tuple(sorted(c["report"]))) for c in configs})
    rnd.shuffle(pairs)
    names = sorted(n for n in dsets if n not in ("Gweak", "Gmany"))
    mcmc = [("300", "100"), ("200", "50"), ("600", "300")]
    runs = []
    reps = 1 if ck.tier == "quick" else 2
    n = 0
    for rep in range(reps):
        for prog, report in pairs:
            man = dsets[names[n % len(names)]]
            r = {"prog": prog, "report": list(report), "ds": man["name"], "id": "r%04d" % n}
            bams = [s["bam"] for s in man["samples"]]
            samples = [s["name"] for s in man["samples"]]
            ploidy = {s["name"]: s["ploidy"] for s in man["samples"]}
            argv = []
            opt = n // len(names)
            # pools (not with pedigrees: a pedigree names samples)
            poolmode = [None, None, "file", "single"][opt % 4] if prog != "call-pedigree" else None
            if poolmode == "file":
                argv += ["--sample-pool", man["pool_file"], "--ploidy", man["pool_ploidy_file"]]
                ploidy = dict(man["pool_ploidy"])
            elif poolmode == "single":
                argv += ["--sample-pool", "POOL", "--ploidy", "4"]
                ploidy = {"POOL": 4}
            elif prog == "call-pedigree":
                if opt % 3 == 2:
                    argv += ["--sample-parents", man["pedigree_dummy"], "--ploidy", man["ploidy_dummy"], "--gamete-ploidy", man["tau_dummy"]]
                    ploidy = dict(ploidy, S0=man["samples"][0]["ploidy"])
                else:
                    argv += ["--sample-parents", man["pedigree"], "--ploidy", man["ploidy_file"], "--gamete-ploidy", man["tau_file"]]
                argv += ["--gamete-error", ["0.1", "0.01", "0.5"][opt % 3]]
                if opt % 4 == 1 and len(set(ploidy.values())) == 1 and list(ploidy.values())[0] == 4:
                    argv += ["--gamete-ibd", "0.1"]
            else:
                uniform = len(set(ploidy.values())) == 1
                if uniform and opt % 2 == 0:
                    argv += ["--ploidy", str(list(ploidy.values())[0])]
                else:
                    argv += ["--ploidy", man["ploidy_file"]]
            r["pool"] = poolmode
            argv = ["--bam"] + bams + argv + ["--reference", man["ref"]]
            if prog != "call-exact":
                st, bu = mcmc[opt % 3]
                argv += ["--mcmc-steps", st, "--mcmc-burn", bu, "--mcmc-seed", str(11 + n % 5)]
                if opt % 5 == 4:
                    argv += ["--mcmc-chains", "2"]
            if prog != "call-pedigree" and opt % 3 == 1:
                argv += ["--inbreeding", "0.25"]
            if opt % 4 == 3:
                argv += ["--base-error-rate", "0.125"]
            if opt % 7 == 5:
                argv += ["--use-base-phred-scores"]
            if prog == "assemble":
                argv += ["--targets", man["bed_run"], "--variants", man["snv_vcf"]]
                r["snv_vcf"] = man["snv_vcf"]
                if opt % 6 == 5:
                    argv += ["--haplotype-posterior-threshold", "1.0"]
                    r["threshold1"] = True
                elif opt % 6 == 2:
                    # a demanding threshold: some called haplotypes stay unreported -> partly unknown genotypes (AN < ploidy sum)
                    argv += ["--haplotype-posterior-threshold", ["0.9", "0.97", "0.75"][n % 3]]
            else:
                argv += ["--haplotypes", man["hap_vcf"]]
                r["hap_vcf"] = man["hap_vcf"]
                if opt % 2 == 1:
                    argv += ["--prior-frequencies", "AFP"]
                    r["prior"] = True
                if opt % 4 == 2:
                    argv += ["--filter-input-haplotypes", "AFP>=0.05"]
                    r["filter"] = True
            argv += report_args(report)
            r.update({"argv": argv, "ref": man["ref"], "ploidy": ploidy})
            runs.append(r)
            n += 1
    # assemble --region (with and without --region-id: ID '.')
    for k in range(2):
        man = dsets[names[k % len(names)]]
        l = man["loci"][0]
        argv = ["--bam"] + [s["bam"] for s in man["samples"]] + ["--ploidy", man["ploidy_file"], "--reference", man["ref"],
                "--mcmc-steps", "300", "--mcmc-burn", "100", "--mcmc-seed", "4", "--variants", man["snv_vcf"],
                "--region", "%s:%d-%d" % (l["contig"], l["start"], l["stop"])] + (["--region-id", "REGION_A"] if k == 0 else [])
        rep = [["AFP", "GP"], ["GL", "ACP", "SNVDP"]][k]
        runs.append({"prog": "assemble", "report": rep, "ds": man["name"], "id": "g%04d" % k, "pool": None,
                     "snv_vcf": man["snv_vcf"], "ref": man["ref"], "ploidy": {s["name"]: s["ploidy"] for s in man["samples"]},
                     "argv": argv + report_args(rep)})
    # assemble with a reporting threshold nothing can reach (-> no ALT, REFMASKED, NOA, every allele unknown)
    for k in range(1 if ck.tier == "quick" else 3):
        man = dsets[names[k % len(names)]]
        argv = ["--bam"] + [s["bam"] for s in man["samples"]] + ["--ploidy", man["ploidy_file"], "--reference", man["ref"],
                "--mcmc-steps", "300", "--mcmc-burn", "100", "--mcmc-seed", "3", "--targets", man["bed_run"], "--variants", man["snv_vcf"],
                "--haplotype-posterior-threshold", "1.0"]
        rep = [["AFP", "GP"], ["ACP", "AOP", "GL"], ["SNVDP", "AOPSUM"]][k]
        runs.append({"prog": "assemble", "report": rep, "ds": man["name"], "id": "t%04d" % k, "pool": None, "threshold1": True,
                     "snv_vcf": man["snv_vcf"], "ref": man["ref"], "ploidy": {s["name"]: s["ploidy"] for s in man["samples"]},
                     "argv": argv + report_args(rep)})
    # assemble with a demanding threshold on loci whose second haplotype is called with an intermediate occurrence
    # probability: called haplotypes stay unreported, genotypes are partly unknown (AN < sum of ploidies, UAN, AC, AFP)
    man = dsets["Gweak"]
    wrep = [["AFP", "ACP"], ["AFP"], ["AOP", "ACP", "GP"], ["AOPSUM", "AFP", "GL"]]
    for k in range(2 if ck.tier == "quick" else 4):
        argv = ["--bam"] + [s["bam"] for s in man["samples"]] + ["--ploidy", man["ploidy_file"], "--reference", man["ref"],
                "--mcmc-steps", "400", "--mcmc-burn", "100", "--mcmc-seed", str(3 + k), "--targets", man["bed_run"], "--variants", man["snv_vcf"],
                "--haplotype-posterior-threshold", ["0.6", "0.8", "0.7", "0.9"][k]]
        runs.append({"prog": "assemble", "report": wrep[k], "ds": man["name"], "id": "w%04d" % k, "pool": None,
                     "snv_vcf": man["snv_vcf"], "ref": man["ref"], "ploidy": {s["name"]: s["ploidy"] for s in man["samples"]},
                     "argv": argv + report_args(wrep[k])})
    # 260 samples in one run (NS, AN, AC, AFP, ... summed over more samples than a byte can count)
    man = dsets["Gmany"]
    for k, prog in enumerate(["call-exact", "assemble", "call"]):
        argv = ["--bam"] + [s["bam"] for s in man["samples"]] + ["--ploidy", man["ploidy_file"], "--reference", man["ref"]]
        r = {"prog": prog, "report": [["AFP", "ACP"], ["AFP"], ["AOP"]][k], "ds": man["name"], "id": "m%04d" % k, "pool": None, "ref": man["ref"],
             "ploidy": {s["name"]: s["ploidy"] for s in man["samples"]}}
        if prog != "call-exact":
            argv += ["--mcmc-steps", "120", "--mcmc-burn", "40", "--mcmc-seed", "9"]
        if prog == "assemble":
            argv += ["--targets", man["bed_run"], "--variants", man["snv_vcf"]]
            r["snv_vcf"] = man["snv_vcf"]
        else:
            argv += ["--haplotypes", man["hap_vcf"]]
            r["hap_vcf"] = man["hap_vcf"]
        r["argv"] = argv + report_args(r["report"])
        runs.append(r)
    # the project-wide ploidy file (lists more samples than are analysed)
    for k, prog in enumerate(["assemble", "call-exact", "call"] if ck.tier == "quick" else ["assemble", "call-exact", "call", "assemble", "call"]):
        man = dsets[names[k % len(names)]]
        two = man["samples"][:2]
        argv = ["--bam"] + [s["bam"] for s in two] + ["--ploidy", man["ploidy_superset"], "--reference", man["ref"]]
        r = {"prog": prog, "report": ["AFP"] if k % 2 == 0 else ["INFO/AFP", "ACP"], "ds": man["name"], "id": "s%04d" % k, "pool": None,
             "ploidy_superset": True, "ref": man["ref"], "ploidy": {s["name"]: s["ploidy"] for s in two}}
        if prog != "call-exact":
            argv += ["--mcmc-steps", "300", "--mcmc-burn", "100", "--mcmc-seed", "5"]
        if prog == "assemble":
            argv += ["--targets", man["bed_run"], "--variants", man["snv_vcf"]]
            r["snv_vcf"] = man["snv_vcf"]
        else:
            argv += ["--haplotypes", man["hap_vcf"]]
            r["hap_vcf"] = man["hap_vcf"]
        r["argv"] = argv + report_args(r["report"])
        runs.append(r)
    return runs


def repo_runs(ck):
    """Happy path on the repository's own data (three option sets per program)."""
    S = datasets.repo_simple(env.REPO, os.path.join(ck.wd, "repo-data"))
    runs = []
    mixed = S["bams"]["mixed"]
    for k, (prog, extra, rep) in enumerate([
        ("assemble", [], ["SNVDP", "AFP"]),
        ("assemble", ["--sample-pool", S["pools"], "--ploidy", S["pools_ploidy"]], ["ACP", "GL"]),
        ("call", [], ["GP", "AFP", "AOP", "AOPSUM"]),
        ("call-exact", [], ["GP", "GL", "ACP", "AFPRIOR"]),
        ("call-exact", ["--prior-frequencies", "AFP", "--filter-input-haplotypes", "AFP>=0.1"], ["AFP", "AFPRIOR", "GP"]),
        ("call-pedigree", ["--sample-parents", S["pedigree"], "--gamete-error", "0.1"], ["SNVDP", "AFPRIOR", "ACP", "AFP", "AOP", "AOPSUM", "GL", "GP"]),
    ]):
        argv = ["--bam"] + (S["bams"]["deep"] if "--sample-pool" in extra else mixed) + extra
        pl = 4
        if "--sample-pool" in extra:
            pl = vcfctx.read_value_map(S["pools_ploidy"])
        else:
            argv += ["--ploidy", "4"]
        r = {"prog": prog, "report": rep, "ds": "simple", "id": "p%04d" % k, "pool": None, "ref": S["ref"], "ploidy": pl, "repo": True}
        if prog != "call-exact":
            argv += ["--mcmc-steps", "500", "--mcmc-burn", "100", "--mcmc-seed", "11"]
        if prog == "assemble":
            argv += ["--targets", S["bed"], "--variants", S["snv_vcf"], "--reference", S["ref"]]
            r["snv_vcf"] = S["snv_vcf"]
        else:
            hv = S["hap_vcfs"]["mock"] if "--prior-frequencies" in extra else S["hap_vcfs"]["mixed"]
            argv += ["--haplotypes", hv]
            r["hap_vcf"] = hv
        r["argv"] = argv + report_args(rep)
        runs.append(r)
    return runs


# ---------------------------------------------------------------------------
def observed_shape(rec, run):
    """Classify an emitted record by the dataset shape it exercises (by name for the generated data)."""
    name = rec["id"]
    nm = SHAPE_BY_NAME.get(name)
    has = lambda k: vcflines.info_value(rec, k) is not None  # noqa: E731
    if run["prog"] == "assemble":
        if "NOA" in rec["filter"]:
            return "nocall"
        if has("REFMASKED"):
            return "refabsent1" if len(rec["alts"]) == 1 else "refabsent"
        if nm in ("refabsent", "refabsent1"):
            return "normal"
        return nm
    # call programs: the hand-made specials depend on the prior / filter options of the run
    if nm == "af0":
        return "noa" if run.get("filter") else ("af0" if run.get("prior") else "normal")
    if nm == "onlyref" and run.get("filter"):
        return "nosnv"      # every ALT filtered away: a record without ALT / SNVs
    if nm in ("zeroalt", "zerolast", "onlyref"):
        return "normal" if run.get("filter") or not run.get("prior") else nm
    if nm == "zeroref":     # a zero prior on the reference = masked reference (with the filter: REFMASKED flag set)
        return "refabsent" if run.get("filter") else ("zeroref" if run.get("prior") else "normal")
    return nm


def compare_with_model(ck, run, hdr, recs, model_by_key, stats):
    """spec -> code: the observed header keys / FILTER / REFMASKED / missingness against the model's record."""
    key = (run["prog"], tuple(sorted(run["report"])))
    models = model_by_key.get(key)
    if not models or run.get("pipeline"):
        return
    stats["runs_matched"] += 1
    m0 = models[0]
    obs_info = [f["id"] for f in hdr["info"]]
    obs_fmt = [f["id"] for f in hdr["format"]]
    if obs_info != m0["infoKeys"] or obs_fmt != m0["fmtKeys"]:
        stats["mismatch"].append({"run": run["id"], "what": "header keys", "model": [m0["infoKeys"], m0["fmtKeys"]], "observed": [obs_info, obs_fmt]})
    for rec in recs:
        shape = observed_shape(rec, run)
        cands = [m for m in models if m["shape"] == shape]
        if not cands:
            continue
        stats["records_matched"] += 1
        stats["shapes"].add((run["prog"], shape))
        stats["configs_hit"].update((run["prog"], tuple(sorted(run["report"])), shape, tuple(m["ploidy"]), m["pat"]) for m in cands)
        m = cands[0]
        probs = []
        if rec["fmt"] != m["fmtKeys"]:
            probs.append("FORMAT keys")
        if rec["filter"] != m["filter"]:
            probs.append("FILTER %s vs model %s" % (rec["filter"], m["filter"]))
        if (vcflines.info_value(rec, "REFMASKED") is not None) != m["refmasked"]:
            probs.append("REFMASKED")
        inv = shape in ("noa", "af0")
        for s, gt in enumerate(rec["gts"]):
            if inv and any(a >= 0 for a in gt):
                probs.append("called allele in an invalid scenario")
        # missingness of INFO values (same key -> same missing / present status)
        mm = {e["k"]: e["missing"] for e in m["infoCounts"]}
        for e in rec["info"]:
            if e["flag"] or e["k"] not in mm:
                continue
            miss = all(v["k"] == "dot" for v in e["v"])
            if e["k"] in ("AC", "SNVPOS", "SNVDP", "DP", "AFPRIOR") or inv:
                if e["k"] == "AC" and (len(rec["alts"]) == 0) != (m["nalt"] == 0):
                    continue
                if miss != mm[e["k"]] and not (e["k"] == "AFPRIOR" and run["prog"] == "assemble"):
                    probs.append("INFO/%s missing=%s, model %s" % (e["k"], miss, mm[e["k"]]))
        if probs:
            stats["mismatch"].append({"run": run["id"], "record": rec["id"], "shape": shape, "what": probs})


CORRUPTIONS = [
    ("RecountAC", "AC"), ("FormatCard", "GP"), ("GTShape", "GT"), ("RefIsReference", "END"), ("AltsFromSnvs", "ALT"),
    ("RoundedFormat", "GPM"), ("RecountNS", "NS"), ("KeysDeclared", "XX"), ("RecountAFP", "AFP"), ("InfoCard", "ACP"),
    ("Decimals", "SPM"), ("RecountRCOUNT", "RCOUNT"), ("TypeLexical", "DP"), ("AfpFromSampleAfpText", "AFPTEXT"),
]


def corrupt(ev, what):
    """Alter one recorded field of a trace line; returns the corrupted copy or None if not applicable."""
    e = copy.deepcopy(ev)
    rec = e["rec"]
    info = {x["k"]: x for x in rec["info"]}
    fi = {k: i for i, k in enumerate(rec["fmt"])}
    if what == "AC" and "AC" in info and info["AC"]["v"][0]["k"] == "int":
        info["AC"]["v"][0]["m"] += 1
    elif what == "GP" and "GP" in fi and len(rec["samples"][0][fi["GP"]]) > 2:
        rec["samples"][0][fi["GP"]].pop()
    elif what == "GT" and len(rec["gts"][0]) >= 2 and rec["gts"][0][0] != rec["gts"][0][-1]:
        rec["gts"][0] = list(reversed(rec["gts"][0]))
        e["igt"] = []
    elif what == "END" and "END" in info:
        info["END"]["v"][0]["m"] += 1
        e["iinfo"] = [x for x in e["iinfo"] if x["k"] != "END"]
    elif what == "ALT" and rec["alts"]:
        sp = {v["m"] for v in info.get("SNVPOS", {"v": []})["v"]}
        free = [i for i in range(len(rec["ref"])) if (i + 1) not in sp]
        if not free:
            return None
        i = free[0]
        rec["alts"][0][i] = "A" if rec["ref"][i] != "A" else "C"
    elif what == "GPM" and "GPM" in fi and rec["samples"][0][fi["GPM"]][0]["k"] in ("dec", "int") and e["ifmt"] and e["ifmt"][0]:
        v = rec["samples"][0][fi["GPM"]][0]
        if v["k"] == "int":
            v.update({"k": "dec", "m": v["m"] * 1000000 - 1000, "d": 3})
        else:
            v["m"] -= 1000
    elif what == "NS" and "NS" in info and info["NS"]["v"][0]["m"] > 0:
        info["NS"]["v"][0]["m"] -= 1
        e["iinfo"] = [x for x in e["iinfo"] if x["k"] != "NS"]
    elif what == "XX":
        rec["info"].append({"k": "XX", "flag": False, "v": [vcflines.val("int", 1)]})
    elif what == "AFP" and "AFP" in info and info["AFP"]["v"][0]["k"] in ("dec", "int") and e["ifmt"] and e["ifmt"][0]:
        v = info["AFP"]["v"][0]
        if v["k"] == "int":
            v.update({"k": "dec", "m": v["m"] * 1000000 - 2000, "d": 3})
        else:
            v["m"] += 2000
        e["iinfo"] = [x for x in e["iinfo"] if x["k"] != "AFP"]
    elif what == "AFPTEXT" and "AFP" in info and "AFP" in fi and info["AFP"]["v"][0]["k"] in ("dec", "int") \
            and all(x[fi["AFP"]][0]["k"] in ("dec", "int") for x in rec["samples"]):
        v = info["AFP"]["v"][0]
        if v["k"] == "int":
            v.update({"k": "dec", "m": v["m"] * 1000000 - 3000, "d": 3})
        else:
            v["m"] += 3000
        e["iinfo"] = [x for x in e["iinfo"] if x["k"] != "AFP"]
        e["ifmt"] = [[] for _ in rec["samples"]]
    elif what == "ACP" and "ACP" in info and len(info["ACP"]["v"]) > 1:
        info["ACP"]["v"].pop()
        e["iinfo"] = [x for x in e["iinfo"] if x["k"] != "ACP"]
        e["ifmt"] = [[] for _ in rec["samples"]]
    elif what == "SPM" and "SPM" in fi and rec["samples"][0][fi["SPM"]][0]["k"] in ("dec", "int"):
        v = rec["samples"][0][fi["SPM"]][0]
        v.update({"k": "dec", "m": (v["m"] * 1000000 if v["k"] == "int" else v["m"]) - 100, "d": 4})
        e["ifmt"] = [[] for _ in rec["samples"]]
    elif what == "RCOUNT" and "RCOUNT" in info:
        info["RCOUNT"]["v"][0]["m"] += 1
        e["iinfo"] = [x for x in e["iinfo"] if x["k"] != "RCOUNT"]
    elif what == "DP" and "DP" in fi and rec["samples"][0][fi["DP"]][0]["k"] == "int":
        v = rec["samples"][0][fi["DP"]][0]
        v.update({"k": "dec", "m": v["m"] * 1000000 + 500000, "d": 1})
        e["ifmt"] = [[] for _ in rec["samples"]]
        e["iinfo"] = [x for x in e["iinfo"] if x["k"] != "DP"]
    else:
        return None
    return e


def validate_chunks(ck, dump, label, chunk=700):
    """Run TraceVcf over the lines in parallel JVMs; returns {global line index: clause list}."""
    lines = dump["lines"]
    jobs = []
    for k, i in enumerate(range(0, len(lines), chunk)):
        path = os.path.join(ck.wd, "trace-%s-%d.json" % (label, k))
        with open(path, "w") as fh:
            json.dump({"headers": dump["headers"], "contigs": dump["contigs"], "lines": lines[i:i + chunk]}, fh)
        jobs.append((i, path, len(lines[i:i + chunk])))
    rejects = {}

    def one(job):
        off, path, n = job
        t = tlc.run(SPEC, "TraceVcf", "Trace.cfg", workers=1, extra_env={"TRACE_FILE": path},
                    name="TraceVcf-%s-%d" % (label, off), timeout=1500)
        return off, n, t

    with cf.ThreadPoolExecutor(max_workers=max(1, min(env.NCPU // 2, 8))) as ex:
        for off, n, t in ex.map(one, jobs):
            ck.add_tlc(t, "TraceVcf-%s-%d" % (label, off))
            cons = [p for p in t.printed if "consumed" in p]
            if not cons or cons[0]["consumed"] != n:
                ck.machinery_failure("trace %s+%d not fully consumed: %s %s" % (label, off, cons, t.error_text[:800]))
            for p in t.printed:
                if "reject" in p:
                    rejects[off + p["reject"] - 1] = p
    return rejects


def arg_after(argv, flag):
    return argv[argv.index(flag) + 1] if flag in argv else None


def replay(ck, path):
    """./check C07 --replay work/C07/violation-N.json : re-run exactly that program run (the generated dataset of the
    last run must still be in work/C07/data) and give every emitted line a verdict."""
    with open(path) as fh:
        d = json.load(fh)["detail"]
    argv, prog = d["argv"], d["prog"]
    out = isolate.map_runs("impl.c07", [{"op": "run", "prog": prog, "argv": argv, "pysam": True}])[0]
    pl = arg_after(argv, "--ploidy") or "2"
    ploidy = int(pl) if pl.isdigit() else vcfctx.read_value_map(pl)
    pool_arg = arg_after(argv, "--sample-pool")
    if pool_arg and not os.path.isfile(pool_arg) and isinstance(ploidy, int):
        ploidy = {pool_arg: ploidy}
    ref = arg_after(argv, "--reference")
    run = {"prog": prog, "id": d.get("run", "replay"), "ploidy": ploidy, "report": [], "argv": argv,
           "snv_vcf": arg_after(argv, "--variants"), "hap_vcf": arg_after(argv, "--haplotypes")}
    if ref is None:
        ck.machinery_failure("replay needs --reference in the recorded argv")
    run["ref"] = ref
    if out["error"] is not None:
        ck.violation("impl-error", {"run": run["id"], "prog": prog, "argv": argv, "chain": out["error"]["chain"]},
                     key={"site": out["error"].get("site"), "exc": out["error"].get("exc"), "prog": prog, "replay": True})
    tb = vcfctx.TraceBuilder()
    n, problems = tb.add_output(out["stdout"], run, out["captured"], label="replay")
    rejects = validate_chunks(ck, tb.dump(), "replay") if n else {}
    for i in range(n):
        v = rejects.get(i)
        print("line %d %s: %s" % (i + 1, tb.lines[i]["rec"]["id"], "ok" if v is None else "REJECT %s %s" % (v["clause"], sorted(v.get("fields", [])))))
        if v is not None:
            for c in v["clause"]:
                ck.violation("trace-reject", {"run": run["id"], "prog": prog, "argv": argv, "clause": c, "line": tb.meta[i]["text"][:1500]},
                             key={"site": prog, "clause": c, "replay": True})
    # a replay is a diagnostic: it does not rewrite evidence/C07.json
    print("REPLAY property=C07 lines=%d violations=%d" % (n, len(ck.violations)), flush=True)
    sys.exit(1 if ck.violations else 0)


def main():
    ck = Check("C07")
    tier = ck.tier
    if os.environ.get("VERIF_REPLAY"):
        replay(ck, os.environ["VERIF_REPLAY"])
    ck.rule = (
        "TLC enumerates program x --report set x dataset shape x ploidy vector x genotype pattern (Scenario.tla) and checks "
        "WellFormed on the record the documented pipeline produces; every (program, --report set) it enumerates is run for real "
        "(in-process, compiled) on generated datasets containing every shape; every emitted line plus every line of the "
        "repository's golden outputs is validated by TLC (TraceVcf.tla) against WellFormed with the internal values captured "
        "from LocusAssemblyData. evaluations = emitted/golden lines given a verdict; non-trivial = distinct validated lines that "
        "have at least one ALT allele and at least one optional (--report) field."
    )
    # ---- 1. model checking the configuration space + binding demonstration (mutant specs) ----
    try:
        r = tlc.run(SPEC, "Scenario", "MC_%s.cfg" % tier, timeout=2400)
        ck.add_tlc(r, "Scenario")
        if r.violated:
            ck.violation("model", {"invariant": r.violated, "text": r.error_text[:1500]}, key={"model": "Scenario"})
        configs = r.printed
        killed = 0
        for mc in (MUTANTS if tier == "thorough" else MUTANTS[:3]):
            m = tlc.run(SPEC, "Scenario", mc)
            if m.violated != "WellFormedAtEnd":
                ck.machinery_failure("mutant spec %s not killed (%s)" % (mc, m.violated))
            killed += 1
        ck.note("mutant_specs_killed", killed)
    except tlc.TLCError as e:
        ck.machinery_failure(str(e))
    ck.note("scenario_configurations", len(configs))
    model_by_key = {}
    for c in configs:
        model_by_key.setdefault((c["prog"], tuple(sorted(c["report"]))), []).append(c)

    # ---- 2. datasets and the run plan --------------------------------------------------------
    dsets = build_datasets(ck)
    runs = plan_runs(ck, configs, dsets) + repo_runs(ck)
    ck.note("program_runs", len(runs))
    t0 = time.time()
    try:
        results = isolate.map_runs("impl.c07", [{"op": "run", "prog": r["prog"], "argv": r["argv"], "pysam": True} for r in runs])
    except pool.WorkerError as e:
        ck.machinery_failure("worker failure: %s" % e)
    ck.note("program_runs_wall_s", round(time.time() - t0, 1))
    for run, out in zip(runs, results):
        if out.get("harness_error"):
            ck.machinery_failure("worker task failed for run %s: %s\n%s" % (run["id"], out["error"]["chain"], out["error"]["tb"]))
    # second wave (pipeline): an assemble output with INFO/AFP of each generated dataset becomes the --haplotypes input
    wave2 = []
    for name in sorted(dsets):
        man = dsets[name]
        src = next((o for r, o in zip(runs, results)
                    if r["prog"] == "assemble" and r["ds"] == name and o["error"] is None and not r.get("pool")
                    and {"AFP", "INFO/AFP"} & set(r["report"]) and not r.get("ploidy_superset") and r["id"].startswith("r")), None)
        if src is None:
            continue
        path = os.path.join(man["dir"], "pipeline.vcf")
        with open(path, "w") as fh:
            fh.write(src["stdout"])
        pl = {s["name"]: s["ploidy"] for s in man["samples"]}
        bams = [s["bam"] for s in man["samples"]]
        for k, (prog, rep, extra) in enumerate([
            ("call", ["AFP", "GP", "AFPRIOR"], ["--prior-frequencies", "AFP"]),
            ("call-exact", ["ACP", "GL", "AOP"], ["--prior-frequencies", "AFP", "--filter-input-haplotypes", "AFP>=0.1"]),
            ("call-pedigree", ["AFP", "AOPSUM", "GP"], ["--sample-parents", man["pedigree"], "--gamete-ploidy", man["tau_file"], "--gamete-error", "0.1"]),
        ]):
            argv = ["--bam"] + bams + ["--ploidy", man["ploidy_file"], "--haplotypes", path] + extra
            if prog != "call-exact":
                argv += ["--mcmc-steps", "300", "--mcmc-burn", "100", "--mcmc-seed", "21"]
            wave2.append({"prog": prog, "report": rep, "ds": name, "id": "w%s%d" % (name, k), "pool": None, "hap_vcf": path, "ref": man["ref"],
                          "ploidy": pl, "prior": "--prior-frequencies" in extra, "filter": "--filter-input-haplotypes" in extra,
                          "pipeline": True, "argv": argv + report_args(rep)})
    if wave2:
        try:
            results += isolate.map_runs("impl.c07", [{"op": "run", "prog": r["prog"], "argv": r["argv"], "pysam": True} for r in wave2], warm_first=False)
        except pool.WorkerError as e:
            ck.machinery_failure("worker failure: %s" % e)
        runs += wave2
    ck.note("pipeline_runs", len(wave2))
    ck.note("program_runs", len(runs))
    ck.note("program_runs_wall_s", round(time.time() - t0, 1))

    # ---- 3. build the trace: every emitted line ------------------------------------------------
    tb = vcfctx.TraceBuilder()
    owner = []  # per line: run
    stats = {"runs_matched": 0, "records_matched": 0, "mismatch": [], "shapes": set(), "configs_hit": set()}
    crashes = 0
    pysam_bad = 0
    for run, out in zip(runs, results):
        if out["error"] is not None:
            crashes += 1
            site, exc = out["error"].get("site", "unknown"), out["error"].get("exc", "?")
            locus = ""
            m = re.search(r"locus: '([^']*)'", " ".join(out["error"]["chain"]))
            if m:
                locus = m.group(1)
            ck.violation(
                "impl-error",
                {"run": run["id"], "prog": run["prog"], "argv": run["argv"], "chain": out["error"]["chain"], "locus": locus,
                 "shape": SHAPE_BY_NAME.get(locus), "lines_emitted_before_crash": len(vcflines.split_text(out["stdout"])[1])},
                key={"site": site, "exc": exc, "prog": run["prog"], "shape": SHAPE_BY_NAME.get(locus, "?"),
                     "report_GP": bool({"GP", "FORMAT/GP"} & set(run["report"]))},
            )
        if out.get("pysam") and not out["pysam"]["ok"]:
            pysam_bad += 1
            ck.violation("pysam-reject", {"run": run["id"], "argv": run["argv"], "error": out["pysam"]["error"]},
                         key={"site": "pysam.VariantFile", "prog": run["prog"]})
        n0 = len(tb.lines)
        n, problems = tb.add_output(out["stdout"], run, out["captured"], label=run["id"])
        owner.extend([run] * n)
        for ln, why in problems:
            ck.violation("unparseable-line", {"run": run["id"], "line": ln, "why": why}, key={"site": run["prog"], "clause": "Columns"})
        hl, _ = vcflines.split_text(out["stdout"])
        compare_with_model(ck, run, vcflines.parse_header(hl), [e["rec"] for e in tb.lines[n0:]], model_by_key, stats)
    n_live = len(tb.lines)
    # golden outputs of the repository (no internal values)
    D = os.path.join(env.REPO, "mchap", "tests", "test_io", "data")
    n_gold_files = 0
    for g in sorted(glob.glob(os.path.join(D, "simple.output*.vcf"))):
        b = os.path.basename(g)
        if "atomize" in b or "basis" in b:
            continue
        with open(g) as fh:
            text = fh.read()
        hl, _ = vcflines.split_text(text)
        run = {"prog": "golden", "id": b, "ref": os.path.join(D, "simple.fasta"), "ploidy": vcfctx.ploidy_from_commandline(hl, D), "report": []}
        if ".assemble" in b:
            run["snv_vcf"] = os.path.join(D, "simple.vcf.gz")
        else:
            cl = [l for l in hl if l.startswith("##commandline")]
            m = re.search(r"--haplotypes (\S+)", cl[0]) if cl else None
            if not m:
                continue
            run["hap_vcf"] = os.path.join(D, os.path.basename(m.group(1).strip('"')))
        n, problems = tb.add_output(text, run, None, label=b)
        owner.extend([run] * n)
        n_gold_files += 1
        for ln, why in problems:
            ck.violation("unparseable-line", {"golden": b, "line": ln, "why": why}, key={"site": "golden", "clause": "Columns"})
    ck.note("golden_files_validated", n_gold_files)
    ck.note("lines_from_live_runs", n_live)
    ck.note("lines_from_goldens", len(tb.lines) - n_live)
    ck.note("lines_with_internal_values", sum(1 for m in tb.meta if m["has_internal"]))

    # ---- 4. code -> spec: TLC gives every line a verdict --------------------------------------
    dump = tb.dump()
    try:
        rejects = validate_chunks(ck, dump, "lines")
    except tlc.TLCError as e:
        ck.machinery_failure(str(e))
    grouped = {}
    for idx in sorted(rejects):
        run, ev = owner[idx], tb.lines[idx]
        for c in rejects[idx]["clause"]:
            fields = sorted(rejects[idx].get("fields", [])) if c in ("InfoCard", "FormatCard") else []
            grouped.setdefault((run["id"], c, tuple(fields)), []).append(idx)
    for (rid, c, fields), idxs in grouped.items():
        run = owner[idxs[0]]
        recs = [tb.lines[i]["rec"] for i in idxs]
        refmasked = all(vcflines.info_value(r, "REFMASKED") is not None for r in recs)
        key = {"site": run["prog"], "clause": c, "ploidy_file_superset": bool(run.get("ploidy_superset"))}
        if fields:
            key["fields"] = list(fields)
            key["refmasked"] = refmasked
        ck.violation(
            "trace-reject",
            {"run": rid, "prog": run["prog"], "argv": run.get("argv"), "clause": c, "fields": list(fields), "n_lines": len(idxs),
             "records": [r["id"] for r in recs][:12], "all_failing_clauses": rejects[idxs[0]]["clause"],
             "first_line": tb.meta[idxs[0]]["text"][:1500], "ploidy": tb.lines[idxs[0]]["ploidy"]},
            key=key,
        )
    ck.traces += len(tb.lines)
    ck.evaluations += len(tb.lines)
    distinct = set()
    for ev, meta in zip(tb.lines, tb.meta):
        rec = ev["rec"]
        if rec["alts"] and (len(rec["fmt"]) > 11 or len([e for e in rec["info"] if e["k"] in ("AFPRIOR", "ACP", "AFP", "AOP", "AOPSUM", "SNVDP")]) > 0):
            distinct.add(meta["text"])
    ck.nontrivial += len(distinct)
    if tb.lines:
        k = next((i for i, m in enumerate(tb.meta) if m["has_internal"] and tb.lines[i]["rec"]["alts"]), 0)
        ck.sample({"kind": "validated-line", "run": owner[k]["id"], "argv": owner[k].get("argv"), "line": tb.meta[k]["text"][:700]})
    if configs:
        c = configs[len(configs) // 2]
        ck.sample({"kind": "scenario-configuration", "prog": c["prog"], "report": c["report"], "shape": c["shape"], "ploidy": c["ploidy"],
                   "pat": c["pat"], "gts": c["gts"], "filter": c["filter"]})

    # ---- 5. spec -> code replay bookkeeping ------------------------------------------------------
    pairs_model = {(c["prog"], tuple(sorted(c["report"]))) for c in configs}
    pairs_run = {(r["prog"], tuple(sorted(r["report"]))) for r in runs}
    if not pairs_model <= pairs_run:
        ck.machinery_failure("run plan does not cover every (program, report) configuration of the model")
    ck.traces += stats["runs_matched"]
    ck.note("replayed_program_report_configurations", len(pairs_model))
    ck.note("replayed_records_matched_to_a_model_shape", stats["records_matched"])
    ck.note("model_configurations_with_a_matching_real_record", len(stats["configs_hit"]))
    shapes_model = {(c["prog"], c["shape"]) for c in configs}
    ck.note("program_shape_pairs_observed", sorted("%s/%s" % p for p in stats["shapes"]))
    ck.note("program_shape_pairs_not_observed", sorted("%s/%s" % p for p in shapes_model - stats["shapes"]))
    ck.note("scenario_mismatches", stats["mismatch"][:20])
    ck.note("scenario_mismatch_count", len(stats["mismatch"]))
    ck.note("runs_crashed", crashes)
    ck.note("pysam_second_opinion_failures", pysam_bad)

    # ---- 6. binding demonstration: corrupted recorded lines must be rejected with the right clause ----
    cand = [i for i in range(n_live) if i not in rejects and tb.meta[i]["has_internal"] and tb.lines[i]["rec"]["alts"]]
    bad, expect = [], []
    for clause, what in CORRUPTIONS:
        for i in cand:
            e = corrupt(tb.lines[i], what)
            if e is not None:
                bad.append(e)
                expect.append(clause)
                break
    if len(bad) < 8:
        ck.machinery_failure("could not build the corrupted-trace demonstration (%d cases)" % len(bad))
    try:
        rj = validate_chunks(ck, {"headers": dump["headers"], "contigs": dump["contigs"], "lines": bad}, "corrupt")
    except tlc.TLCError as e:
        ck.machinery_failure(str(e))
    for i, clause in enumerate(expect):
        if clause not in rj.get(i, {}).get("clause", []):
            ck.machinery_failure("corrupted line %d (%s) was not rejected for that clause: %s" % (i, clause, rj.get(i)))
    ck.note("corrupted_traces_rejected", len(bad))
    ck.exhaustive = False
    ck.assumptions = [
        "TLC and the CommunityModules Json/IOUtils operators are correct",
        "the lexical splitter harness/vlib/vcflines.py (str.split + regular expressions + decimal) is correct; pysam.VariantFile is a second opinion only",
        "internal values are those held by LocusAssemblyData when format_vcf_record is entered (captured by wrapping that method in the worker)",
        "datasets are bounded (2 contigs, 8 locus shapes, 3 samples, ploidy 1..6, <= 5 SNVs per locus); the configuration space is exhaustive over --report subsets in thorough only",
    ]
    ck.finish()


if __name__ == "__main__":
    main()
