"""C03: call-exact reports the true normalised posterior; both code paths agree.

spec  : spec/ExactPosterior/{ExactPosterior,TraceExactPosterior}.tla
bind  : spec -> code  every instance TLC enumerates (menu x reads x ploidy x F x frequency pattern) is
                      replayed into posterior_mode (all flag combinations), genotype_likelihoods,
                      genotype_posteriors, alternate_dosage_posteriors, posterior_allele_frequencies
                      (compiled and interpreted) and compared with the model's exact rationals;
                      a grid of instances is materialised as FASTA/VCF/BAM and `mchap call-exact`
                      is run once per --report subset (in-process and as a real subprocess)
        code -> spec  step traces of the streaming path recorded in py-mode, outputs of both paths on
                      seeded random instances outside the menus, and every FORMAT field printed by the
                      command line, validated by TraceExactPosterior.tla
"""
import itertools
import json
import math
import os
import random
import subprocess
import sys
import threading
from fractions import Fraction

sys.path.insert(0, os.path.dirname(os.path.abspath(__file__)))
from vlib import env, tlc, pool, callgen
from vlib.report import Check
from vlib.compare import close_prob, close_log, close_text3, log_fraction

SPEC = os.path.join(env.SPEC, "ExactPosterior")
REPORT_FIELDS = ["GP", "GL", "AFP", "ACP", "AOP", "SNVDP", "AFPRIOR"]


import time
_T0 = time.time()


def log(msg):
    print("[C03 %6.1fs] %s" % (time.time() - _T0, msg), flush=True)


def unlimb(l):
    v = 0
    for x in reversed(l):
        v = v * 10000 + x
    return v


def rank(g):
    return sum(math.comb(a + i, i + 1) for i, a in enumerate(g))


def inst_of(rec):
    return {k: rec[k] for k in ("P", "m", "Fn", "Fd", "pat", "K", "N", "H", "A", "w", "reads")}


def ikey(rec):
    return (rec["m"], rec["pat"], rec["P"], rec["Fn"], tuple((tuple(r["cells"]), r["cnt"]) for r in rec["reads"]))


class Model:
    """Exact outputs of one TLC `done` state."""

    def __init__(self, rec):
        self.rec = rec
        self._cache = {}
        self.inst = inst_of(rec)
        self.P, self.K = rec["P"], rec["K"]
        self.order = [tuple(g) for g in rec["order"]]
        self.J = [unlimb(x) for x in rec["jtab"]]
        self.L = [unlimb(x) for x in rec["ltab"]]
        self.total = unlimb(rec["total"])
        self.csum = sum(r["cnt"] for r in rec["reads"])
        self.lden = rec["lbase"] ** self.csum
        self.Z = 1
        for f in rec["priorNorm"]:
            self.Z *= f
        self.argmax = set(rec["argmax"])
        self.fnum = [unlimb(x) for x in rec["fnum"]]
        self.onum = [unlimb(x) for x in rec["onum"]]
        self.jmax = max(self.J)
        fin = [j for j in self.J if j > 0]
        self.vmax = max(abs(log_fraction(Fraction(j, self.Z * self.lden))) for j in fin)
        self.rel32 = 3e-7 * max(1.0, self.vmax)      # float32 log-joints (array path), see report
        self.ctx = {"m": rec["m"], "pat": rec["pat"], "P": rec["P"], "Fn": rec["Fn"]}

    def post(self, i):
        c = self._cache.get(("p", i))
        if c is None:
            c = self._cache[("p", i)] = Fraction(self.J[i], self.total)
        return c

    def supp(self, gt):
        s = frozenset(gt)
        c = self._cache.get(("s", s))
        if c is None:
            c = self._cache[("s", s)] = Fraction(sum(j for g, j in zip(self.order, self.J) if set(g) == s), self.total)
        return c

    def supp_indices(self, gt):
        s = set(gt)
        return [i for i, g in enumerate(self.order) if set(g) == s]

    def afp(self, a):
        c = self._cache.get(("f", a))
        if c is None:
            c = self._cache[("f", a)] = Fraction(self.fnum[a], self.P * self.total)
        return c

    def acp(self, a):
        c = self._cache.get(("c", a))
        if c is None:
            c = self._cache[("c", a)] = Fraction(self.fnum[a], self.total)
        return c

    def aop(self, a):
        c = self._cache.get(("o", a))
        if c is None:
            c = self._cache[("o", a)] = Fraction(self.onum[a], self.total)
        return c

    def drop_cache(self):
        self._cache = {}

    def self_check(self):
        assert sum(self.J) == self.total, "model table does not sum to total"
        assert len(self.J) == math.comb(self.K + self.P - 1, self.P)
        assert all(rank(g) == i for i, g in enumerate(self.order))


# --------------------------------------------------------------------------- comparisons
def is_max(ck, M, i, rel):
    """relational GT clause: index i must be an exact maximiser, or within `rel` of one (near tie)."""
    if i in M.argmax:
        return True
    if M.J[i] >= M.jmax * (1 - rel):
        ck.bump("near_tie")
        return True
    return False


def viol(ck, M, site, field, impl, model, mode, extra=None):
    d = {"site": site, "field": field, "mode": mode, "impl": impl, "model": str(model),
         "model_float": float(model) if isinstance(model, Fraction) else model, "inst": M.inst}
    if extra:
        d.update(extra)
    key = {"site": site, "field": field}
    key.update(M.ctx)
    ck.violation("posterior", d, key=key)


def cmp_stream(ck, M, res, flags, mode, site="posterior_mode"):
    want_len = 3 + sum(1 for f in flags if f)
    if len(res) != want_len:
        viol(ck, M, site, "tuple-length", len(res), want_len, mode, {"flags": flags})
        return
    gt = tuple(int(x) for x in res[0])
    if list(gt) != sorted(gt) or len(gt) != M.P or not all(0 <= a < M.K for a in gt):
        viol(ck, M, site, "GT-wellformed", gt, "sorted alleles", mode)
        return
    i = rank(gt)
    if not is_max(ck, M, i, 1e-7):
        viol(ck, M, site, "GT-is-maximiser", gt, [M.order[k] for k in sorted(M.argmax)], mode)
    if not close_log(res[1][0], Fraction(M.L[i], M.lden)):
        viol(ck, M, site, "mode-llk", res[1][0], Fraction(M.L[i], M.lden), mode)
    if not close_prob(res[2][0], M.post(i)):
        viol(ck, M, site, "GPM", res[2][0], M.post(i), mode)
    k = 3
    if flags[0]:
        if not close_prob(res[k][0], M.supp(gt)):
            viol(ck, M, site, "SPM", res[k][0], M.supp(gt), mode)
        k += 1
    if flags[1]:
        for a in range(M.K):
            if len(res[k]) != M.K or not close_prob(res[k][a], M.afp(a)):
                viol(ck, M, site, "AFP", res[k], [str(M.afp(b)) for b in range(M.K)], mode)
                break
        k += 1
    if flags[2]:
        for a in range(M.K):
            if len(res[k]) != M.K or not close_prob(res[k][a], M.aop(a)):
                viol(ck, M, site, "AOP", res[k], [str(M.aop(b)) for b in range(M.K)], mode)
                break


def cmp_array(ck, M, o, mode):
    n = len(M.J)
    if o["llk_dtype"] != "float32":
        ck.note("genotype_likelihoods_dtype", o["llk_dtype"])
    if len(o["gl"]) != n or len(o["gp"]) != n:
        viol(ck, M, "genotype_posteriors", "G-length", [len(o["gl"]), len(o["gp"])], n, mode)
        return
    for i in range(n):
        lq = log_fraction(Fraction(M.L[i], M.lden))
        if not abs(o["gl"][i] - lq) <= 2e-6 * max(1.0, abs(lq)):
            viol(ck, M, "genotype_likelihoods", "GL", o["gl"][i], lq, mode, {"index": i, "genotype": M.order[i]})
            break
    rel = M.rel32
    for i in range(n):
        if not close_prob(o["gp"][i], M.post(i), rel=rel):
            viol(ck, M, "genotype_posteriors", "GP", o["gp"][i], M.post(i), mode,
                 {"index": i, "genotype": M.order[i], "rel": rel})
            break
    i = o["arr_idx"]
    if tuple(o["arr_gt"]) != M.order[i]:
        viol(ck, M, "index_as_genotype_alleles", "GT", o["arr_gt"], M.order[i], mode)
    if not is_max(ck, M, i, 4 * rel):
        viol(ck, M, "genotype_posteriors", "GT-is-maximiser", o["arr_gt"], [M.order[k] for k in sorted(M.argmax)], mode)
    si = M.supp_indices(M.order[i])
    if [tuple(g) for g in o["arr_supp_gen"]] != [M.order[k] for k in si]:
        viol(ck, M, "alternate_dosage_posteriors", "support-genotypes", o["arr_supp_gen"], [M.order[k] for k in si], mode)
    elif not close_prob(sum(o["arr_supp"]), M.supp(M.order[i]), rel=rel):
        viol(ck, M, "alternate_dosage_posteriors", "SPM", sum(o["arr_supp"]), M.supp(M.order[i]), mode)
    for name, f in (("arr_afp", M.afp), ("arr_acp", M.acp), ("arr_aop", M.aop)):
        if len(o[name]) != M.K or not all(close_prob(o[name][a], f(a), rel=rel * M.P) for a in range(M.K)):
            viol(ck, M, "posterior_allele_frequencies", name[4:].upper(), o[name], [str(f(a)) for a in range(M.K)], mode)


def api_events(M, o):
    """table/fields events (code -> spec) from one API result"""
    inst = M.inst
    ev = [{"op": "table", "P": inst["P"], "Fn": inst["Fn"], "Fd": inst["Fd"], "H": inst["H"], "A": inst["A"],
           "w": inst["w"], "reads": inst["reads"], "tile": inst.get("tile", 1)}]
    full = o["pm"][-1]

    def q(x, s):
        x = float(x)
        if x != x or x in (math.inf, -math.inf):
            return 0          # non-finite output: already reported by the direct comparison; keeps the trace well-typed
        return int(round(x * s))

    ev.append({"op": "fields", "level": "api", "path": "stream", "R": [], "scale": 1000000,
               "gt": [int(x) for x in full[0]], "gpm": q(full[2][0], 1e6), "spm": q(full[3][0], 1e6),
               "afp": [q(x, 1e6) for x in full[4]], "acp": [], "aop": [q(x, 1e6) for x in full[5]], "gp": []})
    ev.append({"op": "fields", "level": "api", "path": "array", "R": ["GP"], "scale": 10000,
               "gt": o["arr_gt"], "gpm": q(o["gp"][o["arr_idx"]], 1e4), "spm": q(sum(o["arr_supp"]), 1e4),
               "afp": [q(x, 1e4) for x in o["arr_afp"]], "acp": [q(x, 1e4) for x in o["arr_acp"]],
               "aop": [q(x, 1e4) for x in o["arr_aop"]], "gp": [q(x, 1e4) for x in o["gp"]]})
    return ev


# --------------------------------------------------------------------------- trace validation
def validate_traces(ck, cases, label, expect_reject=None):
    """cases: list of event lists (each starting with start/table).  Runs TraceExactPosterior in
    parallel JVMs.  Returns (events, rejects) ; reports rejects as violations unless expect_reject."""
    if not cases:
        return 0, []
    njvm = max(1, min(env.NCPU, 8, len(cases) // 20 or 1))
    chunks = [[] for _ in range(njvm)]
    for i, c in enumerate(cases):
        chunks[i % njvm].append(c)
    results = [None] * njvm
    errors = []

    def work(k):
        ev = [e for c in chunks[k] for e in c]
        tf = os.path.join(ck.wd, "trace-%s-%d.json" % (label, k))
        with open(tf, "w") as fh:
            json.dump(ev, fh)
        try:
            t = tlc.run(SPEC, "TraceExactPosterior", "Trace.cfg", workers=1, extra_env={"TRACE_FILE": tf},
                        name="TraceExactPosterior-%s-%d" % (label, k), timeout=1500)
        except tlc.TLCError as e:
            errors.append(str(e))
            return
        results[k] = (ev, t)

    ths = [threading.Thread(target=work, args=(k,)) for k in range(njvm)]
    for t in ths:
        t.start()
    for t in ths:
        t.join()
    if errors:
        ck.machinery_failure("trace validation: " + errors[0][-1500:])
    n_events, rejects = 0, []
    for k, (ev, t) in enumerate(results):
        ck.add_tlc(t, "Trace-%s-%d" % (label, k))
        consumed = [p for p in t.printed if "consumed" in p]
        if not consumed or consumed[0]["consumed"] != len(ev):
            ck.machinery_failure("trace %s-%d not fully consumed: %s" % (label, k, consumed))
        n_events += len(ev)
        for p in t.printed:
            if "reject" in p:
                e = ev[p["reject"] - 1]
                # find the case header
                h = p["reject"] - 1
                while ev[h]["op"] not in ("start", "table"):
                    h -= 1
                rejects.append({"line": p["reject"], "clause": p["clause"], "event": e, "case": ev[h]})
    if expect_reject is None:
        for r in rejects:
            ck.violation("trace-reject", r, key={"site": "trace:" + r["event"]["op"], "clause": r["clause"],
                                                "level": r["event"].get("level", "api")})
    return n_events, rejects


def wide_instances(rnd, tier):
    """loci with more genotypes than any buffer / block size in the implementation (65536 and beyond)"""
    shapes = [(4, 36), (2, 363), (6, 17)] if tier == "quick" else [(4, 36), (2, 363), (6, 17), (3, 74), (4, 37), (5, 23), (2, 512), (8, 12), (1, 600)]
    out = []
    for k, (P, K) in enumerate(shapes):
        pat = k % 3
        n = [1] * K if pat == 0 else [3 if a % 5 == 0 else 1 for a in range(K)] if pat == 1 else [1 + (a * 7) % 4 for a in range(K)]
        fn = [0, 3, 1][(k + (0 if tier == "quick" else rnd.randrange(3))) % 3]
        out.append({"P": P, "K": K, "fn": fn, "fd": 16, "n": n, "R": rnd.randint(1, 3), "seed": rnd.randrange(2**31), "n_pick": 12,
                    "flat_none": pat == 0 and k % 2 == 0})
    return out


def validate_wide(ck, rnd, tier):
    insts = wide_instances(rnd, tier)
    res = pool.map_tasks("impl.c03", [{"op": "wide", "insts": [i]} for i in insts], mode="jit")
    ev = []
    for i, rr in zip(insts, res):
        if not rr["ok"]:
            ck.violation("impl-error", {"error": rr["error"], "tb": rr.get("tb"), "inst": {k: i[k] for k in ("P", "K", "fn")}}, key={"site": "wide-locus"})
            continue
        ev.extend(rr["result"][0])
    if not ev:
        return 0
    tf = os.path.join(ck.wd, "trace-wide.json")
    with open(tf, "w") as fh:
        json.dump(ev, fh)
    try:
        t = tlc.run(SPEC, "TraceWidePosterior", "TraceWide.cfg", workers=1, extra_env={"TRACE_FILE": tf}, name="TraceWidePosterior", timeout=1800)
    except tlc.TLCError as e:
        ck.machinery_failure(str(e))
    ck.add_tlc(t, "TraceWidePosterior")
    consumed = [p for p in t.printed if "consumed" in p]
    if not consumed or consumed[0]["consumed"] != len(ev):
        ck.machinery_failure("wide trace not fully consumed: %s %s" % (consumed, t.error_text[:800]))
    cur = None
    for p in t.printed:
        if "reject" in p:
            e = ev[p["reject"] - 1]
            begin = next(x for x in reversed(ev[: p["reject"]]) if x["op"] == "begin")
            ck.violation("trace-reject", {"clause": p["clause"], "event": e, "instance": {k: begin[k] for k in ("P", "K", "fn", "fd")}},
                         key={"site": "wide:" + e["op"], "clause": p["clause"], "path": e.get("path", "")})
    ck.traces += len(insts)
    ck.note("wide_loci", [{"P": i["P"], "K": i["K"], "genotypes": math.comb(i["K"] + i["P"] - 1, i["P"])} for i in insts])
    # binding demonstration: a corrupted probability, a wrong index and a wrong total must be rejected
    bad = [dict(e) for e in ev[:4]]
    k = next(j for j, e in enumerate(bad) if e["op"] == "gp")
    bad[k]["q"] = bad[k]["q"] + 50000
    bad.append(dict(next(e for e in ev if e["op"] == "gp" and e["i"] > 0), i=0))
    bad.append(dict(next(e for e in ev if e["op"] == "sum"), q9=1000002000))
    tfb = os.path.join(ck.wd, "trace-wide-corrupt.json")
    with open(tfb, "w") as fh:
        json.dump(bad, fh)
    try:
        t2 = tlc.run(SPEC, "TraceWidePosterior", "TraceWide.cfg", workers=1, extra_env={"TRACE_FILE": tfb}, name="TraceWidePosterior-demo", timeout=600)
    except tlc.TLCError as e:
        ck.machinery_failure(str(e))
    got = sorted(p["clause"] for p in t2.printed if "reject" in p)
    if not {"PosteriorIsNormalisedJoint", "IndexIsVcfRank", "ArraySumsToOne"} <= set(got):
        ck.machinery_failure("corrupted wide trace: expected three named rejections, got %s" % got)
    return len(ev)


def random_instance(rnd):
    P = rnd.randint(1, 5)
    high = rnd.random() < 0.12
    if high:
        P = rnd.choice([9, 10, 11, 12])      # decaploids / pooled samples: allele dosages above 8
    while True:
        K = rnd.randint(1, 5) if not high else rnd.randint(2, 3)
        N = rnd.randint(1, 4) if K > 1 else rnd.randint(0, 2)
        A = [rnd.randint(2, 3) for _ in range(N)]
        H = [[rnd.randrange(A[j]) for j in range(N)] for _ in range(K)]
        if len({tuple(h) for h in H}) == K:
            break
    w = [rnd.randint(0, 4) for _ in range(K)]
    if sum(w) == 0:
        w[rnd.randrange(K)] = 1
    Fn = rnd.choice([0, 0, 1, 3, 5, 8, 11, 15]) if not high else rnd.choice([0, 0, 0, 3, 8])
    cells = set()
    for _ in range(rnd.randint(0, 4) if not high else rnd.randint(0, 1)):
        cells.add(tuple(rnd.choice([-1] + list(range(A[j]))) for j in range(N)))
    reads = [{"cells": list(c), "cnt": rnd.randint(1, 3)} for c in sorted(cells)]
    if not high and P <= 3 and rnd.random() < 0.12:
        # a deep sample whose reads all carry a haplotype of prior frequency exactly zero (a masked allele) that differs
        # from the other haplotypes at three or four SNVs: the likelihood favours it by far more than the range of a
        # double (> 900 nats), the posterior must still give it nothing
        K, N, A = rnd.choice([2, 3]), 4, [2, 2, 2, 2]
        H = [[0, 0, 0, 0], [1, 1, 1, 1], [0, 0, 0, 1]][:K]
        w = [rnd.randint(1, 3), 0, rnd.randint(1, 3)][:K]
        reads = [{"cells": [0, 0, -1, 0], "cnt": rnd.randint(1, 3)}, {"cells": [1, 1, 1, 1], "cnt": 120}]
        Fn = rnd.choice([0, 3, 8])
    inst = {"P": P, "m": "random", "Fn": Fn, "Fd": 16, "pat": "random", "K": K, "N": N, "H": H, "A": A, "w": w, "reads": reads}
    if not high and P <= 3 and K <= 3 and N == 2 and max(r["cnt"] for r in reads + [{"cnt": 0}]) <= 3 and len(reads) <= 3:
        inst["tile"] = 70      # a long locus: the two SNV columns of haplotypes and reads repeated 70 times (140 SNVs)
    return inst


# --------------------------------------------------------------------------- command line level
def build_cli_dataset(ck, models, rnd, variants):
    d = os.path.join(ck.wd, "cli")
    os.makedirs(d, exist_ok=True)
    by = {}
    for M in models.values():
        r = M.rec
        by.setdefault((r["m"], r["pat"]), {}).setdefault((r["P"], r["Fn"]), []).append(M)
    samples = sorted({pf for g in by.values() for pf in g})
    loci, cells = [], []
    for (m, pat) in sorted(by):
        g = by[(m, pat)]
        if set(g) != set(samples):
            continue
        for v in range(variants):
            row = {}
            for pf in samples:
                cand = sorted(g[pf], key=lambda M: ikey(M.rec))
                row[pf] = rnd.choice(cand)
            any_m = next(iter(row.values()))
            loci.append({"name": "%s_%s_%d" % (m, pat, v), "H": any_m.rec["H"], "w": any_m.rec["w"], "pat": pat, "m": m,
                         "refmasked": False})
            cells.append(row)
    clen = callgen.write_fasta(os.path.join(d, "ref.fa"), len(loci))
    sname = {pf: "P%dF%d" % pf for pf in samples}
    bams = []
    n_reads = 0
    for pf in samples:
        path = os.path.join(d, sname[pf] + ".bam")
        n_reads += callgen.write_bam(path, sname[pf], clen, [cells[k][pf].rec["reads"] for k in range(len(loci))])
        bams.append(path)
    callgen.write_sample_map(os.path.join(d, "ploidy.txt"), [(sname[pf], pf[0]) for pf in samples])
    callgen.write_sample_map(os.path.join(d, "inbreeding.txt"), [(sname[pf], pf[1] / 4) for pf in samples])
    # tagged VCF: every locus, weights in INFO/AFW; untagged: flat loci as they are, refzero loci as REFMASKED
    callgen.write_vcf(os.path.join(d, "tagged.vcf"), loci, clen, tag="AFW")
    unt = []
    for loc in loci:
        if loc["pat"] == "flat":
            unt.append(dict(loc))
        elif loc["pat"] == "refzero":
            unt.append(dict(loc, refmasked=True))
        else:
            unt.append(None)
    # keep positions: write only the selected records
    with open(os.path.join(d, "tagged.vcf")) as fh:
        lines = fh.read().splitlines()
    head = [x for x in lines if x.startswith("#")]
    body = [x for x in lines if not x.startswith("#")]
    with open(os.path.join(d, "untagged.vcf"), "w") as fh:
        for x in head:
            if "ID=AFW" not in x:
                fh.write(x + "\n")
        for loc, x in zip(unt, body):
            if loc is None:
                continue
            c = x.split("\t")
            c[7] = "REFMASKED" if loc["refmasked"] else "."
            fh.write("\t".join(c) + "\n")
    base = ["mchap", "call-exact", "--bam"] + bams + [
        "--ploidy", os.path.join(d, "ploidy.txt"), "--inbreeding", os.path.join(d, "inbreeding.txt"),
        "--base-error-rate", "0.125"]
    configs = {
        "tagged": base + ["--haplotypes", os.path.join(d, "tagged.vcf"), "--prior-frequencies", "AFW"],
        "untagged": base + ["--haplotypes", os.path.join(d, "untagged.vcf")],
    }
    index = {loc["name"]: k for k, loc in enumerate(loci)}
    ck.note("cli_loci", len(loci))
    ck.note("cli_samples", len(samples))
    ck.note("cli_bam_reads", n_reads)
    return configs, loci, cells, index, sname


def report_sets(tier, rnd):
    if tier == "thorough":
        return [list(c) for n in range(len(REPORT_FIELDS) + 1) for c in itertools.combinations(REPORT_FIELDS, n)]
    sets = [[]] + [[f] for f in REPORT_FIELDS] + [list(REPORT_FIELDS), ["GP", "AFP"], ["GL", "AOP"], ["ACP", "SNVDP", "AFPRIOR"],
                                                   ["AFP", "ACP", "AOP"], ["GP", "GL"]]
    return sets


def check_cli_output(ck, text, seen, R, cfgname, loci, cells, index, sname):
    """compare every sample cell of one call-exact run with the model; returns parsed cells for cross-R checks
    and the fields events for the trace validation"""
    recs = callgen.parse_vcf_samples(text)
    path = "array" if ("GP" in R or "GL" in R) else "stream"
    obs_path = "array" if seen["array"] and not seen["stream"] else "stream" if seen["stream"] and not seen["array"] else "mixed"
    if obs_path != path:
        ck.bump("path_selection_differs_from_documented")   # informational: not a clause of the property
    tol_path = obs_path if obs_path != "mixed" else "array"
    parsed = {}
    events = {}
    want_keys = {"GT", "GPM", "SPM"} | ({"AFP", "ACP", "AOP", "GP", "GL"} & set(R))
    for rec in recs:
        k = index.get(rec["id"])
        if k is None:
            ck.violation("cli", {"what": "unexpected record", "id": rec["id"], "R": R}, key={"site": "call-exact", "field": "record-id"})
            continue
        for pf, name in sname.items():
            M = cells[k][pf]
            s = rec["samples"].get(name)
            ctx = {"R": R, "config": cfgname, "locus": rec["id"], "sample": name, "path": tol_path}
            if s is None or not want_keys <= set(s):
                viol(ck, M, "call-exact", "FORMAT-keys", sorted(s or []), sorted(want_keys), "cli", ctx)
                continue
            ck.evaluations += 1
            slack = M.rel32 * M.P if tol_path == "array" else 0.0
            try:
                gt = tuple(int(x) for x in s["GT"].split("/"))
            except ValueError:
                viol(ck, M, "call-exact", "GT", s["GT"], "called genotype", "cli", ctx)
                continue
            if list(gt) != sorted(gt) or len(gt) != M.P or not all(0 <= a < M.K for a in gt):
                viol(ck, M, "call-exact", "GT-wellformed", s["GT"], "sorted alleles of the record", "cli", ctx)
                continue
            i = rank(gt)
            if not is_max(ck, M, i, 4 * M.rel32 if tol_path == "array" else 1e-7):
                viol(ck, M, "call-exact", "GT-is-maximiser", s["GT"], [M.order[j] for j in sorted(M.argmax)], "cli", ctx)
            if not close_text3(s["GPM"], M.post(i), slack):
                viol(ck, M, "call-exact", "GPM", s["GPM"], M.post(i), "cli", ctx)
            if not close_text3(s["SPM"], M.supp(gt), slack):
                viol(ck, M, "call-exact", "SPM", s["SPM"], M.supp(gt), "cli", ctx)
            ev = {"op": "fields", "level": "cli", "path": tol_path, "R": R, "scale": 1000, "gt": list(gt),
                  "gpm": int(round(float(s["GPM"]) * 1000)), "spm": int(round(float(s["SPM"]) * 1000)),
                  "afp": [], "acp": [], "aop": [], "gp": []}
            for fld, f in (("AFP", M.afp), ("ACP", M.acp), ("AOP", M.aop)):
                if fld in R:
                    vals = callgen.numlist(s[fld])
                    if vals is None or len(vals) != M.K or any(v is None for v in vals) or not all(
                            close_text3(vals[a], f(a), slack) for a in range(M.K)):
                        viol(ck, M, "call-exact", fld, s[fld], [str(f(a)) for a in range(M.K)], "cli", ctx)
                    else:
                        ev[fld.lower()] = [int(round(v * 1000)) for v in vals]
            if "GP" in R:
                vals = callgen.numlist(s["GP"])
                if vals is None or len(vals) != len(M.J) or any(v is None for v in vals) or not all(
                        close_text3(vals[j], M.post(j), slack) for j in range(len(M.J))):
                    viol(ck, M, "call-exact", "GP", s["GP"], [str(M.post(j)) for j in range(len(M.J))], "cli", ctx)
                else:
                    ev["gp"] = [int(round(v * 1000)) for v in vals]
            if "GL" in R:
                vals = callgen.numlist(s["GL"])
                ok = vals is not None and len(vals) == len(M.J) and all(v is not None for v in vals)
                if ok:
                    for j in range(len(M.J)):
                        l10 = log_fraction(Fraction(M.L[j], M.lden)) / math.log(10)
                        if abs(vals[j] - l10) > 0.0005 + 1e-9 + 3e-6 * max(1.0, abs(l10)):
                            ok = False
                if not ok:
                    viol(ck, M, "call-exact", "GL", s["GL"], "log10 likelihood of every genotype in VCF order", "cli", ctx)
            parsed[(rec["id"], name)] = s
            events[(rec["id"], name)] = ev
    return parsed, events, tol_path


def run_cli(ck, models, rnd, tier):
    variants = 2 if tier == "quick" else 3
    configs, loci, cells, index, sname = build_cli_dataset(ck, models, rnd, variants)
    rsets = report_sets(tier, rnd)
    tasks, meta = [], []
    for cfgname, argv in configs.items():
        for R in rsets:
            tasks.append({"op": "cli", "argv": argv + (["--report"] + R if R else [])})
            meta.append((cfgname, R))
    res = pool.map_tasks("impl.c03", tasks, mode="jit")
    outs = {}
    all_events = {}
    for (cfgname, R), rr, t in zip(meta, res, tasks):
        if not rr["ok"]:
            ck.violation("cli-error", {"argv": t["argv"], "error": rr["error"], "tb": rr.get("tb")},
                         key={"site": "call-exact", "field": "exception", "config": cfgname})
            continue
        parsed, events, path = check_cli_output(ck, rr["result"]["stdout"], rr["result"]["seen"], R, cfgname, loci, cells, index, sname)
        outs[(cfgname, tuple(R))] = (parsed, path)
        for kk, ev in events.items():
            lst = all_events.setdefault(kk + (cfgname,), [])
            sig = {k: v for k, v in ev.items() if k != "R"}
            if not any({k: v for k, v in e.items() if k != "R"} == sig for e in lst):
                lst.append(ev)      # identical printed values for another R add nothing to the trace
        ck.traces += 1
    # report-set independence: common FORMAT fields across runs of the same dataset
    for cfgname in configs:
        runs = [(R, v) for (c, R), v in outs.items() if c == cfgname]
        if not runs:
            continue
        R0, (base, p0) = runs[0]
        for R, (parsed, p1) in runs[1:]:
            for cell, s in parsed.items():
                b = base.get(cell)
                if b is None:
                    continue
                k = index[cell[0]]
                M = cells[k][[pf for pf, n in sname.items() if n == cell[1]][0]]
                tie = False
                if p0 != p1 and s.get("GT") != b.get("GT"):
                    # different maximisers reported by the two paths: legitimate only for (near-)ties; then the support
                    # statistics refer to different allele sets and are not comparable across the two runs
                    gi, gj = rank([int(x) for x in s["GT"].split("/")]), rank([int(x) for x in b["GT"].split("/")])
                    tie = M.J[gi] >= M.jmax * (1 - 4 * M.rel32) and M.J[gj] >= M.jmax * (1 - 4 * M.rel32)
                    if tie:
                        ck.bump("cross_path_tie_cells")
                for fld in set(s) & set(b):
                    if s[fld] == b[fld]:
                        continue
                    if tie and fld in ("SPM", "SQ", "MEC", "MECP"):
                        continue
                    ok = False
                    if p0 != p1:   # streaming vs array path: single precision rounding may move the third decimal
                        if fld == "GT":
                            gi, gj = rank([int(x) for x in s[fld].split("/")]), rank([int(x) for x in b[fld].split("/")])
                            ok = M.J[gi] >= M.jmax * (1 - 4 * M.rel32) and M.J[gj] >= M.jmax * (1 - 4 * M.rel32)
                        elif fld in ("GQ", "SQ"):
                            ok = abs(int(s[fld]) - int(b[fld])) <= 1
                        else:
                            va, vb = callgen.numlist(s[fld]), callgen.numlist(b[fld])
                            ok = va is not None and vb is not None and len(va) == len(vb) and all(
                                x is not None and y is not None and abs(x - y) <= 0.001 + 1e-9 for x, y in zip(va, vb))
                    if not ok:
                        viol(ck, M, "call-exact", "report-independence:" + fld, {"R": list(R), "value": s[fld]},
                             "R=%s gives %s" % (list(R0), b[fld]), "cli", {"locus": cell[0], "sample": cell[1], "config": cfgname})
    # real subprocess runs (console entry point) must print the same records as the in-process runs
    nsub = 0
    for cfgname, argv in configs.items():
        for R in ([], list(REPORT_FIELDS)):
            a = argv + (["--report"] + R if R else [])
            p = subprocess.run([env.PY, "-c", "import sys; from mchap.application.cli import main; main()"] + a[1:],
                               capture_output=True, text=True, env=env.impl_env("jit"), cwd=env.workdir("cwd"), timeout=600)
            nsub += 1
            ref = [r for (m, r) in zip(meta, res) if m == (cfgname, R)][0]
            if p.returncode != 0:
                ck.violation("cli-error", {"argv": a, "rc": p.returncode, "stderr": p.stderr[-1500:]},
                             key={"site": "call-exact", "field": "exit-status", "config": cfgname})
            elif ref["ok"]:
                mine = [x for x in p.stdout.splitlines() if not x.startswith("##")]
                theirs = [x for x in ref["result"]["stdout"].splitlines() if not x.startswith("##")]
                if mine != theirs:
                    ck.violation("cli", {"what": "subprocess output differs from in-process output", "argv": a},
                                 key={"site": "call-exact", "field": "subprocess-vs-inprocess", "config": cfgname})
    ck.note("cli_runs_inprocess", len(tasks))
    ck.note("cli_runs_subprocess", nsub)
    # code -> spec: the printed fields as trace events
    cases = []
    for (locus, name, cfgname), evs in sorted(all_events.items()):
        k = index[locus]
        M = cells[k][[pf for pf, n in sname.items() if n == name][0]]
        inst = M.inst
        cases.append([{"op": "table", "P": inst["P"], "Fn": inst["Fn"], "Fd": inst["Fd"], "H": inst["H"], "A": inst["A"],
                       "w": inst["w"], "reads": inst["reads"]}] + evs)
    return cases


# --------------------------------------------------------------------------- main
def replay(ck, path):
    """./check C03 --replay work/C03/violation-N.json : re-run exactly that instance through the real code and let
    the trace spec decide (prints the verdict per output event)."""
    with open(path) as fh:
        rec = json.load(fh)
    inst = rec["detail"].get("inst") or rec["detail"].get("case")
    if inst is None:
        print("replay: no instance in %s" % path)
        sys.exit(2)
    inst = dict(inst)
    inst.setdefault("K", len(inst["H"]))
    inst.setdefault("N", len(inst["H"][0]))
    rr = pool.map_tasks("impl.c03", [{"op": "api", "insts": [inst], "all_flags": False}], mode="jit")[0]
    if not rr["ok"]:
        print("replay: implementation raised: %s" % rr["error"])
        sys.exit(1)

    class _M:
        pass
    _M.inst = inst
    case = api_events(_M, rr["result"][0]["variants"]["freq"])
    n, rej = validate_traces(ck, [case], "replay", expect_reject=True)
    print("replay instance: %s" % json.dumps(inst))
    print("implementation : %s" % json.dumps(rr["result"][0]["variants"]["freq"])[:1500])
    for r in rej:
        print("REJECT clause=%s event=%s" % (r["clause"], json.dumps(r["event"])[:600]))
    print("replay verdict: %s" % ("VIOLATION" if rej else "accepted by TraceExactPosterior"))
    sys.exit(1 if rej else 0)


def main():
    ck = Check("C03")
    tier = ck.tier
    if os.environ.get("VERIF_REPLAY"):
        replay(ck, os.environ["VERIF_REPLAY"])
    rnd = random.Random(ck.seed)
    ck.rule = (
        "TLC enumerates every instance of the bounded grid (haplotype menu x read bags x ploidy x F x frequency "
        "pattern) and runs the streaming state machine on each; every `done` state is replayed into the compiled and "
        "interpreted API and compared with the exact rationals. Non-trivial = instance with at least one read and more "
        "than one genotype of positive posterior."
    )
    try:
        killed = 0
        for cfg, inv in (("Mutant_skiplast.cfg", "TotalIsSum"), ("Mutant_occur.cfg", "FrequenciesProper"),
                         ("Mutant_support.cfg", "SupportIsAlleleSetClass")):
            m = tlc.run(SPEC, "ExactPosterior", cfg)
            if m.violated != inv:
                ck.machinery_failure("mutant spec %s not killed (%s)" % (cfg, m.violated))
            killed += 1
        ck.note("mutant_specs_killed", killed)
    except tlc.TLCError as e:
        ck.machinery_failure(str(e))
    # quick: one TLC run over the whole grid; thorough: the same cfg run once per haplotype menu (the menus are
    # independent sub-grids) so that the replay of one menu can start while memory of the previous one is released
    with open(os.path.join(SPEC, "MC_%s.cfg" % tier)) as fh:
        cfg_text = fh.read()
    groups = [("all", "MC_%s.cfg" % tier)]
    if tier == "thorough":
        groups = []
        for menu in ("K1N0", "K2N1", "K3N1", "K3N2", "K4N2", "K2N3", "K4N3"):
            path = os.path.join(ck.wd, "MC_thorough_%s.cfg" % menu)
            with open(path, "w") as fh:
                fh.write(cfg_text.replace("CONSTANT Menus <- MenusThorough", 'CONSTANT Menus = {"%s"}' % menu))
            groups.append((menu, path))
    models = {}
    jit_results = {}
    n_stream = 250 if tier == "quick" else 2500
    pick = []
    for gi, (glabel, cfg) in enumerate(groups):
        try:
            r = tlc.run(SPEC, "ExactPosterior", cfg, timeout=2400, keep_stdout=False, name="ExactPosterior-MC-" + glabel)
        except tlc.TLCError as e:
            ck.machinery_failure(str(e))
        ck.add_tlc(r, "ExactPosterior-" + glabel)
        if r.violated:
            ck.violation("model", {"invariant": r.violated, "text": r.error_text[:1500]}, key={"model": "ExactPosterior"})
        log("TLC %s done: %d states, %d instances" % (glabel, r.distinct, len(r.printed)))
        gmodels = {}
        for rec in r.printed:
            M = Model(rec)
            try:
                M.self_check()
            except AssertionError as e:
                ck.machinery_failure("model output inconsistent: %s %s" % (e, ikey(rec)))
            gmodels[ikey(rec)] = M
            for f in ("jtab", "ltab", "order", "fnum", "onum", "total", "modeJ", "suppJ"):
                rec.pop(f, None)      # keep the compact integers only
        del r
        models.update(gmodels)
        keys = sorted(gmodels)
        # trace picks for this group (proportional share)
        cand = [k for k in keys if not (gmodels[k].inst["Fn"] > 0 and 0 in gmodels[k].inst["w"])]
        share = max(1, n_stream // len(groups)) if len(groups) > 1 else n_stream
        gpick = set(rnd.sample(cand, min(share, len(cand))))
        pick.extend(sorted(gpick))

        # ---- spec -> code, API level ---------------------------------------------
        chunks = [keys[i : i + 150] for i in range(0, len(keys), 150)]
        for mode in ("jit", "py"):
            tasks = []
            for c in chunks:
                insts = [gmodels[k].inst for k in c]
                if mode == "py":   # interpreted math.lgamma(0) raises where compiled lgamma returns inf: not comparable
                    insts = [i for i in insts if not (i["Fn"] > 0 and 0 in i["w"])]
                tasks.append({"op": "api", "insts": insts, "all_flags": mode == "jit"})
            res = pool.map_tasks("impl.c03", tasks, mode=mode)
            for t, rr in zip(tasks, res):
                if not rr["ok"]:
                    ck.violation("impl-error", {"mode": mode, "error": rr["error"], "tb": rr.get("tb"), "first": t["insts"][:1]},
                                 key={"site": "api", "mode": mode})
                    continue
                flag_sets = list(itertools.product([False, True], repeat=3)) if mode == "jit" else [(False,) * 3, (True,) * 3]
                for inst, o in zip(t["insts"], rr["result"]):
                    M = gmodels[ikey(inst)]
                    ck.evaluations += 1
                    if mode == "jit":
                        if ikey(inst) in gpick:
                            jit_results[ikey(inst)] = o
                        if len(inst["reads"]) > 0 and sum(1 for j in M.J if j > 0) > 1:
                            ck.nontrivial += 1
                    for vname, ov in o["variants"].items():
                        for flags, pm in zip(flag_sets, ov["pm"]):
                            cmp_stream(ck, M, pm, flags, mode + ":" + vname)
                        cmp_array(ck, M, ov, mode + ":" + vname)
                    if "expanded" in o:
                        cmp_stream(ck, M, o["expanded"], (True, True, True), mode + ":expanded", site="posterior_mode(read_counts=None)")
            del res
            if keys:
                ck.sample({"kind": "instance", "mode": mode, "inst": gmodels[keys[len(keys) // 3]].inst,
                           "model_total_J": str(gmodels[keys[len(keys) // 3]].total)})
            log("API replay %s %s done" % (glabel, mode))
        for M in gmodels.values():
            M.drop_cache()
    ck.note("instances", len(models))
    keys = sorted(models)
    ck.traces += len(models)

    # ---- spec -> code, command line level ----------------------------------------
    cli_cases = run_cli(ck, models, rnd, tier)
    log("command line level done")

    # ---- code -> spec --------------------------------------------------------------
    n_rand = 60 if tier == "quick" else 600
    rand = [random_instance(rnd) for _ in range(n_rand)]
    rand_py = [i for i in rand if not (i["Fn"] > 0 and 0 in i["w"])]
    st_insts = [models[k].inst for k in pick] + rand_py
    st_chunks = [st_insts[i : i + 40] for i in range(0, len(st_insts), 40)]
    res = pool.map_tasks("impl.c03", [{"op": "stream_trace", "insts": c} for c in st_chunks], mode="py")
    cases = []
    for c, rr in zip(st_chunks, res):
        if not rr["ok"]:
            ck.violation("impl-error", {"error": rr["error"], "tb": rr.get("tb")}, key={"site": "stream_trace"})
            continue
        cases.extend(rr["result"])
    # outputs of both paths (compiled) as table/fields events: picked menu instances and random instances
    out_cases = []
    for k in pick:
        if k in jit_results:
            out_cases.append(api_events(models[k], jit_results[k]["variants"]["freq"]))
    rres = pool.map_tasks("impl.c03", [{"op": "api", "insts": rand[i : i + 50], "all_flags": False} for i in range(0, len(rand), 50)], mode="jit")
    ri = 0
    for rr in rres:
        if not rr["ok"]:
            ck.violation("impl-error", {"error": rr["error"], "tb": rr.get("tb")}, key={"site": "api-random"})
            ri += 50
            continue
        for o in rr["result"]:
            class _M:   # minimal carrier
                inst = rand[ri]
            out_cases.append(api_events(_M, o["variants"]["freq"]))
            ri += 1
    log("traces recorded")
    nw = validate_wide(ck, rnd, tier)
    ck.evaluations += nw
    log("wide loci validated")
    n1, _ = validate_traces(ck, cases, "stream")
    n2, _ = validate_traces(ck, out_cases, "outputs")
    n3, _ = validate_traces(ck, cli_cases, "cli")
    ck.traces += len(cases) + len(out_cases) + len(cli_cases)
    ck.evaluations += n1 + n2 + n3
    ck.note("trace_events_validated", n1 + n2 + n3)
    ck.note("stream_traces", len(cases))
    ck.note("random_instances_outside_menus", len(rand))
    if cases:
        ck.sample({"kind": "stream-trace (first 4 events)", "events": cases[0][:4]})
    if cli_cases:
        ck.sample({"kind": "cli-fields-event", "events": cli_cases[0][:2]})

    log("traces validated")
    # ---- binding demonstration: corrupted traces must be rejected --------------------
    bad_cases, expect = [], []
    if cases:
        cases.sort(key=lambda c: 0 if sum(1 for e in c if e["op"] == "visit1") >= 3 else 1)   # a case with several genotypes first
        c = json.loads(json.dumps(cases[0]))
        v = [e for e in c if e["op"] == "visit1"]
        if len(v) > 1:
            v[1]["g"] = v[0]["g"]               # enumerator order broken
            bad_cases.append(c)
            expect.append("Pass1IsVcfOrder")
        c = json.loads(json.dumps(cases[0]))
        c = [e for e in c if not (e["op"] == "visit1" and e["idx"] == max(x["idx"] for x in c if x["op"] == "visit1"))]
        bad_cases.append(c)                       # last genotype skipped
        expect.append("Pass1VisitsEveryGenotype")
        c = json.loads(json.dumps(cases[0]))
        for e in c:
            if e["op"] == "mode":
                e["gpm"] = (e["gpm"] + 5000) % 1000001
        bad_cases.append(c)
        expect.append("GPMIsModeProbability")
    if out_cases:
        c = json.loads(json.dumps(out_cases[0]))
        c[2]["gp"] = list(reversed(c[2]["gp"])) if len(set(c[2]["gp"])) > 1 else [x + 7 for x in c[2]["gp"]]
        bad_cases.append(c)
        expect.append("GPIsVcfOrderedPosterior")
    if bad_cases:
        _, rej = validate_traces(ck, bad_cases, "corrupt", expect_reject=True)
        got = sorted(x["clause"] for x in rej)
        if len(rej) != len(bad_cases):
            ck.machinery_failure("corrupted traces not all rejected: expected %s got %s" % (sorted(expect), got))
        ck.note("corrupted_traces_rejected", len(rej))
        ck.note("corrupted_trace_clauses", got)
    ck.exhaustive = True
    ck.assumptions = [
        "TLC, the CommunityModules Json/IOUtils operators and Python fractions are correct",
        "exhaustive within the bounded grid of the cfg (menus, read alphabet, counts, ploidies, F in k/4, frequency patterns); "
        "larger/irregular instances are sampled (seeded) and validated by the trace spec",
        "array path tolerance: relative 3e-7*max(1,|log joint|) because genotype_posteriors adds log prior to float32 log likelihoods "
        "(the property allows single-precision rounding on that path)",
        "interpreted (py-mode) runs skip instances with a zero prior frequency and F>0 (math.lgamma(0) raises where compiled lgamma returns inf)",
    ]
    ck.finish()


if __name__ == "__main__":
    main()
