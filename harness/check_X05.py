"""X05 (extra): sequence encodings, loci (targets) files and VCF record text.

spec  : spec/EncodingAndLoci/{EncDefs,EncodingAndLoci,SeqMatrix,LociFile,SnpMerge,VcfText,TraceEncodingAndLoci}.tla
bind  : spec -> code  every TLC state of the five machines replayed into the real functions
          EncodingAndLoci  history of transcoding steps -> from_strings / as_strings / as_probabilistic / as_characters /
                           character.as_allelic (+ vector_* twins, is_gap / is_call / is_valid)
          SeqMatrix        matrices -> argsort (any sorting permutation) / sort / depth (+counts) / character.depth
          LociFile         target files written to disk (plain, gzip) -> read_bed4; region strings -> Locus.from_region_string
          SnpMerge         record streams -> _merge_snps and Locus.set_variants on a tabix indexed VCF
          VcfText          values x precision -> vcfstr ; record behaviours -> format_info_field / format_sample_field / format_record
        code -> spec  calls recorded from seeded random direct calls and from real `mchap assemble` / `mchap call` runs on the
                      repository test data -> TraceEncodingAndLoci.tla (a named verdict per line)
"""
import json
import os
import sys
import time

sys.path.insert(0, os.path.dirname(os.path.abspath(__file__)))
from vlib import env, tlc, pool, repodata
from vlib.report import Check

SPEC = os.path.join(env.SPEC, "EncodingAndLoci")
CONTIG = {1: "chr1", 2: "ctg_2"}
NAME = {1: "locA", 2: "t.7"}
MUTANTS = [
    ("EncodingAndLoci", "MutStrDenotes"), ("EncodingAndLoci", "MutArgMaxFirst"), ("EncodingAndLoci", "MutRowsSumToOne"),
    ("SeqMatrix", "MutSortedFromLast"), ("SeqMatrix", "MutDepthCountsGaps"),
    ("LociFile", "MutCommentYields"), ("LociFile", "MutNameRequired"),
    ("SnpMerge", "MutLastWins"), ("SnpMerge", "MutNeverFails"),
    ("VcfText", "MutKeepsTrailingZero"), ("VcfText", "MutTruncates"), ("VcfText", "MutFalseFlagShown"),
]


def chunks(xs, n):
    return [xs[i: i + n] for i in range(0, len(xs), n)]


def txt(cs):
    return "".join(chr(c) for c in cs)


class Grouped:
    """at most a few VIOLATION lines per (kind, site): the first inputs, plus a count"""

    def __init__(self, ck):
        self.ck = ck
        self.n = {}

    def add(self, kind, key, detail):
        k = (kind, json.dumps(key, sort_keys=True))
        self.n[k] = self.n.get(k, 0) + 1
        if self.n[k] <= 2:
            self.ck.violation(kind, detail, key=key)

    def flush(self):
        self.ck.note("violation_counts", [[k[0], json.loads(k[1]), v] for k, v in self.n.items()])


def main():
    ck = Check("X05")
    tier = ck.tier
    G = Grouped(ck)
    t0 = time.time()
    ck.rule = (
        "TLC enumerates (a) every sequence of length <= 3 over the alleles and the gap with every history of <= MaxSteps "
        "transcoding steps, every small matrix; (b) every targets file of <= MaxLines lines, every stream of <= MaxRecs SNP "
        "records; (c) every listed value x precision and every record behaviour; each state is replayed into the real code. "
        "Non-trivial = a state with a gap or a history of >= 2 steps (a), a file with a comment line or an absent name (b), "
        "a value with a float or a missing member (c)."
    )
    runs = {}
    try:
        for mod, cfg in (("EncodingAndLoci", "MC_%s.cfg"), ("SeqMatrix", "Matrix_%s.cfg"), ("LociFile", "Loci_%s.cfg"),
                         ("SnpMerge", "Merge_%s.cfg"), ("VcfText", "Value_%s.cfg"), ("VcfText", "Record_%s.cfg")):
            r = tlc.run(SPEC, mod, cfg % tier)
            ck.add_tlc(r, mod + ":" + cfg % tier)
            if r.violated:
                ck.violation("model", {"module": mod, "invariant": r.violated, "text": r.error_text[:1500]}, key={"model": mod})
            runs[(mod, cfg)] = r.printed
        killed = 0
        for mod, m in MUTANTS:
            r = tlc.run(SPEC, mod, "Mutant_%s.cfg" % m)
            if r.violated != m:
                ck.machinery_failure("mutant spec %s/%s not killed (%s)" % (mod, m, r.violated))
            killed += 1
        ck.note("mutant_specs_killed", killed)
    except tlc.TLCError as e:
        ck.machinery_failure(str(e))
    ck.note("seconds_model_checking", round(time.time() - t0, 1))
    t1 = time.time()

    # ---- (a) sequence state machine ------------------------------------------------------------
    states = runs[("EncodingAndLoci", "MC_%s.cfg")]
    na = 3 if tier == "quick" else 4
    cs = chunks(states, 600)
    res = pool.map_tasks("impl.x05", [{"op": "seq", "states": c, "na": na} for c in cs], mode="jit", warm_first=False)
    for c, rr in zip(cs, res):
        if not rr["ok"]:
            G.add("impl-error", {"site": "seq"}, {"error": rr["error"]})
            continue
        for st, o in zip(c, rr["result"]):
            ck.evaluations += 1
            last = st["hist"][-1]["op"] if st["hist"] else "Init"
            if -1 in st["abs"] or len(st["hist"]) >= 2:
                ck.nontrivial += 1
            if "error" in o:
                G.add("impl-error", {"site": last, "rep": st["rep"]}, {"state": st, "error": o["error"]})
                continue
            want = st["val"]
            got = o["val"]
            if st["rep"] == "prob":
                ok = len(want) == len(got) and all(
                    len(wr) == len(gr) and all(w == -8 or w == g for w, g in zip(wr, gr)) for wr, gr in zip(want, got))
            else:
                ok = want == got
            if not ok:
                G.add("transcode", {"site": last, "rep": st["rep"]}, {"state": st, "impl": got, "model": want})
            if o["extra"]:
                G.add("vector-twin", {"site": sorted(o["extra"])[0]}, {"state": st, "differs": o["extra"]})
            if st["rep"] == "int":
                e = o["int"]
                wg = [x == -1 for x in st["abs"]]
                if e["is_gap"] != wg or e["is_call"] != [not x for x in wg] or not all(e["is_valid"]):
                    G.add("gap-call-partition", {"site": "is_gap/is_call/is_valid"}, {"state": st, "impl": e})
            if st["rep"] == "chr" and o["chr_is_gap"] != [x == -1 for x in st["abs"]]:
                G.add("gap-call-partition", {"site": "character.is_gap"}, {"state": st, "impl": o["chr_is_gap"]})
    ck.sample({"kind": "EncodingAndLoci state", "state": states[len(states) // 2]})
    ck.traces += sum(1 for s in states if len(s["hist"]) == max(len(x["hist"]) for x in states))

    # ---- (a) matrices ----------------------------------------------------------------------------
    mats = runs[("SeqMatrix", "Matrix_%s.cfg")]
    seen, uniq = set(), []
    for s in mats:
        k = json.dumps(s["m"])
        if k not in seen:
            seen.add(k)
            uniq.append(s)
    cs = chunks(uniq, 400)
    res = pool.map_tasks("impl.x05", [{"op": "mat", "states": c} for c in cs], mode="jit", warm_first=False)
    for c, rr in zip(cs, res):
        if not rr["ok"]:
            G.add("impl-error", {"site": "mat"}, {"error": rr["error"]})
            continue
        for st, o in zip(c, rr["result"]):
            ck.evaluations += 1
            if len(st["perms"]) > 1 or any(-1 in r for r in st["m"]):
                ck.nontrivial += 1
            if "error" in o:
                G.add("impl-error", {"site": "matrix"}, {"state": st, "error": o["error"]})
                continue
            if o["perm"] not in st["perms"]:
                G.add("argsort", {"site": "argsort"}, {"m": st["m"], "impl": o["perm"], "model_sorting_perms": st["perms"]})
            if o["sorted"] != st["sorted"]:
                G.add("sort", {"site": "sort"}, {"m": st["m"], "impl": o["sorted"], "model": st["sorted"]})
            if o["depth"] != st["depth"]:
                G.add("depth", {"site": "integer.depth"}, {"m": st["m"], "impl": o["depth"], "model": st["depth"]})
            if o["depthw"] != o["wantw"]:
                G.add("depth", {"site": "integer.depth counts"}, {"m": st["m"], "impl": o["depthw"], "want": o["wantw"]})
            if o["cdepth"] != st["depth"]:
                G.add("depth", {"site": "character.depth"}, {"m": st["m"], "impl": o["cdepth"], "model": st["depth"]})
            if not o["partition"]:
                G.add("gap-call-partition", {"site": "matrix"}, {"m": st["m"]})
            if o["back"] != st["m"]:
                G.add("transcode", {"site": "matrix as_strings/from_strings"}, {"m": st["m"], "impl": o["back"]})
    ck.sample({"kind": "SeqMatrix state", "state": uniq[len(uniq) // 2]})

    # ---- (b) target files ---------------------------------------------------------------------------
    files = runs[("LociFile", "Loci_%s.cfg")]
    # lines that differ only in ignored columns behind an absent name are the same text: keep all, they are cheap
    cs = chunks(files, 150)
    res = pool.map_tasks("impl.x05", [{"op": "loci", "files": [f["file"] for f in c], "wd": os.path.join(ck.wd, "bed")} for c in cs],
                         mode="jit", warm_first=False)
    for c, rr in zip(cs, res):
        if not rr["ok"]:
            G.add("impl-error", {"site": "loci"}, {"error": rr["error"]})
            continue
        for st, o in zip(c, rr["result"]):
            ck.evaluations += 1
            if any(l["kind"] == "comment" or l["name"] == 0 for l in st["file"]):
                ck.nontrivial += 1
            want = [{"contig": CONTIG[l["contig"]], "start": l["start"], "stop": l["stop"], "name": NAME.get(l["name"]),
                     "sequence": None, "variants": None, "type": "Locus"} for l in st["out"]]
            for tag in ("plain", "gzip"):
                if o[tag] != want:
                    feat = "comment" if any(l["kind"] == "comment" for l in st["file"]) else (
                        "extra-columns" if any(l["extra"] and l["name"] for l in st["file"]) else "plain")
                    G.add("targets-stream", {"site": "read_bed4", "file": tag, "feature": feat},
                          {"file": st["file"], "impl": o[tag], "model": want})
            if o["region"] != want:
                G.add("region-string", {"site": "Locus.from_region_string"}, {"file": st["file"], "impl": o["region"], "model": want})
    ck.sample({"kind": "LociFile behaviour", "state": files[len(files) // 2]})
    ck.traces += len(files)

    # ---- (b) merging SNP records ------------------------------------------------------------------
    merges = runs[("SnpMerge", "Merge_%s.cfg")]
    cs = chunks(merges, 60)
    res = pool.map_tasks("impl.x05", [{"op": "merge", "states": c, "wd": os.path.join(ck.wd, "vcf")} for c in cs], mode="jit", warm_first=False)
    nfile = 0
    for c, rr in zip(cs, res):
        if not rr["ok"]:
            G.add("impl-error", {"site": "merge"}, {"error": rr["error"]})
            continue
        for st, o in zip(c, rr["result"]):
            ck.evaluations += 1
            if len(st["variants"]) < st["taken"]:
                ck.nontrivial += 1
            d = o["direct"]
            wantv = [{"pos": v["pos"], "alleles": v["alleles"]} for v in st["variants"]]
            if d["err"] != st["err"]:
                G.add("snp-merge", {"site": "_merge_snps", "clause": "reference clash is an error"}, {"state": st, "impl": d})
            elif not st["err"]:
                if [{"pos": v["pos"], "alleles": v["alleles"]} for v in d["variants"]] != wantv:
                    G.add("snp-merge", {"site": "_merge_snps", "clause": "merged alleles"}, {"state": st, "impl": d})
                if any(v["name"] != "." or v["contig"] != "chr1" or v["stop"] != v["pos"] + 1 for v in d["variants"]):
                    G.add("snp-merge", {"site": "_merge_snps", "clause": "identity kept"}, {"state": st, "impl": d})
            if "file" in o:
                nfile += 1
                f = o["file"]
                if f["err"] != st["err"]:
                    G.add("snp-merge", {"site": "Locus.set_variants", "clause": "reference clash is an error"}, {"state": st, "impl": f})
                elif not st["err"] and f["variants"] != wantv:
                    G.add("snp-merge", {"site": "Locus.set_variants", "clause": "merged alleles"}, {"state": st, "impl": f})
    ck.note("merge_streams_through_indexed_vcf", nfile)
    ck.sample({"kind": "SnpMerge behaviour", "state": merges[len(merges) // 2]})
    ck.traces += len(merges)

    # ---- (c) values ----------------------------------------------------------------------------------
    vals = runs[("VcfText", "Value_%s.cfg")]
    cs = chunks(vals, 800)
    res = pool.map_tasks("impl.x05", [{"op": "value", "states": c} for c in cs], mode="jit", warm_first=False)
    for c, rr in zip(cs, res):
        if not rr["ok"]:
            G.add("impl-error", {"site": "vcfstr"}, {"error": rr["error"]})
            continue
        for st, o in zip(c, rr["result"]):
            ck.evaluations += 1
            v = st["v"]
            flat = [x for xs in v["xs"] for x in xs] if v["c"] == "nest" else v["xs"]
            kinds = {x["k"] for x in flat}
            if kinds & {"flt", "f32", "none", "nan"}:
                ck.nontrivial += 1
            if o != st["text"]:
                has_float = bool(kinds & {"flt", "f32"})
                feat = ("float32-scalar" if "f32" in kinds else
                        "precision-inside-%s" % v["c"] if has_float and v["c"] in ("list", "tuple", "nest") and st["prec"] != 3 else
                        "negative-float" if any(x["k"] == "flt" and x["n"] < 0 for x in flat) else "other")
                G.add("value-text", {"site": "vcfstr", "container": v["c"], "feature": feat},
                      {"value": v, "precision": st["prec"], "impl": o if isinstance(o, str) else txt(o), "model": txt(st["text"])})
    ck.sample({"kind": "VcfText value", "state": vals[len(vals) // 2]})

    recs = runs[("VcfText", "Record_%s.cfg")]
    cs = chunks(recs, 500)
    res = pool.map_tasks("impl.x05", [{"op": "record", "states": c} for c in cs], mode="jit", warm_first=False)
    for c, rr in zip(cs, res):
        if not rr["ok"]:
            G.add("impl-error", {"site": "record"}, {"error": rr["error"]})
            continue
        for st, o in zip(c, rr["result"]):
            ck.evaluations += 1
            ck.nontrivial += 1 if st["rec"]["info"] else 0
            if isinstance(o, str):
                G.add("impl-error", {"site": "format_*"}, {"rec": st["rec"], "error": o})
                continue
            for fld, site in (("info", "format_info_field"), ("fmt", "format_sample_field"), ("line", "format_record")):
                if o[fld] != st[fld]:
                    G.add("record-text", {"site": site}, {"rec": st["rec"], "impl": txt(o[fld]), "model": txt(st[fld])})
                    break
    ck.traces += len(recs)
    rs = recs[len(recs) // 2]
    ck.sample({"kind": "VcfText record", "line": txt(rs["line"])})

    # ---- header meta lines -----------------------------------------------------------------------------
    rr = pool.map_tasks("impl.x05", [{"op": "header", "seeds": [0, 7, 2**32 - 1]}], mode="jit", warm_first=False)[0]
    if not rr["ok"]:
        G.add("impl-error", {"site": "headermeta"}, {"error": rr["error"]})
    else:
        h = rr["result"]
        ck.evaluations += 12
        want = {
            "randomseed": ["##randomseed=0", "##randomseed=7", "##randomseed=4294967295"],
            "fileformat": "##fileformat=VCFv4.3", "reference": "##reference=file:/a/b.fa", "phasing": "##phasing=None",
            "commandline_list": '##commandline="mchap call --x 1"', "commandline_str": "##commandline=mchap call",
            "columns": "#CHROM\tPOS\tID\tREF\tALT\tQUAL\tFILTER\tINFO\tFORMAT\ts1\ts2",
            "contig": ["##contig=<ID=chr1,length=100>", "##contig=<ID=c2,length=.>"], "source": "##source=x v1",
        }
        for k, w in want.items():
            if h[k] != w:
                G.add("header-line", {"site": "headermeta." + k}, {"impl": h[k], "model": w})
        if h["filedate"] not in ["##fileDate=" + d for d in h["today"]]:
            G.add("header-line", {"site": "headermeta.filedate"}, {"impl": h["filedate"], "model": "##fileDate=YYYYMMDD of today"})
        ck.note("filedate_with_given_date", h["filedate_given"])
    ck.note("seconds_spec_to_code", round(time.time() - t1, 1))
    t2 = time.time()

    # ---- code -> spec ------------------------------------------------------------------------------------
    data = repodata.copy_test_data(ck.wd, repodata.ASSEMBLE_FILES + repodata.CALL_FILES)
    mc = ["--mcmc-steps", "60", "--mcmc-burn", "20", "--mcmc-seed", str(ck.seed + 5)]
    progs = []
    for deep in ([".deep", "", ""],) if tier == "quick" else (["", "", ""], [".deep", ".deep", ".deep"]):
        bams = [os.path.join(data, "simple.sample%d%s.bam" % (i, d)) for i, d in zip((1, 2, 3), deep)]
        progs.append({"op": "program", "prog": "assemble", "cap": 250, "argv": ["--bam"] + bams + [
            "--ploidy", "4", "--targets", os.path.join(data, "simple.bed.gz"), "--variants", os.path.join(data, "simple.vcf.gz"),
            "--reference", os.path.join(data, "simple.fasta")] + mc})
        progs.append({"op": "program", "prog": "call", "cap": 250, "argv": ["--bam"] + bams + [
            "--ploidy", "4", "--haplotypes", os.path.join(data, "simple.output.mixed_depth.assemble.vcf")] + mc})
    tasks = [{"op": "random", "n": 150 if tier == "quick" else 1200, "seed": ck.seed}] + progs
    res = pool.map_tasks("impl.x05", tasks, mode="py", warm_first=False)
    events, src = [], {}
    for t, rr in zip(tasks, res):
        name = t.get("prog", "random")
        if not rr["ok"]:
            G.add("impl-error", {"site": "recorded calls", "source": name}, {"error": rr["error"], "tb": rr.get("tb", "")[-800:]})
            continue
        if t["op"] == "random":
            evs = rr["result"]
        else:
            evs = rr["result"]["events"]
            ck.note("program_%s_calls" % name, rr["result"]["counts"])
            ck.note("program_%s_not_recorded" % name, rr["result"]["skipped"])
            # the programs iterate the targets in file order, each once: the record stream follows the loci stream
            loci = [e for e in evs if e["op"] == "locus"]
            if name == "assemble":
                got = [[r[0], r[1] - 1, r[2]] for r in rr["result"]["records"]]
                want = [[txt(e["want"][0]), e["want"][1], txt(e["want"][3]) or "."] for e in loci]
                ck.evaluations += len(got)
                if got != want:
                    G.add("targets-stream", {"site": "assemble records follow targets"}, {"records": got, "targets": want})
            hd = rr["result"]["header"]
            wantseed = "##randomseed=%d" % (ck.seed + 5)
            if wantseed not in hd or not hd[0].startswith("##fileformat=VCFv4") or not hd[-1].startswith("#CHROM\tPOS\tID\tREF\tALT\tQUAL\tFILTER\tINFO\tFORMAT\t"):
                G.add("header-line", {"site": "program header", "prog": name}, {"header": hd[:8] + hd[-1:], "want": wantseed})
        src[name] = src.get(name, 0) + len(evs)
        for e in evs:
            e["src"] = name
        events.extend(evs)
    ck.note("recorded_events", src)
    kinds = {}
    for e in events:
        kinds[e["op"]] = kinds.get(e["op"], 0) + 1
    ck.note("recorded_events_by_call", kinds)
    if events:
        rejected = 0
        for bi, batch in enumerate(chunks(events, 1500)):
            tf = os.path.join(ck.wd, "trace-%d.json" % bi)
            with open(tf, "w") as fh:
                json.dump(batch, fh)
            try:
                t = tlc.run(SPEC, "TraceEncodingAndLoci", "Trace.cfg", workers=1, extra_env={"TRACE_FILE": tf}, name="TraceX05-%d" % bi)
            except tlc.TLCError as e:
                ck.machinery_failure(str(e))
            ck.add_tlc(t, "TraceEncodingAndLoci-%d" % bi)
            consumed = [p for p in t.printed if "consumed" in p]
            if not consumed or consumed[0]["consumed"] != len(batch):
                ck.machinery_failure("trace %d not fully consumed: %s %s" % (bi, consumed, t.error_text[:600]))
            for p in t.printed:
                if "reject" in p:
                    e = batch[p["reject"] - 1]
                    rejected += 1
                    show = dict(e)
                    if "text" in show:
                        show["text_str"] = txt(show["text"])[:200]
                    G.add("trace-reject", {"site": e["op"], "clause": p["clause"], "source": e["src"]}, {"clause": p["clause"], "event": show})
        ck.traces += len(events)
        ck.evaluations += len(events)
        ck.nontrivial += sum(1 for e in events if e["src"] != "random")
        ck.sample({"kind": "recorded call", "event": {k: v for k, v in events[-1].items() if k != "text"}})
        # binding demonstration: corrupted recorded lines must be rejected, each with its clause
        byop = {}
        for e in events:
            byop.setdefault(e["op"], e)
        bad, clauses = [], []

        def corrupt(op, fn, clause):
            if op in byop:
                e = json.loads(json.dumps(byop[op]))
                fn(e)
                bad.append(e)
                clauses.append(clause)
        corrupt("as_strings", lambda e: e["text"].__setitem__(0, 48 if e["text"][0] != 48 else 49), "IntegerToString")
        corrupt("from_strings", lambda e: e["out"].__setitem__(0, e["out"][0] + 1), "StringToInteger")
        corrupt("argsort", lambda e: e.__setitem__("perm", [0] * len(e["perm"])) if len(e["perm"]) > 1 else e.__setitem__("perm", [1]), "ArgsortSorts")
        corrupt("depth", lambda e: e["out"].__setitem__(0, e["out"][0] + 1), "DepthCountsCalls")
        corrupt("locus", lambda e: e["got"].__setitem__(1, e["got"][1] + 1), "LocusIsTargetLine")
        corrupt("loci_end", lambda e: e.__setitem__("count", e["count"] - 1), "EachTargetOnce")
        corrupt("record", lambda e: e.__setitem__("text", e["text"][:-2]), "RecordColumns")
        corrupt("sample", lambda e: e.__setitem__("keys", e["keys"][::-1] if len(e["keys"]) > 1 else [[88]]), "FormatKeys")
        corrupt("merge", lambda e: e.__setitem__("out", e["out"] + e["out"][:1]), "MergedAlleles")
        corrupt("as_allelic", lambda e: e["out"].__setitem__(0, e["out"][0] + 1), "CharactersToInteger")
        tfb = os.path.join(ck.wd, "trace-corrupt.json")
        with open(tfb, "w") as fh:
            json.dump(bad, fh)
        t = tlc.run(SPEC, "TraceEncodingAndLoci", "Trace.cfg", workers=1, extra_env={"TRACE_FILE": tfb}, name="TraceX05-corrupt")
        rej = {p["reject"]: p["clause"] for p in t.printed if "reject" in p}
        if [rej.get(i + 1) for i in range(len(bad))] != clauses:
            ck.machinery_failure("corrupted trace lines not all rejected with their clause: %s vs %s" % (rej, clauses))
        ck.note("corrupted_traces_rejected", len(bad))
    ck.note("seconds_code_to_spec", round(time.time() - t2, 1))
    G.flush()
    ck.exhaustive = True
    ck.assumptions = [
        "TLC and CommunityModules Json are correct",
        "targets files are tab separated as in docs/assemble.rst; '#' lines are BED comment/header lines (not stated in the MCHap docs); "
        "blank lines and space separated columns are not modelled",
        "float values are multiples of 10^-4 away from rounding ties (ties depend on the binary representation); |value| < 2000 in traces",
        "as_probabilistic: called alleles lie below the position's allele count; entries of a gap row beyond the allele count are left open",
        "ties of argsort may be ordered either way (the docstring does not promise stability)",
    ]
    ck.finish()


if __name__ == "__main__":
    main()
