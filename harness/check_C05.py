"""C05: genotype priors are proper distributions and mutually consistent.

spec  : spec/Priors/{Priors,TracePriors}.tla  (+ spec/common/{PriorWeights,Rational,BigNat,Genotypes}.tla)
bind  : every TLC state (instance x genotype, with exact integer weight W, normaliser Z and the conditional
        table) -> calling.prior.log_genotype_prior / log_genotype_allele_prior, assemble.prior.log_genotype_prior
        (+ its two branches), compiled and interpreted;  the implementation's own sum over every enumerated
        genotype space must be 1;  calls recorded on random exactly-representable parameters -> TracePriors.tla
"""
import json
import math
import os
import sys
from fractions import Fraction

sys.path.insert(0, os.path.dirname(os.path.abspath(__file__)))
from vlib import env, tlc, pool
from vlib.report import Check
from vlib.compare import close_log, close_prob

SPEC = os.path.join(env.SPEC, "Priors")

MUTANTS = [
    ("Mutant_cond.cfg", "ConditionalIsExact"),
    ("Mutant_perms.cfg", "SumToOne"),
    ("Mutant_sumalpha.cfg", "SumToOne"),
    ("Mutant_flatalpha.cfg", "AssembleIsFlatCall"),
]


def unlimb(l):
    v = 0
    for x in reversed(l):
        v = v * 10000 + x
    return v


def prod(xs):
    v = 1
    for x in xs:
        v *= x
    return v


def inst_key(s):
    return (s["P"], s["K"], s["fn"], s["fd"], s["m"], tuple(s["n"]), bool(s["flat"]))


def is_py_lgamma_pole(mode, val):
    """math.lgamma(0) raises in the interpreter where the compiled code returns +inf (and the prior
    -inf).  That difference exists only in interpreted mode and is not a clause of the property."""
    return mode == "py" and isinstance(val, str) and val.startswith("ERR ValueError: math domain error")


def compare_state(ck, s, o, mode, stats):
    W = s["perms"] * prod(s["of"])
    Z = prod(s["zf"])
    if W != unlimb(s["w"]) or Z != unlimb(s["z"]) or Z == 0:
        ck.machinery_failure("factor lists and BigNat limbs of the model disagree: %s" % s)
    q = Fraction(W, Z)
    zero_in_g = any(s["n"][a] == 0 for a in s["g"])
    base = {"F0": s["fn"] == 0, "zero_freq_in_genotype": zero_in_g, "flat": bool(s["flat"])}

    def expect(site, variant, val, want, extra=None):
        stats["evals"] += 1
        if is_py_lgamma_pole(mode, val) and want == 0:
            stats["py_lgamma_pole"] += 1
            return
        if isinstance(val, str) or not close_log(val, want):
            k = dict(base)
            k.update({"site": site, "variant": variant})
            d = {"mode": mode, "state": s, "impl": val, "model": [want.numerator, want.denominator],
                 "model_log": (math.log(want) if want > 0 else "-inf")}
            if extra:
                d.update(extra)
            ck.violation("prior-value", d, key=k)

    names = ["gp", "gp_perm", "gp_i8"]
    if s["flat"]:
        names += ["gp_none", "gp_none_perm"]
    for nm in names:
        expect("calling.prior.log_genotype_prior", nm, o[nm], q, {"perm": o["perm"]})
    if s["flat"]:
        for nm in ("asm", "asm_perm"):
            expect("assemble.prior.log_genotype_prior", nm, o[nm], q, {"perm": o["perm"]})
        if "asm_null" in o:
            expect("assemble.prior.log_genotype_null_prior", "asm_null", o["asm_null"], q)
        if "asm_dm" in o:
            expect("assemble.prior.log_dirichlet_multinomial_pmf", "asm_dm", o["asm_dm"], q)
    # single-allele conditional: defined where the other alleles have positive probability
    P = s["P"]
    for t in range(P):
        num, den, defined = s["cond"][t]
        if not defined:
            stats["undefined_conditionals"] += 1
            continue
        c = Fraction(num, den)
        expect("calling.prior.log_genotype_allele_prior", "cond", o["cond"][t], c, {"position": t})
        if s["flat"]:
            expect("calling.prior.log_genotype_allele_prior", "cond_none", o["cond_none"][t], c, {"position": t})
    for t in range(P):
        num, den, defined = s["cond"][o["perm"][t]]
        if defined:
            expect("calling.prior.log_genotype_allele_prior", "cond_perm", o["cond_perm"][t], Fraction(num, den),
                   {"position": t, "perm": o["perm"]})
    return q


def replay_one(ck, path):
    """./check C05 --replay work/C05/violation-N.json : re-run exactly that state"""
    with open(path) as fh:
        rec = json.load(fh)
    s = rec["detail"].get("state")
    if not s:
        print("nothing to replay in %s (kind=%s)" % (path, rec.get("kind")))
        sys.exit(2)
    stats = {"evals": 0, "py_lgamma_pole": 0, "undefined_conditionals": 0}
    for mode in ("jit", "py"):
        rr = pool.map_tasks("impl.c05", [{"op": "states", "states": [s], "seed": ck.seed}], mode=mode)[0]
        if not rr["ok"]:
            ck.violation("impl-error", {"mode": mode, "error": rr["error"]}, key={"site": "replay"})
            continue
        print("replay mode=%s impl=%s" % (mode, json.dumps(rr["result"][0])))
        compare_state(ck, s, rr["result"][0], mode, stats)
    ck.evaluations = stats["evals"]
    ck.states = ck.transitions = 1
    ck.sample({"kind": "replayed-state", "state": s})
    ck.finish()


def main():
    ck = Check("C05")
    tier = ck.tier
    for fn in ([] if os.environ.get("VERIF_REPLAY") else os.listdir(ck.wd)):   # nothing is reused from an earlier run
        if fn.startswith(("violation-", "trace-")):
            os.remove(os.path.join(ck.wd, fn))
    import time as _time
    _t = [_time.time()]
    phases = {}

    def lap(name):
        phases[name] = round(_time.time() - _t[0], 1)
        _t[0] = _time.time()
        ck.note("phase_wall_s", phases)

    ck.rule = (
        "TLC walks every unordered genotype of every instance (ploidy, alleles, F in {0,1/4,1/2,3/4}, frequency "
        "vector with denominator <= 4 incl. zeros; flat priors over U haplotypes) accumulating exact integer "
        "weights; every state is replayed into the three prior functions (compiled and interpreted). "
        "Non-trivial = distinct (instance, genotype) state with F > 0 and a repeated allele (the Dirichlet "
        "reinforcement term matters) or containing a zero-frequency allele."
    )
    if os.environ.get("VERIF_REPLAY"):
        replay_one(ck, os.environ["VERIF_REPLAY"])
    try:
        r = tlc.run(SPEC, "Priors", "MC_%s.cfg" % tier, timeout=2400)
        ck.add_tlc(r, "Priors")
        if r.violated:
            ck.violation("model", {"invariant": r.violated, "text": r.error_text[:1500]}, key={"model": "Priors"})
        states = r.printed
        killed = 0
        for cfg, inv in MUTANTS:
            m = tlc.run(SPEC, "Priors", cfg)
            if m.violated != inv:
                ck.machinery_failure("mutant spec %s not killed (expected %s violated, got %s)" % (cfg, inv, m.violated))
            killed += 1
        ck.note("mutant_specs_killed", killed)
        c = tlc.run(SPEC, "Priors", "MC_tiny.cfg", coverage=True, name="Priors-coverage")
        n = c.coverage.get("Step", (0, 0))
        if max(n) == 0:
            ck.machinery_failure("action Step never taken in MC_tiny.cfg")
        ck.note("action_coverage_small_instances", {"Step": {"distinct": min(n), "generated": max(n)}})
    except tlc.TLCError as e:
        ck.machinery_failure(str(e))
    if len(states) != r.distinct:
        ck.machinery_failure("dumped %d states but TLC found %d" % (len(states), r.distinct))

    lap("tlc_model_checking_mutants_coverage")
    # ---- spec -> code: every state, both modes ------------------------------
    states.sort(key=lambda s: (inst_key(s), s["idx"]))
    chunks = [states[i: i + 600] for i in range(0, len(states), 600)]
    stats = {"evals": 0, "py_lgamma_pole": 0, "undefined_conditionals": 0}
    sums = {}
    nontrivial = set()
    for mode in ("jit", "py"):
        res = pool.map_tasks("impl.c05", [{"op": "states", "states": c, "seed": ck.seed + i}
                                          for i, c in enumerate(chunks)], mode=mode)
        for c, rr in zip(chunks, res):
            if not rr["ok"]:
                ck.violation("impl-error", {"mode": mode, "error": rr["error"], "tb": rr.get("tb"), "first_state": c[0]},
                             key={"site": "prior-functions", "mode": mode})
                continue
            for s, o in zip(c, rr["result"]):
                q = compare_state(ck, s, o, mode, stats)
                k = inst_key(s)
                if mode == "jit":
                    e = sums.setdefault(k, {"n": 0, "gp": [], "asm": [], "exact": Fraction(0), "total": math.comb(s["K"] + s["P"] - 1, s["P"])})
                    e["n"] += 1
                    e["exact"] += q
                    if isinstance(o["gp"], float):
                        e["gp"].append(math.exp(o["gp"]))
                    if s["flat"] and isinstance(o["asm"], float):
                        e["asm"].append(math.exp(o["asm"]))
                    dup = len(set(s["g"])) < len(s["g"])
                    if (s["fn"] > 0 and dup) or any(s["n"][a] == 0 for a in s["g"]):
                        nontrivial.add((k, tuple(s["g"])))
        ck.sample({"kind": "model-state", "mode": mode, "state": states[(len(states) * 2) // 3]})
    ck.evaluations += stats["evals"]
    ck.nontrivial += len(nontrivial)
    ck.note("py_mode_lgamma_pole_skipped", stats["py_lgamma_pole"])
    ck.note("undefined_conditionals_not_compared", stats["undefined_conditionals"])

    lap("replay_jit_py")
    # ---- the implementation's own sum over each enumerated genotype space ----
    n_inst = 0
    for k, e in sums.items():
        if e["n"] != e["total"]:
            ck.machinery_failure("instance %s: %d of %d genotypes dumped" % (k, e["n"], e["total"]))
        if e["exact"] != 1:
            ck.machinery_failure("model weights of instance %s do not sum to one" % (k,))
        n_inst += 1
        for nm, site in (("gp", "calling.prior.log_genotype_prior"), ("asm", "assemble.prior.log_genotype_prior")):
            if nm == "asm" and not k[6]:
                continue
            tot = math.fsum(e[nm])
            ck.evaluations += 1
            if len(e[nm]) != e["n"] or not close_prob(tot, 1):
                ck.violation("prior-sum", {"instance": k, "sum": tot, "n_genotypes": e["n"], "fn": nm},
                             key={"site": site, "variant": "sum-over-genotypes", "F0": k[2] == 0, "flat": k[6]})
    ck.note("instances", n_inst)
    ck.traces += n_inst  # one enumerator behaviour per instance, replayed state by state

    # ---- code -> spec: recorded calls on random exactly-representable parameters ----
    n_tr = 60 if tier == "quick" else 500
    batches = 2 if tier == "quick" else 16
    res = pool.map_tasks("impl.c05", [{"op": "random_trace", "n": n_tr // batches + 1, "seed": ck.seed * 1000 + b}
                                      for b in range(batches)], mode="jit", warm_first=False)
    first_ev = None
    for b, rr in enumerate(res):
        if not rr["ok"]:
            ck.violation("impl-error", {"error": rr["error"], "tb": rr.get("tb")}, key={"site": "random_trace"})
            continue
        ev = rr["result"]
        for e in ev:
            if e["op"] == "error":
                ck.violation("impl-error", {"event": e}, key={"site": e["what"], "variant": "random-trace"})
        ev = [e for e in ev if e["op"] != "error"]
        first_ev = first_ev or ev
        tf = os.path.join(ck.wd, "trace-%d.json" % b)
        with open(tf, "w") as fh:
            json.dump(ev, fh)
        try:
            t = tlc.run(SPEC, "TracePriors", "Trace.cfg", workers=1, extra_env={"TRACE_FILE": tf},
                        name="TracePriors-%d" % b, timeout=1800)
        except tlc.TLCError as e:
            ck.machinery_failure(str(e))
        ck.add_tlc(t, "TracePriors-%d" % b)
        consumed = [p for p in t.printed if "consumed" in p]
        if not consumed or consumed[0]["consumed"] != len(ev):
            ck.machinery_failure("trace %s not fully consumed: %s %s" % (tf, consumed, t.error_text[:800]))
        for p in t.printed:
            if "reject" in p:
                e = ev[p["reject"] - 1]
                inst = None
                for x in reversed(ev[: p["reject"]]):
                    if x["op"] == "begin":
                        inst = x
                        break
                ck.violation("trace-reject", {"file": tf, "line": p["reject"], "clause": p["clause"], "event": e, "instance": inst},
                             key={"site": e["op"], "clause": p["clause"]})
        ck.traces += len(ev)
        ck.evaluations += len(ev)
        ck.nontrivial += sum(1 for e in ev if e["op"] in ("geno", "cond", "asm") and e["e"] > 0)
    if first_ev:
        ck.sample({"kind": "recorded-trace-prefix", "events": first_ev[:3]})
    # binding demonstration, built from the MODEL's own values (independent of the implementation):
    # the faithful walk must be accepted line by line, each corrupted field rejected for its own clause
    kd = next(k for k in sums if k[0] == 3 and k[1] == 3 and k[2] > 0 and not k[6] and min(k[5]) > 0 and len(set(k[5])) > 1)
    walk = [s for s in states if inst_key(s) == kd]

    def quant(s):
        W, Z = s["perms"] * prod(s["of"]), prod(s["zf"])
        e = 0
        while W * 10 ** (9 + e) < Z * 10**8:
            e += 1
        rnd = lambda num, den: (2 * num + den) // (2 * den)
        return rnd(W * 10 ** (9 + e), Z), e, rnd(W * 10**9, Z)

    good = [{"op": "begin", "P": kd[0], "K": kd[1], "fn": kd[2], "fd": kd[3], "m": kd[4], "n": list(kd[5]), "walk": 1}]
    for s in walk:
        q, e, q0 = quant(s)
        good.append({"op": "geno", "g": s["g"], "q": q, "e": e, "q0": q0})
    good.append({"op": "end"})
    s1 = walk[4]
    good.append({"op": "cond", "g": s1["g"], "t": 2, "q": (2 * s1["cond"][1][0] * 10**9 + s1["cond"][1][1]) // (2 * s1["cond"][1][1]), "e": 0})
    bad = json.loads(json.dumps(good))
    bad[2]["q"] += 2                                   # value off by two units in the 9th digit
    del bad[5]                                         # the walk skips a genotype ...
    bad[-1]["q"] += 7
    wanted = ["GenotypePriorIsWOverZ", "WalkIsVcfOrder", "WalkVisitsEveryGenotype", "ConditionalIsUrnPredictive"]
    for name, evs, want in (("trace-faithful.json", good, []), ("trace-corrupt.json", bad, wanted)):
        tfb = os.path.join(ck.wd, name)
        with open(tfb, "w") as fh:
            json.dump(evs, fh)
        try:
            t = tlc.run(SPEC, "TracePriors", "Trace.cfg", workers=1, extra_env={"TRACE_FILE": tfb}, name="TracePriors-demo")
        except tlc.TLCError as e:
            ck.machinery_failure(str(e))
        got = [p["clause"] for p in t.printed if "reject" in p]
        if got != want:
            ck.machinery_failure("%s: expected rejections %s, got %s" % (name, want, got))
    ck.note("corrupted_traces_rejected", len(wanted))

    lap("trace_validation")
    # ---- arbitrary float parameters: the TLC-checked theorems as numeric relations ----
    nf = 40 if tier == "quick" else 400
    res = pool.map_tasks("impl.c05", [{"op": "float_instances", "n": nf // 4, "seed": ck.seed * 77 + b} for b in range(4)],
                         mode="jit", warm_first=False)
    nfl = 0
    for rr in res:
        if not rr["ok"]:
            ck.violation("impl-error", {"error": rr["error"], "tb": rr.get("tb")}, key={"site": "float_instances"})
            continue
        for inst in rr["result"]:
            nfl += 1
            ck.evaluations += 1
            bad = [v for v in inst["lps"] if isinstance(v, str)]
            tot = math.fsum(math.exp(v) for v in inst["lps"] if not isinstance(v, str))
            if bad or not close_prob(tot, 1):
                ck.violation("prior-sum", {"instance": {k: inst[k] for k in ("P", "K", "F", "freq")}, "sum": tot, "errors": bad[:3]},
                             key={"site": "calling.prior.log_genotype_prior", "variant": "sum-over-genotypes-float",
                                  "F0": inst["F"] == 0})
            for c in inst["conds"]:
                # ConditionalIsExact: C(b) * sum_b' pi(h_b') = pi(h_b), pi = prior / Perms
                P = inst["P"]
                pis, cs = [], []
                for (lc, lp, cnt), b in zip(c["rows"], range(inst["K"])):
                    h = list(c["g"])
                    h[c["t"]] = b
                    perms = math.factorial(P)
                    for a in set(h):
                        perms //= math.factorial(h.count(a))
                    pis.append(0.0 if isinstance(lp, str) else math.exp(lp) / perms)
                    cs.append(None if isinstance(lc, str) else math.exp(lc))
                tot = math.fsum(pis)
                if tot <= 0:
                    continue
                for b in range(inst["K"]):
                    ck.evaluations += 1
                    if cs[b] is None or abs(cs[b] - pis[b] / tot) > 1e-9:
                        ck.violation("conditional-float", {"instance": {k: inst[k] for k in ("P", "K", "F", "freq")},
                                                          "g": c["g"], "t": c["t"], "b": b, "impl_conditional": cs[b],
                                                          "from_genotype_prior": pis[b] / tot},
                                     key={"site": "calling.prior.log_genotype_allele_prior", "variant": "float-parameters",
                                          "F0": inst["F"] == 0})
    ck.note("float_parameter_instances", nfl)
    lap("float_relations")

    ck.exhaustive = True
    ck.assumptions = [
        "TLC and CommunityModules Json are correct; Python fractions",
        "exhaustive inside the stated rational grid (every genotype of every instance); beyond it seeded random parameters "
        "(k/64 rationals validated by TLC, arbitrary floats through the TLC-checked identities evaluated numerically)",
        "float bridge: |log value - ln(model rational)| <= 1e-9*max(1,|ln q|); zero probability <=> -inf",
        "interpreted-mode math.lgamma(0) ValueError (compiled: +inf) is not compared when the model value is 0",
    ]
    ck.finish()


if __name__ == "__main__":
    main()
