"""C16, numbers at the edges of the number line (spec/AlleleFilter/AlleleFilterExact.tla, AlleleFilterEdge.tla).

The model's numbers are [m |-> BigNat digits, s |-> decimals]; this module turns them into the text a VCF / a filter
string spells (several equivalent spellings) and decides which instances the *file format* can carry faithfully:

* INFO Float values are IEEE single precision (VCF 4.3 section 1.6.1), the filter value is read as a Python int / float.
  An instance is generated only if that quantisation cannot change the order of any tested (value, threshold) pair:
  both are exactly representable, or they are further apart than the rounding of either side.  (`RF=0.3` against
  `RF>=0.3` is the known non-dyadic boundary of DESIGN 3/C16 and stays outside.)  This is a property of the formats,
  computed from the texts alone - never from the code under test.
* Integer fields hold 32-bit integers: only integer texts.
"""
import struct
from fractions import Fraction

TWO = Fraction(2)


def to_int(limbs):
    n = 0
    for i, l in enumerate(limbs):
        n += int(l) * 10000 ** i
    return n


def frac(q):
    return Fraction(to_int(q["m"]), 10 ** int(q["s"]))


def plain(q):
    m, s = to_int(q["m"]), int(q["s"])
    if s == 0:
        return str(m)
    d = str(m).zfill(s + 1)
    return d[:-s] + "." + d[-s:]


def value_text(q, variant, ty):
    """text of an INFO value; `variant` picks one of the equivalent spellings"""
    m, s = to_int(q["m"]), int(q["s"])
    base = plain(q)
    if ty == "Integer":
        assert s == 0
        return base
    forms = [base, base + "0" if s else base + ".0"]
    if s and len(str(m)) <= 9:
        forms.append("%de-%d" % (m, s) if m else "0")     # 2e-7, 1e-12
        forms.append("%dE-%02d" % (m, s) if m else "0.0")
    t = forms[variant % len(forms)]
    assert Fraction(t) == frac(q), (t, q)
    return t


def thr_text(q, variant):
    """text of the filter value: the grammar is digits[.digits] (no exponent)"""
    base = plain(q)
    s = int(q["s"])
    forms = [base, base + "0" if s else base + ".0"]
    if s and base.startswith("0."):
        forms.append(base[1:])                            # .5
    if not s:
        forms.append(base + ".")                          # 1.
    t = forms[variant % len(forms)]
    assert Fraction(t if not t.endswith(".") else t[:-1]) == frac(q), (t, q)
    return t


def _f32(x):
    return Fraction(struct.unpack("f", struct.pack("f", float(x)))[0])


def value_exact(v, ty):
    if ty == "Integer":
        return v.denominator == 1 and abs(v) < 2 ** 31
    try:
        return _f32(v) == v
    except OverflowError:
        return False


def thr_exact(t):
    return t.denominator == 1 or Fraction(float(t)) == t


def admissible(v, t, ty):
    """can the formats carry (v, t) without changing their order?"""
    if ty == "Integer" and not value_exact(v, ty):
        return False
    ev = 0 if value_exact(v, ty) else abs(v) / 2 ** 23 + Fraction(1, 2 ** 149)
    et = 0 if thr_exact(t) else abs(t) / 2 ** 52
    if ev == 0 and et == 0:
        return True
    return abs(v - t) > ev + et


def tested(x):
    if x["fld"] == "RF":
        return x["rf"] if x["hasRF"] else []
    return x["af"] if x["hasAF"] else []


def state_admissible(s):
    x, ty = s["x"], s["ty"]
    t = frac(x["thr"])
    if not all(admissible(frac(v), t, ty) for v in tested(x)):
        return False
    if ty == "Integer":
        return all(value_exact(frac(v), ty) for v in x["rf"] + x["af"])
    return True


_OPS = {"=": lambda a, b: a == b, "==": lambda a, b: a == b, "!=": lambda a, b: a != b, ">": lambda a, b: a > b,
        ">=": lambda a, b: a >= b, "<": lambda a, b: a < b, "<=": lambda a, b: a <= b}


def recompute(s):
    """the same expectation with Python rationals: a cross-check of the BigNat pipeline and of this module's
    rendering (a disagreement is a machinery failure, never a verdict)"""
    x = s["x"]
    t = frac(x["thr"])
    n = x["n"]
    ok = [True] * n
    if x["fld"] == "RF" and x["hasRF"]:
        ok = [_OPS[x["op"]](frac(v), t) for v in x["rf"]]
    elif x["fld"] == "AF" and x["hasAF"]:
        ok = [True] + [_OPS[x["op"]](frac(v), t) for v in x["af"]]
    masked = x["refmasked"] or not ok[0]
    kept = [1] + [i + 1 for i in range(1, n) if ok[i]]
    w = [Fraction(0) if (k == 1 and masked) else (frac(x["rf"][k - 1]) if x["tag"] == "RF" else Fraction(1)) for k in kept]
    return kept, masked, w


def model_freqs(s):
    den = to_int(s["den"])
    if den == 0:
        return None
    return [Fraction(to_int(w), den) for w in s["w"]]


def agrees(s):
    kept, masked, w = recompute(s)
    if kept != s["kept"] or masked != s["masked"]:
        return False
    mf = model_freqs(s)
    tot = sum(w)
    if mf is None:
        return tot == 0
    return tot > 0 and [x / tot for x in w] == mf


def freq_close(x, q, ty):
    """implementation frequency against the exact one: single-precision values carry a relative error of 2^-24 each"""
    if x is None:
        return False
    q = Fraction(q)
    if ty == "Integer":
        return abs(Fraction(x) - q) <= Fraction(1, 10 ** 9) * max(q, Fraction(1, 10 ** 30))
    return abs(Fraction(x) - q) <= q / 2 ** 21


def milli_safe(s):
    """AFPRIOR is printed with three decimals: keep records whose exact prior is not within 1e-6 of a rounding
    boundary (single-precision input noise could print either neighbour)"""
    mf = model_freqs(s)
    if mf is None:
        return True
    for q in mf:
        y = q * 1000
        d = abs((y - Fraction(1, 2)) - round(y - Fraction(1, 2)))
        if d < Fraction(1, 1000):
            return False
    return True
