"""C15: each iteration sweeps every (haplotype, SNV) once; intervals partition; fixed sites restored.

spec : spec/Sweep/{Sweep,Breaks,FixHom,TraceBreaks}.tla
bind : Sweep behaviours (every shuffle of small instances; fixed shuffles for N up to 300) replayed into the interpreted
       mutation.compound_step with base_step replaced by a recorder; compiled compound_step as a black box (a cell never
       visited stays 0); Breaks partitions vs compiled random_breaks over many seeds (membership + support);
       every FixHom state -> DenovoMCMC._mcmc with the posterior table and sampler stubbed;
       recorded sweeps / breaks / interval steps of real interpreted fits validated by TraceBreaks.tla
"""
import json
import os
import sys
from concurrent.futures import ThreadPoolExecutor

sys.path.insert(0, os.path.dirname(os.path.abspath(__file__)))
from vlib import env, tlc, pool
from vlib.report import Check

SPEC = os.path.join(env.SPEC, "Sweep")


def site_key(N):
    return {"site": "mutation.compound_step", "feature": "n_snvs>127" if N > 127 else "n_snvs<=127"}


def main():
    ck = Check("C15")
    quick = ck.tier == "quick"
    ck.rule = (
        "Sweep: TLC explores every shuffle for small (ploidy, SNVs) and fixed shuffles for SNV counts around the int8 "
        "boundary (127/128/129/200/256/300); Breaks: every draw sequence for n <= NMax; FixHom: every table of dyadic "
        "homozygosity probabilities. Each TLC behaviour/state is replayed into the real code. Non-trivial = sweeps with "
        "N > 127, partitions with >= 1 break, tables with at least one fixed and one sampled column."
    )
    any_cfgs = ["MC_any_2x3", "MC_any_3x2", "MC_any_1x5"] + ([] if quick else ["MC_any_4x2"])
    # SNV counts straddle both narrow-integer boundaries (127/128 for a signed, 255/256 for an unsigned 8-bit table)
    big_cfgs = ["MC_id_2x1", "MC_id_2x2", "MC_id_2x127", "MC_id_2x128", "MC_id_2x129", "MC_id_2x200", "MC_rev_3x127", "MC_rev_4x130",
                "MC_id_2x256", "MC_id_2x257", "MC_id_2x300"]
    if not quick:
        big_cfgs += ["MC_id_6x150", "MC_rev_2x520"]
    mutants = [("Sweep", "Mutant_int8_2x129"), ("Sweep", "Mutant_int8_2x200"), ("FixHom", "Mutant_fixhom_strict")]
    fix_cfgs = ["FixHom_quick_a", "FixHom_quick_b"] if quick else ["FixHom_thorough_a", "FixHom_thorough_b", "FixHom_quick_b"]
    br_cfg = "Breaks_quick" if quick else "Breaks_thorough"

    jobs = [("Sweep", c) for c in any_cfgs + big_cfgs + ["Boundary_int8_2x128"]] + [("Breaks", br_cfg)] + [("FixHom", c) for c in fix_cfgs] + mutants
    results = {}

    def runone(j):
        mod, cfg = j
        return j, tlc.run(SPEC, mod, cfg + ".cfg", workers=4)

    try:
        with ThreadPoolExecutor(max_workers=max(2, env.NCPU // 4)) as ex:
            for j, r in ex.map(runone, jobs):
                results[j] = r
    except tlc.TLCError as e:
        ck.machinery_failure(str(e))
    killed = 0
    for j, r in results.items():
        if j in mutants:
            if not r.violated:
                ck.machinery_failure("mutant spec %s not killed" % (j,))
            killed += 1
            continue
        ck.add_tlc(r, "%s/%s" % j)
        if r.violated:
            ck.violation("model", {"cfg": j, "invariant": r.violated, "text": r.error_text[:1200]}, key={"model": j[1]})
    ck.note("mutant_specs_killed", killed)

    # ---------------- Sweep: spec -> code ---------------------------------
    tasks, meta = [], []
    for c in any_cfgs + big_cfgs:
        seen = set()
        for b in results[("Sweep", c)].printed:
            k = tuple(b["order"])
            if k in seen:
                continue
            seen.add(k)
            P, N = b["P"], b["N"]
            na = [2 + ((j * 7 + 1) % 3 == 0) for j in range(N)]
            tasks.append({"op": "sweep_py", "P": P, "N": N, "na": na, "order": b["order"]})
            meta.append((b, na, "forced"))
            if c in big_cfgs:
                tasks.append({"op": "sweep_py", "P": P, "N": N, "na": na, "order": None, "seed": ck.seed})
                meta.append((b, na, "random"))
    res = pool.map_tasks("impl.c15", tasks, mode="py")
    trace_events = []
    for (b, na, kind), rr in zip(meta, res):
        ck.evaluations += 1
        P, N = b["P"], b["N"]
        if N > 127:
            ck.nontrivial += 1
        if not rr["ok"]:
            ck.violation("sweep-error", {"P": P, "N": N, "error": rr["error"]}, key=site_key(N))
            continue
        calls = rr["result"]["calls"]
        want = [[h, j, na[j]] for h, j in b["pairs"]]
        if kind == "forced":
            if calls != want:
                bad = next((i for i, (x, y) in enumerate(zip(calls, want)) if x != y), None)
                ck.violation("sweep-replay", {"P": P, "N": N, "first_diff_at": bad, "impl": calls[bad] if bad is not None else len(calls),
                                              "model": want[bad] if bad is not None else len(want)}, key=site_key(N))
            ck.traces += 1
        else:
            if sorted(calls) != sorted(want):
                miss = [w for w in want if w not in calls][:5]
                ck.violation("sweep-bag", {"P": P, "N": N, "n_calls": len(calls), "missing": miss}, key=site_key(N))
            ck.traces += 1
        if len(trace_events) < 40 and kind == "random":
            trace_events.append({"op": "sweep", "P": P, "N": N, "na": na, "calls": calls})
    ck.sample({"kind": "sweep-behaviour", "P": meta[0][0]["P"], "N": meta[0][0]["N"], "order": meta[0][0]["order"]})

    # compiled black box
    Ns = sorted({results[("Sweep", c)].printed[0]["N"] for c in big_cfgs})
    bb = [{"op": "sweep_jit", "P": P, "N": N, "seeds": [ck.seed + s for s in range(2 if quick else 5)]} for N in Ns for P in ((2,) if quick else (2, 4))]
    res = pool.map_tasks("impl.c15", bb, mode="jit")
    for t, rr in zip(bb, res):
        if not rr["ok"]:
            ck.violation("sweep-jit-error", {"task": t, "error": rr["error"]}, key=site_key(t["N"]))
            continue
        for o in rr["result"]:
            ck.evaluations += 1
            if o["n_unvisited"]:
                ck.violation("sweep-jit-unvisited", {"P": t["P"], "N": t["N"], "seed": o["seed"], "n_unvisited": o["n_unvisited"],
                                                     "first": o["unvisited"][:6]}, key=site_key(t["N"]))
            if abs(o["llk_carried"] - o["llk_fresh"]) > 1e-6 * max(1.0, abs(o["llk_fresh"])):
                ck.violation("sweep-jit-llk", {"P": t["P"], "N": t["N"], "seed": o["seed"], "carried": o["llk_carried"], "fresh": o["llk_fresh"]},
                             key=site_key(t["N"]))
    ck.sample({"kind": "compiled-black-box", "task": bb[-1]})

    # ---------------- Breaks: spec <-> code --------------------------------
    model = {}
    for p in results[("Breaks", br_cfg)].printed:
        model.setdefault((p["n"], p["breaks"]), set()).add(json.dumps(p["intervals"]))
    count = 1000 if quick else 4000
    bt = [{"op": "breaks", "n": n, "breaks": b, "seed0": ck.seed * 100003, "count": count} for (n, b) in sorted(model)]
    extra = [{"op": "breaks", "n": n, "breaks": b, "seed0": ck.seed * 100003, "count": 20} for n, b in ((20, 5), (50, 49), (100, 20), (130, 3), (300, 299))]
    res = pool.map_tasks("impl.c15", bt + extra, mode="jit")
    for t, rr in zip(bt + extra, res):
        if not rr["ok"]:
            ck.violation("breaks-error", {"task": t, "error": rr["error"]}, key={"site": "structural.random_breaks"})
            continue
        outs = rr["result"]
        ck.evaluations += len(outs)
        got = {json.dumps(o) for o in outs}
        key = (t["n"], t["breaks"])
        if key in model:
            if t["breaks"] >= 1:
                ck.nontrivial += len(got)
            notin = got - model[key]
            if notin:
                ck.violation("breaks-not-reachable", {"n": t["n"], "breaks": t["breaks"], "impl": sorted(notin)[:3]}, key={"site": "structural.random_breaks"})
            if t["n"] <= 7 and got != model[key]:
                ck.violation("breaks-support", {"n": t["n"], "breaks": t["breaks"], "never_produced": sorted(model[key] - got)[:3], "seeds": count},
                             key={"site": "structural.random_breaks", "clause": "support"})
        for o in outs[: 3 if key in model else 20]:
            trace_events.append({"op": "breaks", "n": t["n"], "breaks": t["breaks"], "intervals": o})
    ck.sample({"kind": "partition", "n": 6, "breaks": 2, "model_set_size": len(model.get((6, 2), []))})

    # ---------------- FixHom: spec -> code ----------------------------------
    states, seen = [], set()
    for c in fix_cfgs:
        for p in results[("FixHom", c)].printed:
            k = json.dumps([p["hom"], p["T"], p["P"]])
            if k not in seen:
                seen.add(k)
                states.append(p)
    chunks = [states[i : i + 250] for i in range(0, len(states), 250)]
    res = pool.map_tasks("impl.c15", [{"op": "fixhom", "states": c} for c in chunks], mode="jit")
    for c, rr in zip(chunks, res):
        if not rr["ok"]:
            ck.violation("fixhom-error", {"error": rr["error"]}, key={"site": "DenovoMCMC._mcmc"})
            continue
        for st, o in zip(c, rr["result"]):
            ck.evaluations += 1
            nfix = sum(1 for m in st["mask"] if m)
            if 0 < nfix < st["N"]:
                ck.nontrivial += 1
            boundary = any(v == st["T"] for col in st["hom"] for v in col)
            if "error" in o:
                ck.violation("fixhom-error", {"state": st, "error": o["error"]}, key={"site": "DenovoMCMC._mcmc"})
            elif o["out"] != st["out"]:
                ck.violation("fixhom-reinsert", {"hom": st["hom"], "T": st["T"], "mask": st["mask"], "impl": o["out"][0], "model": st["out"][0]},
                             key={"site": "DenovoMCMC._mcmc", "boundary": boundary})
    ck.traces += len(states)
    ck.sample({"kind": "fixhom-state", "hom_over_1024": states[len(states) // 2]["hom"], "T": states[len(states) // 2]["T"], "mask": states[len(states) // 2]["mask"]})

    # ---------------- SnvPosterior: the thresholded quantity itself --------------
    from fractions import Fraction
    from vlib.compare import close_prob
    try:
        rs = tlc.run(SPEC, "SnvPosterior", "Snv_quick.cfg" if quick else "Snv_thorough.cfg", timeout=1800)
    except tlc.TLCError as e:
        ck.machinery_failure(str(e))
    ck.add_tlc(rs, "SnvPosterior")
    if rs.violated:
        ck.violation("model", {"cfg": "SnvPosterior", "invariant": rs.violated, "text": rs.error_text[:800]}, key={"model": "SnvPosterior"})
    inst = list(rs.printed)
    # high ploidy x multi-allelic: the homozygous genotypes' VCF ranks exceed a signed byte (P = 8, n = 4: rank 164 for 3/3/..;
    # P = 16, n = 3: rank 152), F = 0
    for cfg in ("Snv_high8.cfg", "Snv_high16.cfg"):
        try:
            rh = tlc.run(SPEC, "SnvPosterior", cfg, timeout=1800)
        except tlc.TLCError as e:
            ck.machinery_failure(str(e))
        ck.add_tlc(rh, "SnvPosterior/" + cfg)
        if rh.violated:
            ck.violation("model", {"cfg": cfg, "invariant": rh.violated, "text": rh.error_text[:800]}, key={"model": "SnvPosterior"})
        inst += [st for k, st in enumerate(rh.printed) if not quick or k % 2 == 0 or len(st["reads"]) < 2]
    for st in inst:
        J = []
        for row in st["table"]:
            v = Fraction(row["w"])
            for s_, c_ in row["f"]:
                v *= Fraction(s_) ** c_
            J.append(v)
        tot = sum(J)
        hom = {}
        for row, v in zip(st["table"], J):
            if len(set(row["g"])) == 1:
                hom[row["g"][0]] = v / tot
        st["exact_hom"] = [hom[a] for a in range(st["n"])]
        pmax = max(st["exact_hom"])
        st["thresholds"] = [float(pmax) * (1 + 1e-6), float(pmax) * (1 - 1e-6)] if pmax > Fraction(11, 20) and float(pmax) * (1 + 1e-6) < 1 else []
    slim = [{k: st[k] for k in ("P", "n", "F", "reads", "thresholds")} for st in inst]
    # instances of one (P, F) next to each other, so that a worker can embed them into multi-SNV loci
    order = sorted(range(len(slim)), key=lambda i: (slim[i]["P"], slim[i]["F"], i % 7, i))
    inst = [inst[i] for i in order]
    slim = [slim[i] for i in order]
    chunks = [list(range(i, min(i + 300, len(slim)))) for i in range(0, len(slim), 300)]
    res = pool.map_tasks("impl.c15", [{"op": "snvpost", "states": [slim[i] for i in c]} for c in chunks], mode="jit")
    ndec = 0
    for c, rr in zip(chunks, res):
        if not rr["ok"]:
            ck.violation("snvpost-error", {"error": rr["error"], "tb": rr.get("tb", "")[-400:]}, key={"site": "_homozygosity_probabilities"})
            continue
        for i, o in zip(c, rr["result"]):
            st = inst[i]
            ck.evaluations += 1
            if any(not close_prob(x, q) for x, q in zip(o["hom"], st["exact_hom"])):
                ck.violation("snv-posterior", {"P": st["P"], "n": st["n"], "F": st["F"], "reads": st["reads"], "impl": o["hom"],
                                               "model": [str(q) for q in st["exact_hom"]]}, key={"site": "_homozygosity_probabilities"})
            for emb in o.get("embedded", []):
                ck.evaluations += 1
                ck.nontrivial += 1
                bad = any(not close_prob(x, q) for x, q in zip(emb["hom"][:st["n"]], st["exact_hom"])) or any(x != 0 for x in emb["hom"][st["n"]:])
                if bad:
                    ck.violation("snv-posterior", {"P": st["P"], "n": st["n"], "F": st["F"], "reads": st["reads"], "impl": emb["hom"],
                                                   "model": [str(q) for q in st["exact_hom"]], "locus_allele_counts": emb["na"], "column": emb["col"]},
                                 key={"site": "_homozygosity_probabilities", "feature": "embedded-in-multi-SNV-locus",
                                      "mixed_allele_counts": len(set(emb["na"])) > 1})
            am = max(range(st["n"]), key=lambda a: st["exact_hom"][a])
            for d, want_sampled in zip(o["decisions"], (True, True, False, False)):
                ndec += 1
                if d["sampled"] != want_sampled or (not want_sampled and d["allele"] != am):
                    ck.violation("fix-decision", {"P": st["P"], "n": st["n"], "F": st["F"], "reads": st["reads"], "threshold": d["thr"],
                                                  "exact_hom": [str(q) for q in st["exact_hom"]], "impl_sampled": d["sampled"], "impl_allele": d["allele"], "path": d.get("path")},
                                 key={"site": "DenovoMCMC." + d.get("path", "_mcmc"), "clause": "FixedIffThreshold"})
    ck.traces += len(inst)
    ck.nontrivial += ndec // 4
    ck.note("snv_posterior_instances", len(inst))
    ck.note("fix_decisions_checked", ndec)
    ck.sample({"kind": "snv-posterior-instance", "P": inst[-1]["P"], "n": inst[-1]["n"], "F": inst[-1]["F"], "reads": inst[-1]["reads"],
               "exact_hom": [str(q) for q in inst[-1]["exact_hom"]]})

    # ---------------- code -> spec: recorded fits ---------------------------
    ft = []
    k = 0
    for P in (2, 3, 4):
        for N in (1, 2, 3, 5, 8):
            for temps in ((1.0,), (0.3, 1.0)):
                k += 1
                if quick and k % 3:
                    continue
                ft.append({"op": "fit_trace_py", "P": P, "N": N, "seed": ck.seed * 1000 + k, "temps": list(temps), "steps": 5 if quick else 12, "F": 0.0 if k % 2 else 0.2})
    if not quick:
        ft.append({"op": "fit_trace_py", "P": 2, "N": 140, "seed": ck.seed + 77, "temps": [1.0], "steps": 2, "n_reads": 4})
    else:
        ft.append({"op": "fit_trace_py", "P": 2, "N": 130, "seed": ck.seed + 77, "temps": [1.0], "steps": 1, "n_reads": 3})
    res = pool.map_tasks("impl.c15", ft, mode="py")
    nfit = 0
    for t, rr in zip(ft, res):
        if not rr["ok"]:
            ck.violation("fit-error", {"task": t, "error": rr["error"], "tb": rr.get("tb", "")[-600:]}, key=site_key(t["N"]))
            continue
        nfit += 1
        trace_events.extend(rr["result"])
    tf = os.path.join(ck.wd, "trace.json")
    with open(tf, "w") as fh:
        json.dump(trace_events, fh)
    try:
        t = tlc.run(SPEC, "TraceBreaks", "Trace.cfg", workers=1, extra_env={"TRACE_FILE": tf}, timeout=1200)
    except tlc.TLCError as e:
        ck.machinery_failure(str(e))
    ck.add_tlc(t, "TraceBreaks")
    cons = [p for p in t.printed if "consumed" in p]
    if not cons or cons[0]["consumed"] != len(trace_events):
        ck.machinery_failure("trace not fully consumed: %s of %d" % (cons, len(trace_events)))
    for p in t.printed:
        if "reject" in p:
            e = trace_events[p["reject"] - 1]
            N = e.get("N", e.get("n", 0))
            small = {k: (v if k not in ("calls", "na") else v[:8]) for k, v in e.items()}
            ck.violation("trace-reject", {"line": p["reject"], "clause": p["clause"], "event": small},
                         key=dict(site_key(N), clause=p["clause"]) if e["op"] == "sweep" else {"site": e["op"], "clause": p["clause"]})
    ck.traces += len(trace_events)
    ck.evaluations += len(trace_events)
    ck.note("recorded_fits", nfit)
    ck.note("trace_events", {op: sum(1 for e in trace_events if e["op"] == op) for op in ("sweep", "breaks", "isteps")})
    ev0 = next(e for e in trace_events if e["op"] == "isteps")
    ck.sample({"kind": "recorded-interval-steps", "event": ev0})

    # corrupted traces must be rejected
    sw = next(e for e in trace_events if e["op"] == "sweep" and len(e["calls"]) > 1)
    c1 = dict(sw, calls=[list(sw["calls"][1])] + [list(x) for x in sw["calls"][1:]])  # one pair twice, one never
    br = next(e for e in trace_events if e["op"] == "breaks" and e["breaks"] >= 1)
    iv = [list(x) for x in br["intervals"]]
    iv[0][1] += 1
    c2 = dict(br, intervals=iv)
    c3 = dict(ev0, used=ev0["used"][:-1] + [[0, 0]])
    tfb = os.path.join(ck.wd, "trace-corrupt.json")
    with open(tfb, "w") as fh:
        json.dump([c1, c2, c3], fh)
    t = tlc.run(SPEC, "TraceBreaks", "Trace.cfg", workers=1, extra_env={"TRACE_FILE": tfb})
    nrej = sum(1 for p in t.printed if "reject" in p)
    if nrej != 3:
        ck.machinery_failure("corrupted traces rejected: %d of 3" % nrej)
    ck.note("corrupted_traces_rejected", nrej)
    ck.exhaustive = True
    ck.assumptions = [
        "numba compiles the source that the interpreted (NUMBA_DISABLE_JIT=1) run executes; the compiled sweep is additionally observed as a black box",
        "FixHom model assumes threshold > 1/2 (at most one allele per SNV can reach it)",
        "exhaustive within the stated constants; random_breaks support check uses %d seeds per (n, breaks)" % count,
    ]
    ck.finish()


if __name__ == "__main__":
    main()
