"""C11: genotype <-> G-field index is the VCF order and a bijection; exact binomials.

spec  : spec/GenotypeIndex/{GenotypeIndex,Pascal,TraceGenotypes}.tla
bind  : every TLC state -> genotype_alleles_as_index / index_as_genotype_alleles /
        increment_genotype / posterior_as_array (jit and py-mode);
        every Pascal entry < 2^53 -> comb/_comb/comb_with_replacement/_comb_with_replacement;
        random large calls recorded from the implementation -> TraceGenotypes.tla
"""
import json
import os
import sys
from math import comb as mcomb

sys.path.insert(0, os.path.dirname(os.path.abspath(__file__)))
from vlib import env, tlc, pool
from vlib.report import Check

SPEC = os.path.join(env.SPEC, "GenotypeIndex")


def unlimb(l):
    v = 0
    for x in reversed(l):
        v = v * 10000 + x
    return v


def main():
    ck = Check("C11")
    tier = ck.tier
    ck.rule = (
        "TLC enumerates every genotype of each (nAlleles, ploidy) instance along the enumerator behaviour and "
        "every Pascal row; each state is replayed into the compiled and interpreted implementation. "
        "Non-trivial = state with idx > 0 (a non-initial genotype) or a Pascal entry outside the 100x12 lookup table."
    )
    try:
        # ---- 1. model checking -------------------------------------------
        r = tlc.run(SPEC, "GenotypeIndex", "MC_%s.cfg" % tier)
        ck.add_tlc(r, "GenotypeIndex")
        if r.violated:
            ck.violation("model", {"invariant": r.violated, "text": r.error_text[:1500]}, key={"model": "GenotypeIndex"})
        states = r.printed
        m = tlc.run(SPEC, "GenotypeIndex", "Mutant_rank.cfg")
        if m.violated != "MutRankIsIndex":
            ck.machinery_failure("mutant spec Mutant_rank not killed")
        ck.note("mutant_specs_killed", 1)
        rp = tlc.run(SPEC, "Pascal", "Pascal_%s.cfg" % tier)
        ck.add_tlc(rp, "Pascal")
        if rp.violated:
            ck.violation("model", {"invariant": rp.violated, "text": rp.error_text[:1500]}, key={"model": "Pascal"})
        rows = rp.printed
    except tlc.TLCError as e:
        ck.machinery_failure(str(e))

    # ---- 2. spec -> code: every enumerator state ---------------------------
    for s in states:
        s["N"] = mcomb(s["n"] + s["p"] - 1, s["p"])
    chunks = [states[i : i + 400] for i in range(0, len(states), 400)]
    behaviours = set()
    for mode in ("jit", "py"):
        res = pool.map_tasks("impl.c11", [{"op": "states", "states": c} for c in chunks], mode=mode)
        for c, rr in zip(chunks, res):
            if not rr["ok"]:
                ck.violation("impl-error", {"mode": mode, "error": rr["error"], "first_state": c[0]},
                             key={"site": "index-maps", "mode": mode})
                continue
            for s, o in zip(c, rr["result"]):
                ck.evaluations += 1
                behaviours.add((s["n"], s["p"]))
                exp = {"index": s["idx"], "index_i8": s["idx"], "unrank": s["g"]}
                if s["prev"]:
                    exp["inc"] = s["g"]
                if "place" in o:
                    exp["place"] = [s["idx"]]
                    exp["len"] = s["N"]
                for k, v in exp.items():
                    if o.get(k) != v:
                        ck.violation("index-map", {"mode": mode, "state": s, "field": k, "impl": o.get(k), "model": v},
                                     key={"site": k, "n": s["n"], "p": s["p"]})
                if s["idx"] > 0 and mode == "jit":
                    ck.nontrivial += 1
        ck.sample({"kind": "enumerator-state", "state": states[len(states) // 2], "mode": mode})
    ck.traces += len(behaviours)

    # ---- 3. spec -> code: every Pascal entry below 2^53 --------------------
    nk, want = [], []
    for row in rows:
        n = row["n"]
        for k, l in enumerate(row["row"]):
            v = unlimb(l)
            if v < 2**53:
                nk.append((n, k))
                want.append(l)
    chunks = [list(range(i, min(i + 2000, len(nk)))) for i in range(0, len(nk), 2000)]
    res = pool.map_tasks("impl.c11", [{"op": "pascal", "nk": [nk[i] for i in c]} for c in chunks], mode="jit")
    beyond = 0
    for c, rr in zip(chunks, res):
        if not rr["ok"]:
            ck.violation("impl-error", {"error": rr["error"]}, key={"site": "comb"})
            continue
        for i, o in zip(c, rr["result"]):
            ck.evaluations += 1
            n, k = nk[i]
            if n >= 100 or k >= 12:
                beyond += 1
                ck.nontrivial += 1
            for name in ("comb", "_comb"):
                if o[name] != want[i]:
                    ck.violation("binomial", {"fn": name, "n": n, "k": k, "impl": o[name], "model_limbs": want[i]},
                                 key={"site": name, "n": n, "k": k})
    # multiset coefficients: comb_with_replacement(a, k) = C(a+k-1, k)
    table = {}
    for row in rows:
        for k, l in enumerate(row["row"]):
            table[(row["n"], k)] = l
    cr = [(a, k) for a in range(1, 125) for k in range(1, 16) if (a + k - 1, k) in table and unlimb(table[(a + k - 1, k)]) < 2**53]
    rr = pool.map_tasks("impl.c11", [{"op": "combr", "nk": cr}], mode="jit")[0]
    if not rr["ok"]:
        ck.violation("impl-error", {"error": rr["error"]}, key={"site": "combr"})
    else:
        for (a, k), o in zip(cr, rr["result"]):
            ck.evaluations += 1
            for name in ("combr", "_combr"):
                if o[name] != table[(a + k - 1, k)]:
                    ck.violation("multiset-coefficient", {"fn": name, "n": a, "k": k, "impl": o[name], "model_limbs": table[(a + k - 1, k)]},
                                 key={"site": name, "n": a, "k": k})
    # N itself: count_unique_genotypes(n_alleles, ploidy) (sizes GP / GL and bounds call-exact's streaming enumeration)
    ng = [(a, k) for a in range(1, 260) for k in range(1, 25) if (a + k - 1, k) in table and unlimb(table[(a + k - 1, k)]) < 2**53]
    rr = pool.map_tasks("impl.c11", [{"op": "ngenotypes", "nk": ng}], mode="jit")[0]
    if not rr["ok"]:
        ck.violation("impl-error", {"error": rr["error"]}, key={"site": "count_unique_genotypes"})
    else:
        for (a, k), o in zip(ng, rr["result"]):
            ck.evaluations += 1
            if unlimb(table[(a + k - 1, k)]) >= 2**31:
                ck.nontrivial += 1
            if o["ngen"] != table[(a + k - 1, k)]:
                ck.violation("number-of-genotypes", {"fn": "combinatorics.count_unique_genotypes", "n_alleles": a, "ploidy": k, "impl": o["ngen"],
                                                     "model_limbs": table[(a + k - 1, k)]},
                             key={"site": "count_unique_genotypes", "n_alleles": a, "ploidy": k})
    ck.note("count_unique_genotypes_arguments", len(ng))
    ck.note("pascal_entries_beyond_lookup_table", beyond)
    ck.sample({"kind": "pascal-row", "n": rows[40]["n"], "row_limbs_base10000": rows[40]["row"][:8]})

    # ---- 4. code -> spec: recorded calls on large arguments ----------------
    ntr = 1500 if tier == "quick" else 12000
    rr = pool.map_tasks("impl.c11", [{"op": "random_trace", "n": ntr, "seed": ck.seed}], mode="jit")[0]
    if not rr["ok"]:
        ck.violation("impl-error", {"error": rr["error"]}, key={"site": "random_trace"})
    else:
        ev = rr["result"]
        tf = os.path.join(ck.wd, "trace.json")
        with open(tf, "w") as fh:
            json.dump(ev, fh)
        try:
            t = tlc.run(SPEC, "TraceGenotypes", "Trace.cfg", workers=1, extra_env={"TRACE_FILE": tf})
        except tlc.TLCError as e:
            ck.machinery_failure(str(e))
        ck.add_tlc(t, "TraceGenotypes")
        consumed = [p for p in t.printed if "consumed" in p]
        if not consumed or consumed[0]["consumed"] != len(ev):
            ck.machinery_failure("trace not fully consumed: %s" % consumed)
        for p in t.printed:
            if "reject" in p:
                e = ev[p["reject"] - 1]
                ck.violation("trace-reject", {"line": p["reject"], "clause": p["clause"], "event": e},
                             key={"site": e["op"], "clause": p["clause"]})
        ck.traces += len(ev)
        ck.evaluations += len(ev)
        ck.nontrivial += sum(1 for e in ev if len(e["limbs"]) >= 3)
        ck.sample({"kind": "recorded-call", "event": ev[0]})
        # binding demonstration: a corrupted recorded field must be rejected
        bad = [dict(ev[0]), dict(ev[2])]
        bad[0]["limbs"] = list(bad[0]["limbs"]) + [1]
        bad[1]["limbs"] = [(bad[1]["limbs"] or [0])[0] + 1] + list(bad[1]["limbs"][1:])
        tfb = os.path.join(ck.wd, "trace-corrupt.json")
        with open(tfb, "w") as fh:
            json.dump(bad, fh)
        t = tlc.run(SPEC, "TraceGenotypes", "Trace.cfg", workers=1, extra_env={"TRACE_FILE": tfb})
        if sum(1 for p in t.printed if "reject" in p) != 2:
            ck.machinery_failure("corrupted trace was not rejected")
        ck.note("corrupted_traces_rejected", 2)
    ck.exhaustive = True
    ck.assumptions = [
        "TLC and CommunityModules Json are correct",
        "exhaustive within the listed (nAlleles, ploidy) grid and Pascal rows; larger arguments are sampled (seeded)",
    ]
    ck.finish()


if __name__ == "__main__":
    main()
