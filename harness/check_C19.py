"""C19: find-snvs depths equal the filtered pileup; thresholds applied as documented.

spec  : spec/FindSnvs/{FindSnvs,TraceFindSnvs}.tla
bind  : spec -> code  every TLC state (a bag of abstract alignments over 2 target positions and 2-3 samples; depth
                      tables for all 8/16 read-filter configurations; records for every threshold configuration) is
                      concretised by vlib/bamgen into one BAM per sample (unpaired reads, base qualities >= 30);
                      find_snvs.write_vcf_block runs with every read-filter configuration (the depth array is
                      observed at its bam_region_depths call, the records are parsed from stdout by an independent
                      reader) and find_snvs.main(argv) for one configuration per state
        code -> spec  the repository's BAM sets of the find-snvs goldens, seeded random BAMs and seeded random deep
                      tables (30-60 reads per sample, near-tied ALT counts, thresholds on observed values, --min-ind
                      0 / 1 / n / n+1) are abstracted by the SAM-text walker and validated, with the depths and records
                      the program produced, by TraceFindSnvs.tla
"""
import json
import os
import random
import shutil
import sys

sys.path.insert(0, os.path.dirname(os.path.abspath(__file__)))
from vlib import env, tlc, pool
from vlib.report import Check

SPEC = os.path.join(env.SPEC, "FindSnvs")
BAM_SETS = [
    ["simple.sample1.bam", "simple.sample2.bam", "simple.sample3.bam"],
    ["simple.sample1.bam", "simple.sample2.deep.bam", "simple.sample3.bam"],
    ["simple.sample1.deep.bam", "simple.sample2.deep.bam", "simple.sample3.deep.bam"],
]
REGIONS = [("CHR1", 5, 25), ("CHR1", 30, 50), ("CHR2", 10, 30), ("CHR3", 20, 40)]


def copy_repo_data(dst):
    """Copy the repository's alignment test data into the work directory (pysam may create index
    files next to a file it opens; nothing may be written into the tree under test)."""
    src = os.path.join(env.REPO, "mchap", "tests", "test_io", "data")
    shutil.rmtree(dst, ignore_errors=True)
    os.makedirs(dst)
    for f in os.listdir(src):
        if f.startswith("simple.") and (".bam" in f or f.startswith("simple.fasta") or f.startswith("simple.vcf.gz") or f.startswith("simple.bed")):
            shutil.copy2(os.path.join(src, f), os.path.join(dst, f))
    return dst


def main():
    ck = Check("C19")
    tier = ck.tier
    quick = tier == "quick"
    rnd = random.Random(ck.seed)
    for fn in os.listdir(ck.wd):  # nothing stale: replay / trace files of earlier runs
        if fn.startswith(("violation-", "trace-")) and fn.endswith(".json"):
            os.remove(os.path.join(ck.wd, fn))
    data_wd = os.path.join(ck.wd, "data")
    shutil.rmtree(data_wd, ignore_errors=True)
    os.makedirs(data_wd)
    repo_data = copy_repo_data(os.path.join(ck.wd, "repo-data"))
    ck.rule = (
        "TLC explores every bag of abstract alignments of the 'filter' instance (flag/MAPQ classes x cell vectors x "
        "samples, <= 3 records) and of the 'threshold' instance (plain reads as a counter machine over the depth table, "
        "<= 4-5 reads), keeps the depth table of every read-filter configuration in the state and evaluates the "
        "documented threshold rule for every threshold configuration. Every state is concretised into one BAM per sample "
        "and run through write_vcf_block for every read-filter configuration and every threshold class. "
        "The 'boundary' instance runs --min-ind 0 (population thresholds only) and n_samples+1 against every zero / non-zero "
        "combination of the other thresholds on tables of <= 5 reads; the 'deep' instances start the same counter machine from "
        "a seed table of 30-60 reads per sample (BulkPile, tied to the single-read step by SeedIsPile) in which two ALT "
        "alleles have near-tied, unequal exact mean frequencies, with thresholds at 0 and exactly on observed values. "
        "Non-trivial = state with >= 2 alignments."
    )
    instances = [("MC_%s.cfg" % tier, "FindSnvs-filter", False), ("MC_%s_thresh.cfg" % tier, "FindSnvs-thresholds", True),
                 ("MC_minind.cfg", "FindSnvs-thresholds-min-ind", True),
                 # option boundary values: --min-ind 0 / n+1 with every 0 / non-0 combination of the other four thresholds
                 ("MC_boundary.cfg", "FindSnvs-thresholds-boundary", True)]
    # deep tables (30-60 reads per sample) started from a seed: near-tied unequal ALT means, thresholds on observed values
    if quick:
        instances += [("MC_deep_near.cfg", "FindSnvs-deep-near-ties", True), ("MC_deep_dyadic.cfg", "FindSnvs-deep-dyadic", True)]
    else:
        instances += [("MC_thorough_deep_near.cfg", "FindSnvs-deep-near-ties", True),
                      ("MC_thorough_deep_dyadic.cfg", "FindSnvs-deep-dyadic", True),
                      ("MC_thorough_deep_three.cfg", "FindSnvs-deep-3samples", True)]
    if not quick:
        instances.append(("MC_thorough_deep.cfg", "FindSnvs-filter-deep", False))
        instances.append(("MC_thorough_thresh3.cfg", "FindSnvs-thresholds-3samples", True))
    runs = []
    mutants = ("MutMapqNoEffect", "MutDupNoEffect", "MutQcNoEffect", "MutSuppNoEffect", "MutMafPerSample", "MutMinIndAtLeastOne",
               "MutOrderRounded")
    import concurrent.futures as cf

    # the model-checking runs are independent: a few JVMs side by side, sharing the cores
    par = 3 if env.NCPU >= 6 else 1
    tlc_workers = max(2, env.NCPU // par)

    def mc(job):
        kind, name = job
        if kind == "inst":
            return tlc.run(SPEC, "FindSnvs", name, timeout=2400, workers=tlc_workers)
        return tlc.run(SPEC, "FindSnvs", "Mutant_%s.cfg" % name, workers=2)

    try:
        with cf.ThreadPoolExecutor(max_workers=par) as ex:
            mc_res = list(ex.map(mc, [("inst", c) for c, _, _ in instances] + [("mutant", m) for m in mutants]))
        for (cfg, label, all_th), r in zip(instances, mc_res):
            ck.add_tlc(r, label)
            if r.violated:
                ck.violation("model", {"cfg": cfg, "invariant": r.violated, "text": r.error_text[:1500]}, key={"model": "FindSnvs", "cfg": cfg})
            th = [p for p in r.printed if "thresholds" in p]
            if len(th) < 1:
                ck.machinery_failure("no threshold table printed by %s" % cfg)
            bulk = th[0].get("seed") or []
            # (the state without alignments is replayed only where a seed gives it a table)
            st = [p for p in r.printed if "hist" in p and (p["hist"] or bulk)]
            runs.append((label, th[0]["thresholds"], st, all_th, bulk))
        killed = 0
        for inv, m in zip(mutants, mc_res[len(instances):]):
            if m.violated != inv:
                ck.machinery_failure("mutant spec %s not killed (%s)" % (inv, m.violated))
            killed += 1
        ck.note("mutant_specs_killed", killed)
    except tlc.TLCError as e:
        ck.machinery_failure(str(e))

    # ---- spec -> code ----------------------------------------------------------
    tasks = []
    n_states = 0
    for label, thtab, st, all_th, bulk in runs:
        ths = [{"imaf": t[0], "imad": t[1], "mind": t[2], "maf": t[3], "mad": t[4]} for t in thtab]
        nS = len(st[0]["cls"][0]["depth"])
        chunk = 40 if not all_th else 12
        for i in range(0, len(st), chunk):
            tasks.append({"op": "replay", "states": st[i:i + chunk], "thresholds": ths, "samples": nS, "seed": ck.seed, "bulk": bulk,
                          "chunk": "%s-%d" % (label, i // chunk), "wd": data_wd, "all_th": all_th, "cli": True})
        n_states += len(st)
    res = pool.map_tasks("impl.c19", tasks, mode="jit")
    seen = {}
    for t, rr in zip(tasks, res):
        if not rr["ok"]:
            ck.machinery_failure("replay worker failed: %s\n%s" % (rr["error"], rr.get("tb", "")))
        o = rr["result"]
        ck.evaluations += o["evals"]
        ck.nontrivial += o["nontrivial"]
        ck.traces += o["states"]
        ck.bump("ambiguous_positions_skipped", o["ambiguous"])
        ck.bump("cli_runs", o["cli"])
        ck.bump("chunks_with_ambiguous_reference_bases", o.get("ambig_ref_chunks", 0))
        for m in o["mismatch"]:
            k = json.dumps([m["kind"], m["key"]], sort_keys=True)
            seen[k] = seen.get(k, 0) + 1
            if seen[k] <= 3:  # a few instances per distinct key
                ck.violation(m["kind"], m["detail"], key=m["key"])
        for k, n in o.get("more", {}).items():
            ck.bump("further_mismatches_not_listed", n)
    ck.note("replayed_states", n_states)
    ck.note("distinct_mismatch_keys", {k: v for k, v in seen.items()})
    big = max(runs[0][2], key=lambda s: len(s["cls"]))
    ck.sample({"kind": "state", "hist": big["hist"], "filter_classes": [[c["fc"], c["depth"]] for c in big["cls"]]})

    # ---- code -> spec -----------------------------------------------------------
    rtasks = [{"op": "record_repo", "data": repo_data, "seed": ck.seed + i, "tid0": 1000 * i, "bam_sets": [bs], "regions": REGIONS,
               "cfgs": 4 if quick else 16} for i, bs in enumerate(BAM_SETS)]
    for i in range(4 if quick else 32):
        rtasks.append({"op": "record_random", "wd": data_wd, "chunk": i, "seed": ck.seed, "tid0": 100000 + 1000 * i, "n": 6, "cfgs": 4})
    for i in range(3 if quick else 12):
        rtasks.append({"op": "record_deep", "wd": data_wd, "chunk": i, "seed": ck.seed, "tid0": 200000 + 1000 * i, "n": 2, "cfgs": 4})
    rres = pool.map_tasks("impl.c19", rtasks, mode="jit")
    traces = []
    for t, rr in zip(rtasks, rres):
        if not rr["ok"]:
            ck.machinery_failure("record worker failed: %s\n%s" % (rr["error"], rr.get("tb", "")))
        traces.extend(rr["result"])
    batches, cur = [], []
    for tr in traces:
        if cur and len(cur) + len(tr) > 8000:
            batches.append(cur)
            cur = []
        cur.extend(tr)
    if cur:
        batches.append(cur)
    jobs = []
    for bi, ev in enumerate(batches):
        tf = os.path.join(ck.wd, "trace-%d.json" % bi)
        with open(tf, "w") as fh:
            json.dump(ev, fh)
        jobs.append((tf, ev))

    def run_trace(job):
        tf, ev = job
        return tlc.run(SPEC, "TraceFindSnvs", "Trace.cfg", workers=1, extra_env={"TRACE_FILE": tf},
                       name="TraceFindSnvs-" + os.path.basename(tf), timeout=1800)

    try:
        with cf.ThreadPoolExecutor(max_workers=max(1, env.NCPU // 2)) as ex:
            results = list(ex.map(run_trace, jobs))
    except tlc.TLCError as e:
        ck.machinery_failure(str(e))
    n_lines = 0
    ops = {}
    tseen = {}
    for (tf, ev), t in zip(jobs, results):
        ck.add_tlc(t, None)
        consumed = [p for p in t.printed if "consumed" in p]
        if not consumed or consumed[0]["consumed"] != len(ev):
            ck.machinery_failure("trace %s not fully consumed: %s" % (tf, consumed))
        for p in t.printed:
            if "reject" in p:
                e = ev[p["reject"] - 1]
                begin = next(x for x in reversed(ev[: p["reject"]]) if x["op"] == "begin")
                alns = [x for x in ev if x["op"] == "aln" and x["tid"] == begin["tid"]]
                key = {"site": "find_snvs.write_vcf_block->bam_region_depths" if e["op"] == "depth" else "find_snvs.write_vcf_block",
                       "clause": p["clause"], "op": e["op"]}
                k = json.dumps(key, sort_keys=True)
                tseen[k] = tseen.get(k, 0) + 1
                if tseen[k] <= 3:
                    ck.violation("trace-reject", {"line": p["reject"], "clause": p["clause"], "event": e, "fc": begin["fc"], "th": begin["th"],
                                                  "trace_file": tf}, key=key)
        n_lines += len(ev)
        for e in ev:
            ops[e["op"]] = ops.get(e["op"], 0) + 1
    ck.traces += len(traces)
    ck.evaluations += n_lines
    ck.note("trace_lines", n_lines)
    ck.note("trace_events", ops)
    ck.note("trace_reject_keys", tseen)
    ck.note("recorded_executions", len(traces))
    ck.parts["TraceFindSnvs"] = {"batches": len(batches), "lines": n_lines}
    ck.sample({"kind": "recorded-record", "event": next((e for tr in traces for e in tr if e["op"] == "record"), None)})

    # binding demonstration: corrupted recorded trace must be rejected
    tr = next(tr for tr in traces if tr[0]["fc"] == {"minq": 20, "kd": False, "kq": False, "ks": False} and any(e["op"] == "record" for e in tr))
    bad = json.loads(json.dumps(tr))
    want = 0
    for e in bad:
        if e["op"] == "depth" and sum(map(sum, e["d"])) > 0 and want == 0:
            e["d"][0][0] += 1
            want += 1
        elif e["op"] == "record" and want == 1:
            e["masked"] = not e["masked"]
            want += 1
    tfb = os.path.join(ck.wd, "trace-corrupt.json")
    with open(tfb, "w") as fh:
        json.dump(bad, fh)
    base = os.path.join(ck.wd, "trace-uncorrupt.json")
    with open(base, "w") as fh:
        json.dump(tr, fh)
    try:
        t0 = tlc.run(SPEC, "TraceFindSnvs", "Trace.cfg", workers=1, extra_env={"TRACE_FILE": base})
        t = tlc.run(SPEC, "TraceFindSnvs", "Trace.cfg", workers=1, extra_env={"TRACE_FILE": tfb})
    except tlc.TLCError as e:
        ck.machinery_failure(str(e))
    n0 = sum(1 for p in t0.printed if "reject" in p)
    n1 = sum(1 for p in t.printed if "reject" in p)
    if want < 2 or n1 - n0 < 2:
        if not ck.violations:
            ck.machinery_failure("corrupted trace was not rejected (%d -> %d rejects, %d corruptions)" % (n0, n1, want))
        # with real rejects already present in that trace a corrupted line may be shadowed by the first failing clause:
        # the property verdict (exit 1) stands, the demonstration is reported as not evaluated
        ck.note("corrupted_traces_rejected", max(0, n1 - n0))
        ck.note("corrupted_trace_demo", "not evaluated: the recorded trace itself is rejected")
    else:
        ck.note("corrupted_traces_rejected", n1 - n0)

    shutil.rmtree(data_wd, ignore_errors=True)
    ck.exhaustive = True
    ck.assumptions = [
        "TLC and the CommunityModules Json/IOUtils operators are correct",
        "generated reads are unpaired with base qualities >= 30 and never secondary, so pysam's base-quality / orphan / overlap / "
        "secondary defaults (not part of the property) cannot matter",
        "positions where a sample has no reads are only judged where the documented rule is unambiguous (--maf 0 and a non-vacuous "
        "individual threshold); population-frequency boundaries with non-dyadic sample frequencies are skipped; a position "
        "without any read is not judged when every threshold is vacuous (--min-ind 0 --maf 0 --mad 0)",
        "exhaustive within the listed alphabets, stream lengths and threshold grids",
    ]
    ck.finish()


if __name__ == "__main__":
    main()
